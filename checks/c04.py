"""C04 -- message flags follow IMAP STORE/FETCH semantics exactly."""
import os, sys
sys.path.insert(0, os.path.dirname(os.path.dirname(os.path.abspath(__file__))))
from checks import lib, mailfam

ACTS = ["Deliver", "Select", "Noop", "Idle", "Store", "Fetch", "Expunge", "Append"]
ALL = ACTS + ["Copy", "Move", "Search", "Status"]
QUICK = {
    "exhaustive": [("2sess-1mbox-2msgs-flags-depth6", dict(depth=6, maxid=2, acts=["Select", "Noop", "Store", "Fetch", "Append", "Idle", "Search"],
                     flags='{{"Deleted"}, {"Seen"}, {"Flagged", "k1"}, {"Recent"}}', modes=("+", "-", "="),
                     silents="{FALSE, TRUE}"))],
    "simulate": [("2mbox", dict(mbox=("inbox", "b"), maxid=5, maxpend=8, sets="SetsMedium", acts=ALL,
                                 flags='{{"Deleted"}, {"Seen"}, {"Flagged", "k1"}, {"Recent", "Seen"}, {"Flagged", "Seen"}, {"k1"}}',
                                 modes=("+", "-", "="), silents="{FALSE, TRUE}"), 50, 24)],
    "random": 70,
    "gen": dict(length=34, weights={"store": 24, "fetch": 10, "fetchbody": 8, "append": 8, "copy": 5, "search": 4,
                                    "noop": 10, "idle": 4, "done": 4, "examine": 3}),
   }
THOROUGH = {
    "exhaustive": [("2sess-1mbox-2msgs-flags-depth7", dict(depth=7, maxid=2, acts=["Select", "Noop", "Store", "Fetch", "Append", "Idle"],
                     flags='{{"Deleted"}, {"Seen"}, {"Flagged", "k1"}, {"Recent"}}', modes=("+", "-", "="),
                     silents="{FALSE, TRUE}")),
                   ("2sess-1mbox-2msgs-search-status-depth7", dict(depth=7, maxid=2,
                     acts=["Select", "Noop", "Store", "Fetch", "Append", "Search", "Status"],
                     flags='{{"Deleted"}, {"Seen"}}', modes=("+", "-"), silents="{FALSE}")),
                   ("2sess-1mbox-3msgs-depth6", dict(depth=6, maxid=3, flags='{{"Deleted"}, {"Seen", "k1"}}',
                                                     modes=("+", "-", "="), silents="{FALSE, TRUE}"))],
    "simulate": [("2mbox", dict(mbox=("inbox", "b"), maxid=6, maxpend=8, sets="SetsMedium", acts=ALL,
                                 flags='{{"Deleted"}, {"Seen"}, {"Flagged", "k1"}, {"Recent", "Seen"}, {"Answered", "Draft"}, {"Flagged", "Seen"}, {"k1"}}',
                                 modes=("+", "-", "="), silents="{FALSE, TRUE}"), 800, 32)],
    "random": 800,
    "gen": dict(length=50, weights={"store": 24, "fetch": 10, "fetchbody": 8, "append": 8, "copy": 5, "search": 4,
                                    "noop": 10, "idle": 4, "done": 4, "examine": 3}),
    "tlc_timeout": 1500,
   }

def fn(ck, a):
    mailfam.run_family(ck, ["C04."], model_prop="P_C04", quick=QUICK, thorough=THOROUGH)

if __name__ == "__main__":
    lib.main(fn, "C04")
