"""C05 -- only the addressed messages are removed, copied or moved."""
import os, sys
sys.path.insert(0, os.path.dirname(os.path.dirname(os.path.abspath(__file__))))
from checks import lib, mailfam

ACTS = ["Deliver", "Select", "Noop", "Idle", "Store", "Fetch", "Expunge", "Append"]
ALL = ACTS + ["Copy", "Move"]
QUICK = {
    "exhaustive": [("2sess-2mbox-3msgs-depth5", dict(depth=5, maxid=3, mbox=("inbox", "b"), acts=ALL))],
    "simulate": [("2mbox", dict(mbox=("inbox", "b"), maxid=6, maxpend=8, sets="SetsMedium", acts=ALL), 50, 24)],
    "random": 70,
    "gen": dict(length=34, weights={"store": 14, "expunge": 10, "uidexpunge": 8, "copy": 10, "move": 10, "close": 5,
                                    "examine": 4, "append": 8, "search": 0, "fetchbody": 2}),
   }
THOROUGH = {
    "exhaustive": [("2sess-2mbox-3msgs-depth6", dict(depth=6, maxid=3, mbox=("inbox", "b"), acts=ALL)),
                   ("1sess-2mbox-4msgs-depth6", dict(depth=6, maxid=4, sess=("A",), mbox=("inbox", "b"), acts=ALL,
                                                     sets="SetsMedium"))],
    "simulate": [("2mbox", dict(mbox=("inbox", "b"), maxid=8, maxpend=8, sets="SetsMedium", acts=ALL), 800, 32)],
    "random": 800,
    "gen": dict(length=50, weights={"store": 14, "expunge": 10, "uidexpunge": 8, "copy": 10, "move": 10, "close": 5,
                                    "examine": 4, "append": 8, "search": 0, "fetchbody": 2}),
    "tlc_timeout": 1500,
   }

def fn(ck, a):
    mailfam.run_family(ck, ["C05."], model_prop="P_C05", quick=QUICK, thorough=THOROUGH)

if __name__ == "__main__":
    lib.main(fn, "C05")
