"""C06 -- every command is answered exactly once, promptly, whatever its arguments."""
import json, os, sys, tempfile, shutil
import multiprocessing as mp
sys.path.insert(0, os.path.dirname(os.path.dirname(os.path.abspath(__file__))))
from checks import lib
from harness import tlc

SCENARIOS = ["OppositeMoves", "OppositeCopies", "DeleteQueued", "BadSet", "StoreFetch", "SameSession"]
SCHED_CFG = """SPECIFICATION Spec
CONSTANTS
  Mbox = {{"a", "b"}}
  Cmds <- Scn_{scn}
  HasDeleted <- AllDeleted
INVARIANT ExactlyOneTagged
INVARIANT WaitingIsTracked
INVARIANT QueueHasConsumer
INVARIANT MutualExclusion
PROPERTY AllAnswered
"""
LIFE_CFG = """SPECIFICATION Spec
CONSTANTS
  Sess = {{"A", "B"}}
  Names = {{"inbox", "a", "a/b"}}
  MaxSteps = {steps}
INVARIANT TypeOK
CHECK_DEADLOCK FALSE
"""

def C(k, uid=False, arg="-", mb="-", mb2="-"):
    return {"k": k, "uid": uid, "arg": arg, "mb": mb, "mb2": mb2}

# histories that once exposed a defect, and the race of DELETE with queued commands
DIRECTED = {
    "noselect_after_restart": [
        {"s": "A", "c": C("CREATE", mb="a/b")}, {"s": "A", "c": C("DELETE", mb="a")},
        {"s": "", "c": C("RESTART")},
        {"s": "A", "c": C("STATUS", mb="a")}, {"s": "B", "c": C("APPEND", mb="a")},
        {"s": "A", "c": C("COPY", arg="inrange", mb="a")}, {"s": "A", "c": C("DELETE", mb="a")},
        {"s": "A", "c": C("CREATE", mb="a")}, {"s": "B", "c": C("STATUS", mb="a")}],
    "out_of_range_and_garbage": [
        {"s": "A", "c": C("SELECT", mb="inbox")},
        {"s": "A", "c": C("FETCH", arg="beyond")}, {"s": "A", "c": C("COPY", arg="beyond", mb="inbox")},
        {"s": "A", "c": C("STORE", arg="zero")}, {"s": "A", "c": C("BADDATE")}, {"s": "A", "c": C("UNKNOWNCMD")},
        {"s": "A", "c": C("TRUNCATED")}, {"s": "A", "c": C("DEEPNEST")}, {"s": "A", "c": C("NOTAG")},
        {"s": "A", "c": C("EMPTY")}, {"s": "A", "c": C("BADLITERAL")}, {"s": "A", "c": C("FETCH", arg="inrange")}],
    "empty_mailbox_uid_copy": [
        {"s": "A", "c": C("CREATE", mb="a")}, {"s": "A", "c": C("SELECT", mb="a")},
        {"s": "A", "c": C("COPY", uid=True, arg="uidmissing", mb="inbox")},
        {"s": "A", "c": C("MOVE", uid=True, arg="star", mb="inbox")},
        {"s": "A", "c": C("FETCH", arg="star")}, {"s": "A", "c": C("SEARCHSET", arg="star")}],
    "delete_with_queued_commands": [
        {"s": "A", "c": C("CREATE", mb="a")}, {"s": "A", "c": C("APPEND", mb="a")},
        {"par": [{"s": "A", "c": C("DELETE", mb="a")}, {"s": "B", "c": C("STATUS", mb="a")},
                 {"s": "C", "c": C("APPEND", mb="a")}]},
        {"s": "B", "c": C("SELECT", mb="inbox")}, {"s": "C", "c": C("CREATE", mb="a")},
        {"s": "C", "c": C("SELECT", mb="a")},
        {"par": [{"s": "A", "c": C("RENAME", mb="a", mb2="a/b")}, {"s": "B", "c": C("COPY", arg="inrange", mb="a")},
                 {"s": "C", "c": C("FETCH", arg="star")}]}],
    # the mailbox a session has selected is deleted (or renamed away) by another session; then every kind of command
    **{f"selected_mailbox_deleted_then_{k.lower()}{'_uid' if u else ''}": [
        {"s": "B", "c": C("CREATE", mb="a")}, {"s": "B", "c": C("APPEND", mb="a")}, {"s": "A", "c": C("SELECT", mb="a")},
        {"s": "C", "c": C("SELECT", mb="a")}, {"s": "B", "c": C("DELETE", mb="a")},
        {"s": "A", "c": C(k, uid=u, arg="inrange", mb="inbox")}, {"s": "A", "c": C("NOOP")},
        {"s": "C", "c": C("NOOP")}, {"s": "C", "c": C(k, uid=u, arg="star", mb="inbox")}, {"s": "C", "c": C("SELECT", mb="inbox")}]
       for k, u in (("FETCH", False), ("FETCHBODY", True), ("STORE", False), ("SEARCHSET", False), ("COPY", True), ("MOVE", False),
                    ("EXPUNGE", False), ("UIDEXPUNGE", True), ("CLOSE", False), ("CHECK", False), ("IDLE", False), ("UNSELECT", False))},
    # ... and the command is already waiting in the mailbox's queue when the DELETE shuts the mailbox down (it is
    # released and refused inside whatever block it was going to run in), then the session goes on
    **{f"queued_behind_delete_{k.lower()}{'_uid' if u else ''}": [
        {"s": "B", "c": C("CREATE", mb="a")}, {"s": "B", "c": C("APPEND", mb="a")}, {"s": "B", "c": C("APPEND", mb="a")},
        {"s": "A", "c": C("SELECT", mb="a")}, {"s": "C", "c": C("SELECT", mb="a")},
        {"par": [{"s": "B", "c": C("DELETE", mb="a")}, {"s": "A", "c": C(k, uid=u, arg="inrange", mb="inbox")},
                 {"s": "C", "c": C("NOOP")}]},
        {"s": "A", "c": C("NOOP")}, {"s": "A", "c": C("SELECT", mb="inbox")}, {"s": "A", "c": C("FETCH", arg="inrange")},
        {"s": "C", "c": C("NOOP")}, {"s": "C", "c": C("SELECT", mb="inbox")}]
       for k, u in (("EXPUNGE", False), ("UIDEXPUNGE", True), ("MOVE", False), ("COPY", False), ("FETCH", False),
                    ("STORE", False), ("CLOSE", False), ("CHECK", False), ("SEARCHSET", False))},
    "selected_mailbox_renamed_then_commands": [
        {"s": "B", "c": C("CREATE", mb="a")}, {"s": "B", "c": C("APPEND", mb="a")}, {"s": "A", "c": C("SELECT", mb="a")},
        {"s": "B", "c": C("RENAME", mb="a", mb2="b")}, {"s": "A", "c": C("FETCH", arg="inrange")}, {"s": "A", "c": C("STORE", arg="inrange")},
        {"s": "A", "c": C("NOOP")}, {"s": "A", "c": C("SELECT", mb="b")}, {"s": "A", "c": C("FETCH", arg="inrange")}],
    # commands that do not select the mailbox arrive while another session's command is running on it
    **{f"busy_mailbox_then_{k.lower()}": [
        {"s": "B", "c": C("CREATE", mb="a")}, {"s": "B", "c": C("APPEND", mb="a")}, {"s": "B", "c": C("APPEND", mb="a")},
        {"s": "B", "c": C("APPEND", mb="a")}, {"s": "A", "c": C("SELECT", mb="a")},
        {"par": [{"s": "A", "c": C("FETCHBODY", arg="rev"), "stall": 0.3},
                 {"s": "B", "c": C(k, mb="a", mb2="a2"), "delay": 0.1}, {"s": "C", "c": C("STATUS", mb="a"), "delay": 0.2}]},
        {"s": "C", "c": C("STATUS", mb="a")}, {"s": "A", "c": C("NOOP")}, {"s": "B", "c": C("LIST")}]
       for k in ("SUBSCRIBE", "UNSUBSCRIBE", "STATUS", "APPEND", "DELETE", "RENAME", "CREATE", "SELECT", "EXAMINE")},
    "idle_lifecycle": [
        {"s": "A", "c": C("SELECT", mb="inbox")}, {"s": "A", "c": C("IDLE")}, {"s": "A", "c": C("NOOP")},
        {"s": "A", "c": C("DONE")}, {"s": "A", "c": C("FETCH", arg="inrange")}, {"s": "A", "c": C("LOGOUT")}],
}

def _run(job):
    from harness import lifedriver
    name, steps, seed = job
    try:
        so = []
        recs = lifedriver.execute(steps, sessions=("A", "B", "C"), seed=seed, sched_out=so)
        return name, recs, None, (so[0] if so else None)
    except BaseException:
        import traceback
        return name, None, traceback.format_exc()[-1500:], None

def fn(ck, a):
    from harness import mailreplay
    thorough = ck.tier == "thorough"
    tmp = tempfile.mkdtemp(prefix="verif-c06-")
    try:
        # 1. the admission protocol: safety + liveness without the watchdog
        for scn in SCENARIOS:
            r = tlc.run("Sched", SCHED_CFG.format(scn=scn), workers=8, timeout=900, deadlock=True)
            ck.add_tlc("Sched:" + scn, r)
            if r.violated or r.rc != 0:
                if r.violated:
                    ck.violation("C06.ModelViolatesProperty", act="model", where=scn,
                                 detail=f"Sched.tla: {r.violated}", replay_obj={"tlc": r.out[-5000:]})
                else:
                    raise RuntimeError(f"TLC failed on Sched {scn}: {r.error}")
        # 2. command classes x states: exhaustive small + simulated histories
        r = tlc.run("Lifecycle", LIFE_CFG.format(steps=3 if thorough else 2), workers=16, timeout=1800)
        ck.add_tlc("Lifecycle:exhaustive", r)
        if r.rc != 0:
            raise RuntimeError(f"TLC failed on Lifecycle: {r.error}")
        num, depth = (1200, 16) if thorough else (90, 14)
        pre = os.path.join(tmp, "life")
        r = tlc.run("Lifecycle", LIFE_CFG.format(steps=depth), workers=1, timeout=1800,
                    simulate=f"file={pre},num={num}", depth=depth + 1, seed=ck.seed + 7)
        ck.add_tlc("Lifecycle:simulate", r, exhaustive=False)
        if r.rc != 0:
            raise RuntimeError(f"TLC simulate failed on Lifecycle: {r.error}")
        jobs = []
        for i, beh in enumerate(mailreplay.load_behaviours(pre)):
            steps = [{"s": st["last"]["s"], "c": st["last"]["c"]} for st in beh[1:]]
            jobs.append((f"sim{i}", steps, ck.seed * 1000 + i))
        for name, steps in DIRECTED.items():
            jobs.append((name, steps, 1))
        with mp.get_context("fork").Pool(14) as pool:
            results = pool.map(_run, jobs, chunksize=1)
        runs, names = [], []
        classes = set()
        from harness import schedsteps
        schedsteps.validate(ck, [(name, so) for name, recs, err, so in results if so], tmp, label="run")
        for name, recs, err, so in results:
            if err:
                raise RuntimeError(f"harness failure in {name}: {err}")
            if recs:
                runs.append(recs)
                names.append(name)
                for x in recs:
                    classes.add((x["kind"], x["status"]))
                    ck.note_case((x["kind"], x["status"], x["closed"], x["bye"]))
        p = os.path.join(tmp, "runs.json")
        json.dump(runs, open(p, "w"))
        r = tlc.run("TraceLife", "SPECIFICATION Spec\nCHECK_DEADLOCK FALSE\n", env={"TRACE_FILE": p},
                    workers=1, timeout=1800)
        if r.rc != 0:
            raise RuntimeError(f"TraceLife failed: {r.error}")
        done = {p_[1] for p_ in r.prints if p_[0] == "DONE"}
        if len(done) != len(runs):
            raise RuntimeError("not every run was validated completely")
        ck.cov["traces_validated_against_impl"] = len(runs)
        ck.cov["evaluations"] = sum(len(x) for x in runs)
        ck.cov["command_class_outcomes"] = len(classes)
        ck.cov["rule"] = ("cases = commands executed on the real server (TLC-simulated histories of command "
                          "classes x argument classes x mailbox/session states + directed histories incl. "
                          "concurrent DELETE/RENAME with queued commands); distinct non-trivial = distinct "
                          "(class, outcome, closed, bye)")
        ck.cov["exhaustive"] = True
        ck.sample({"run": names[0], "records": runs[0][:6]})
        for p_ in r.prints:
            if p_[0] == "VIOL":
                ti, l, kind, clause = p_[1] - 1, p_[2], p_[3], p_[4]
                rec = runs[ti][l - 1]
                ck.violation(clause, act=kind, where=f"{names[ti]}:{l}",
                             detail=json.dumps({k: rec[k] for k in ("sess", "status", "ntag", "vt", "watchdog", "closed", "usable", "text")}),
                             replay_obj={"run": names[ti], "index": l, "records": runs[ti][max(0, l - 6):l]})
        ck.assumptions += ["in-process server on a virtual-time loop; 'promptly' = tagged line within 60 virtual "
                           "seconds and not produced by the 120 s watchdog",
                           "the Sched model has no watchdog action: liveness is required without it (WF on every step)"]
        ck.cov["trusted_base"] = ["TLC", "harness/world.py", "harness/wire.py", "harness/lifedriver.py (rendering)"]
    finally:
        shutil.rmtree(tmp, ignore_errors=True)

if __name__ == "__main__":
    lib.main(fn, "C06")
