"""C11 -- a crash at any instant loses nothing acknowledged and never rebinds a UID."""
import json, os, sys, tempfile, shutil
import multiprocessing as mp
sys.path.insert(0, os.path.dirname(os.path.dirname(os.path.abspath(__file__))))
from checks import lib
from harness import tlc

S = -1
BASE = [("open", "A"), ("create", "A", "b"),
        ("append", "A", "inbox", ["Seen"], 0), ("append", "A", "inbox", [], 0), ("append", "A", "inbox", ["Flagged", "k1"], 0),
        ("append", "A", "b", [], 0), ("append", "A", "b", ["Seen"], 0),
        ("select", "A", "inbox"), ("store", "A", [[2, 2]], "+", ["Deleted"], False, False)]
PRE = [("open", "A"), ("select", "A", "inbox")]
GAPPY = BASE + [("append", "A", "inbox", [], 0), ("append", "A", "inbox", [], 0),
                ("store", "A", [[1, 1], [4, 4]], "+", ["Deleted"], False, False), ("expunge", "A")]

def infl(kind, src="", dst="", uid=False, set_=(), flags=(), mode="", msgid=0):
    return {"kind": kind, "src": src, "dst": dst, "uid": uid, "set": [list(e) for e in set_], "flags": list(flags),
            "mode": mode, "msgid": msgid}

# (name, prefix, step, in-flight description, world options)
HISTORIES = [
    ("expunge", BASE, {"pre": PRE, "body": [("expunge", "A")]}, infl("Expunge", src="inbox"), {}),
    ("append", BASE, {"pre": PRE, "body": [("append", "A", "inbox", ["Flagged"], 0)]}, infl("Append", dst="inbox", msgid=6), {}),
    ("store", BASE, {"pre": PRE, "body": [("store", "A", [[1, S]], "+", ["Answered"], False, False)]},
     infl("Store", src="inbox", set_=[[1, S]], flags=["Answered"], mode="+"), {}),
    # flag changes that only move messages between sequences that already exist (nothing new to create)
    ("store_existing", BASE + [("store", "A", [[1, 1]], "-", ["Seen"], False, False), ("store", "A", [[3, 3]], "+", ["Seen"], False, False)],
     {"pre": PRE, "body": [("store", "A", [[1, 1]], "+", ["Seen"], False, False)]},
     infl("Store", src="inbox", set_=[[1, 1]], flags=["Seen"], mode="+"), {}),
    ("store_existing_minus", BASE, {"pre": PRE + [("store", "A", [[2, 2]], "+", ["Seen"], False, False)],
                                    "body": [("store", "A", [[1, 1]], "-", ["Seen"], False, False)]},
     infl("Store", src="inbox", set_=[[1, 1]], flags=["Seen"], mode="-"), {}),
    # a sequence that existed, became empty (its row is deleted) and gets exactly the same members again
    ("store_off_on", BASE, {"pre": PRE + [("store", "A", [[2, 2]], "+", ["Draft"], False, False),
                                           ("store", "A", [[2, 2]], "-", ["Draft"], False, False)],
                            "body": [("store", "A", [[2, 2]], "+", ["Draft"], False, False)]},
     infl("Store", src="inbox", set_=[[2, 2]], flags=["Draft"], mode="+"), {}),
    ("fetch_body", BASE, {"pre": PRE, "body": [("fetchbody", "A", [[2, 3]], False)]}, infl("Fetch", src="inbox", set_=[[2, 3]]), {}),
    ("copy", BASE, {"pre": PRE, "body": [("copy", "A", [[1, 3]], "b", False)]}, infl("Copy", src="inbox", dst="b", set_=[[1, 3]]), {}),
    ("move", BASE, {"pre": PRE, "body": [("move", "A", [[1, 1], [3, 3]], "b", True)]},
     infl("Move", src="inbox", dst="b", uid=True, set_=[[1, 1], [3, 3]]), {}),
    ("close", BASE, {"pre": PRE, "body": [("close", "A")]}, infl("Close", src="inbox"), {}),
    ("deliver_poll", BASE, {"pre": PRE + [("deliver", "inbox", 2, True, True)], "body": [("poll",)]}, infl("Poll"), {}),
    ("pack", BASE + [("append", "A", "inbox", [], 0), ("append", "A", "inbox", [], 0)],
     {"pre": PRE + [("store", "A", [[1, 1], [4, 4]], "+", ["Deleted"], False, False), ("expunge", "A")],
      "body": [("poll",), ("poll",)]}, infl("Poll"), {"pack_limit": 2, "pack_ratio": 0.8}),
    ("after_pack", BASE + [("append", "A", "inbox", [], 0), ("append", "A", "inbox", [], 0)],
     {"pre": PRE + [("store", "A", [[1, 1], [4, 4]], "+", ["Deleted"], False, False), ("expunge", "A"), ("poll",), ("poll",)],
      "body": [("store", "A", [[1, 1]], "+", ["Answered"], False, False)]},
     infl("Store", src="inbox", set_=[[1, 1]], flags=["Answered"], mode="+"), {"pack_limit": 2, "pack_ratio": 0.8}),
    ("rename", BASE, {"pre": PRE, "body": [("rename", "A", "b", "c/d")]}, infl("Rename", src="b", dst="c/d"), {}),
    ("delete", BASE, {"pre": PRE, "body": [("delete", "A", "b")]}, infl("Delete", src="b"), {}),
    ("create", BASE, {"pre": PRE, "body": [("create", "A", "x/y")]}, infl("Create", dst="x/y"), {}),
    ("first_start", [], {"startup": True, "pre": [], "body": []}, infl("Start"), {}),
    # orderly stop, database taken back to the previous release's schema, start (migrations run)
    ("upgrade_from_v4", BASE, {"upgrade": "plain", "pre": [], "body": []}, infl("Start"), {}),
    ("upgrade_from_v4_after_delivery", BASE, {"upgrade": "deliver", "pre": [], "body": []}, infl("Start"), {}),
    ("upgrade_from_v4_gappy", GAPPY, {"upgrade": "deliver", "pre": [], "body": []}, infl("Start"), {}),
]
THOROUGH_EXTRA = [
    ("expunge_many", GAPPY + [("store", "A", [[1, S]], "+", ["Deleted"], False, False)],
     {"pre": PRE, "body": [("expunge", "A")]}, infl("Expunge", src="inbox"), {}),
    ("move_all_back", BASE, {"pre": [("open", "A"), ("select", "A", "b")], "body": [("move", "A", [[1, S]], "inbox", False)]},
     infl("Move", src="b", dst="inbox", set_=[[1, S]]), {}),
    ("store_replace", BASE, {"pre": PRE, "body": [("store", "A", [[1, 3]], "=", ["Seen", "Draft"], True, True)]},
     infl("Store", src="inbox", uid=True, set_=[[1, 3]], flags=["Seen", "Draft"], mode="="), {}),
    ("subscribe", BASE, {"pre": PRE, "body": [("subscribe", "A", "b")]}, infl("Subscribe", dst="b"), {}),
    ("rename_inbox", BASE, {"pre": PRE, "body": [("rename", "A", "inbox", "old")]}, infl("Rename", src="inbox", dst="old"), {}),
]

def _run(job):
    from harness import crashdriver
    name, prefix, step, inf, wkw, ks = job
    try:
        if step.get("upgrade"):
            if not ks:
                return name, [], 1, None
            exps, n = crashdriver.upgrade_experiments(prefix, world_kw=wkw, deliver=step["upgrade"] == "deliver")
            return name, exps, n, None
        exps, n = crashdriver.crash_experiments(prefix, step, world_kw=wkw, ks=ks)
        return name, exps, n, None
    except BaseException:
        import traceback
        return name, None, 0, traceback.format_exc()[-1500:]

def to_record(name, e, inf):
    acked_step = any(a["k"] == "tagged" and a["status"] == "OK" for a in e["acks"]) or \
        any(a["k"] == "completed" for a in e["acks"])
    pre = [a for a in e["acks"] if a["k"] == "prestate"]
    base = e["completed"] if acked_step and e.get("completed") else \
        (pre[-1]["state"] if pre else e["ledger0"]["acked"])
    ack, unn = {}, {}
    for m, st in base.items():
        keys = {x[0] for x in st["msgs"]}
        ack[m] = {"vv": st["vv"], "next": st["next"], "sel": bool(st["active"] and not st["nosel"]),
                  "msgs": [[u, i, fl] for k, u, i, fl in st["msgs"]]}
        unn[m] = sorted({i for k, i in st["files"] if k not in keys} | set(e.get("delivered", {}).get(m, [])))
    revealed = [r for r in e["ledger0"]["revealed"]]
    obs = {"started": bool(e["obs"].get("started")) and not e["obs"].get("error"), "mb": {}}
    for m, o in e["obs"].get("mb", {}).items():
        obs["mb"][m] = {"status": o["status"], "vv": o["told"]["vv"], "next": o["told"]["next"],
                        "msgs": [[u, i, fl] for u, i, fl in o["fetched"]]}
    if not obs["mb"]:
        obs["mb"] = {"_": {"status": "NONE", "vv": 0, "next": 0, "msgs": []}}
    if not ack:
        ack = {"_": {"vv": 0, "next": 0, "sel": False, "msgs": []}}
        unn = {"_": []}
    inf2 = dict(inf) if not acked_step else dict(inf, kind="")
    return {"name": name, "k": e["k"], "point": e["point"][0], "ctx": e.get("ctx", ""), "ack": ack, "unnoticed": unn, "infl": inf2,
            "revealed": revealed, "obs": obs, "obs_error": e["obs"].get("error", "")[-300:]}

def fn(ck, a):
    thorough = ck.tier == "thorough"
    hist = HISTORIES + (THOROUGH_EXTRA if thorough else [])
    tmp = tempfile.mkdtemp(prefix="verif-c11-")
    try:
        # the property layer's own sanity (OracleSane is ASSUMEd by TraceDurable) is evaluated with the traces
        # 0. the design: micro-step model of persistence with Crash between any two steps
        DUR = ("SPECIFICATION Spec\nCONSTANTS\n  MaxId = {n}\n  Cmds = {cmds}\n  MaxCrashes = {cr}\n"
               "INVARIANT AckedPresent\nINVARIANT AckedFlagsPersist\nINVARIANT NoRebind\n"
               "INVARIANT NextAboveRevealed\nINVARIANT Consistent\nCHECK_DEADLOCK FALSE\n")
        r0 = tlc.run("Durable", DUR.format(n=4 if thorough else 3, cmds='{"Append", "Store", "Expunge"}', cr=2),
                     workers=16, timeout=3000)
        ck.add_tlc("Durable:append-store-expunge", r0)
        if r0.violated:
            ck.violation("C11.ModelViolatesProperty", act="model", detail=f"Durable.tla: {r0.violated}",
                         replay_obj={"tlc": r0.out[-6000:]})
        elif r0.rc != 0:
            raise RuntimeError(f"TLC failed on Durable: {r0.error}")
        r1 = tlc.run("Durable", DUR.format(n=3, cmds='{"Append", "Store", "Expunge", "Pack"}', cr=1), workers=16, timeout=3000)
        ck.cov["model_reproduces_open_finding_pack"] = bool(r1.violated)
        # pass 1: learn the number of crash points of every history; pass 2: the kills, in chunks
        jobs = [(name, prefix, step, inf, wkw, []) for name, prefix, step, inf, wkw in hist]
        with mp.get_context("fork").Pool(min(14, len(jobs))) as pool:
            counts = pool.map(_run, jobs, chunksize=1)
        jobs = []
        byname = {h[0]: h for h in hist}
        for name, _, n, err in counts:
            if err:
                raise RuntimeError(f"crash harness failed for {name}: {err}")
            ks = list(range(1, n + 2))      # n + 1: power off right after the last acknowledgement
            if not thorough and n > 90:       # quick: every third point of very long steps (first start-up)
                ks = ks[ck.seed % 3::3]
            h = byname[name]
            for c in range(0, len(ks), 12):
                jobs.append((name, h[1], h[2], h[3], h[4], ks[c:c + 12]))
        with mp.get_context("fork").Pool(14) as pool:
            parts = pool.map(_run, jobs, chunksize=1)
        merged = {}
        for name, exps, n, err in parts:
            if err:
                raise RuntimeError(f"crash harness failed for {name}: {err}")
            merged.setdefault(name, [[], n])
            merged[name][0] += exps
        results = [(name, v[0], v[1], None) for name, v in merged.items()]
        recs = []
        infs = {h[0]: h[3] for h in hist}
        npoints = {}
        for name, exps, n, err in results:
            if err:
                raise RuntimeError(f"crash harness failed for {name}: {err}")
            npoints[name] = n
            for e in exps:
                if not e["killed"] and not e.get("end"):
                    continue      # the point was not reached in this run (fewer points than counted)
                recs.append(to_record(name, e, infs[name]))
                ck.note_case((name, e["point"][0], e["obs"].get("started")))
        p = os.path.join(tmp, "exps.json")
        json.dump(recs, open(p, "w"))
        r = tlc.run("TraceDurable", "SPECIFICATION Spec\nCHECK_DEADLOCK FALSE\n", env={"TRACE_FILE": p}, workers=1, timeout=3000)
        if r.rc != 0:
            raise RuntimeError(f"TraceDurable failed: {r.error}")
        ck.add_tlc("TraceDurable", r, exhaustive=True)
        done = {x[1] for x in r.prints if x[0] == "DONE"}
        if len(done) != len(recs):
            raise RuntimeError(f"validated {len(done)} of {len(recs)} experiments")
        ck.cov["traces_validated_against_impl"] = len(recs)
        ck.cov["evaluations"] = len(recs)
        ck.cov["crash_points_per_history"] = npoints
        ck.cov["exhaustive"] = True
        ck.cov["rule"] = ("cases = (history, crash point) pairs: for each representative history the server process is killed "
                          "(os._exit, no cleanup) before and after every SQL statement/commit and every folder mutation "
                          "(message add/remove, .mh_sequences rewrite, pack renames, rename, utime, rmtree) of the step under "
                          "test, restarted on the same directory, and every mailbox is selected and fetched; all points of the "
                          "step are enumerated; distinct non-trivial = distinct (history, kind of crash point, restarted)")
        ck.sample({"history": recs[0]["name"], "k": recs[0]["k"], "point": recs[0]["point"],
                   "obs": {m: v["msgs"] for m, v in recs[0]["obs"]["mb"].items()}} if recs else {})
        for x in r.prints:
            if x[0] == "VIOL":
                rec = recs[x[1] - 1]
                ck.violation(x[4], act=(rec["name"] + "@" + (rec["ctx"] or rec["point"])), where=f"{rec['name']} k={rec['k']} ({rec['point']})",
                             detail=json.dumps({"ack": {m: v["msgs"] for m, v in rec["ack"].items() if v["msgs"]},
                                                "obs": {m: [v["status"], v["next"], v["msgs"]] for m, v in rec["obs"]["mb"].items() if v["msgs"] or v["status"] != "OK"},
                                                "err": rec["obs_error"][-150:]})[:500],
                             replay_obj=rec)
        ck.assumptions += ["process kill, not power loss: the OS page cache survives; SQLite's own journal correctness is trusted",
                           "aiosqlite replaced by an in-thread sqlite3 shim (same transaction semantics), so SQL steps are "
                           "sequentially ordered with the folder mutations",
                           "after a crash, abandoning old UIDs for fresh larger ones under the same UIDVALIDITY is accepted "
                           "(it rebinds nothing)"]
        ck.cov["trusted_base"] = ["TLC", "harness/crashdriver.py (fork + os._exit at numbered points, ledger of acknowledgements)",
                                  "harness/world.py"]
    finally:
        shutil.rmtree(tmp, ignore_errors=True)

if __name__ == "__main__":
    lib.main(fn, "C11")
