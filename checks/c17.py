"""C17 -- the mailbox list follows CREATE/DELETE/RENAME/SUBSCRIBE history."""
import os, sys
sys.path.insert(0, os.path.dirname(os.path.dirname(os.path.abspath(__file__))))
from checks import lib, nsfam

def fn(ck, a):
    if ck.tier == "thorough":
        nsfam.run(ck, ["C17."], ns_ops=5, sim=(1500, 16), probes_n=0, probe_sample=None, cover=("LastView", 4))
    else:
        nsfam.run(ck, ["C17."], ns_ops=4, sim=(80, 14), probes_n=0, probe_sample=None, cover=("ActView", 3))
    ck.cov["rule"] = ("cases = namespace commands and LIST/LSUB probes executed on the real server along TLC-simulated histories "
                      "of spec/Namespace.tla and directed histories; every step validated by TLC against spec/NsProps.tla; "
                      "distinct non-trivial = distinct (command, outcome, pattern, reference, listed-anything)")
    ck.cov["rule"] += ("; plus one replayed history per accepted transition of the model's quotient graph "
                       "(spec/NamespaceCover.tla: VIEW = tree + last command, shortest history to every view state)")
    ck.cov["exhaustive"] = True
    ck.assumptions += ["tree = rows of the mailbox table (what LIST reads) and directories on disk, both projected after every step",
                       "only \\Noselect, \\HasChildren/\\HasNoChildren and presence are compared; line order and other attributes ignored"]

if __name__ == "__main__":
    lib.main(fn, "C17")
