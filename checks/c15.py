"""C15 -- a message set denotes the same messages in every command.

  1. TLC checks the laws of the reference denotation (spec/SeqSet.tla) on every
     case of the enumerated space (spec/SeqSetLaws.tla: one state per
     <<mode, mailbox, set>>) and writes that space out (spec -> code);
  2. every enumerated case is given to the pieces of asimap that interpret a
     sequence set, called directly on a real Mailbox (layer 1), and the covering
     subset is sent through complete commands on the wire (layer 2)
     (harness/seqset.py); seeded random mailboxes/sets beyond the bounds are
     added;
  3. TLC validates everything the code returned/touched against the reference
     (code -> spec, spec/SeqSetTrace.tla).  Verdicts are TLC's.
"""
import json
import multiprocessing as mp
import os
import random
import shutil
import sys
import tempfile
import time
from concurrent.futures import ThreadPoolExecutor

sys.path.insert(0, os.path.dirname(os.path.dirname(os.path.abspath(__file__))))
from checks import lib  # noqa: E402
from harness import tlc  # noqa: E402

LAWS = ["TypeOK", "LawSwap", "LawStar", "LawOpenRange", "LawDup", "LawOrder", "LawUnion",
        "LawUidSkips", "LawRejected", "LawSeq", "LawSearchLower", "LawVerdict"]

QUICK = dict(consts=dict(MaxN=5, SparseN=5, Full3N=0, Bnd3N=2, Bnd3SparseN=0, Cover2N="{0, 2, 5}"),
             l1_chunk=3000, l2_chunk=260, destructive_every=5,
             random_groups=8, random_sets=120, random_maxn=12, tlc_timeout=600)
THOROUGH = dict(consts=dict(MaxN=5, SparseN=5, Full3N=3, Bnd3N=5, Bnd3SparseN=5, Cover2N="{0, 1, 2, 3, 4, 5}"),
                l1_chunk=6000, l2_chunk=130, destructive_every=1,
                random_groups=120, random_sets=400, random_maxn=16, tlc_timeout=3000)


def laws_cfg(consts, spec="Spec"):
    return (f"SPECIFICATION {spec}\nCONSTANTS\n"
            + "".join(f"  {k} = {v}\n" for k, v in consts.items())
            + "INVARIANT " + " ".join(LAWS) + "\nCHECK_DEADLOCK FALSE\n")


# ---------------------------------------------------------------------------
def _seq(x):
    """TLC writes an empty sequence as an empty JSON object."""
    return list(x) if x else []


def load_groups(path):
    with open(path) as f:
        raw = json.load(f)
    out = []
    for g in raw:
        out.append({"mode": g["mode"], "kind": g["kind"], "n": g["n"], "uids": _seq(g["uids"]),
                    "sets": [[list(e) for e in s] for s in g["sets"]],
                    "cover": [[list(e) for e in s] for s in g["cover"]]})
    return out


def random_groups(seed, count, nsets, maxn):
    """Mailboxes and sets beyond the enumerated bounds (validated the same way)."""
    rng = random.Random(1000003 * seed + 15)
    out = []
    for k in range(count):
        n = rng.randint(6, maxn)
        table = sorted(rng.sample(range(1, 2 * n + 3), n))
        mode = "uid" if k % 2 else "seq"
        top = table[-1] if mode == "uid" else n
        inside = table if mode == "uid" else list(range(1, n + 1))
        pool = [0, 1, top, top + 1, top + 2, -1, -1] + inside + \
            [x for x in range(1, top + 1) if x not in inside][:6]

        def elem():
            if rng.random() < 0.45:
                return [rng.choice(pool)]
            return [rng.choice(pool), rng.choice(pool)]

        sets = []
        for _ in range(nsets):
            if mode == "seq" and rng.random() < 0.6:
                # mostly valid sets, else nearly everything is just refused
                good = [x for x in pool if x == -1 or 1 <= x <= n]
                sets.append([[rng.choice(good)] if rng.random() < 0.4
                             else [rng.choice(good), rng.choice(good)]
                             for _ in range(rng.randint(1, 5))])
            else:
                sets.append([elem() for _ in range(rng.randint(1, 5))])
        out.append({"mode": mode, "kind": "random", "n": n, "uids": table, "sets": sets,
                    "cover": sets})
    return out


def _job(job):
    from harness import seqset

    if os.path.isdir("/dev/shm") and os.access("/dev/shm", os.W_OK):
        tempfile.tempdir = "/dev/shm"
    try:
        t0 = time.time()
        r = seqset.run_job(job)
        r["wall"] = round(time.time() - t0, 2)
        return r
    except BaseException:  # noqa
        import traceback
        return {"gid": job["gid"], "error": traceback.format_exc()[-1500:]}


def plan(groups, P, first_gid=1):
    jobs = []
    gid = first_gid
    for gi, g in enumerate(groups):
        # behind the last message two more have existed, except on the dense tables
        tail = 0 if g["kind"] == "dense" else 2
        grp = {"mode": g["mode"], "uids": g["uids"], "cover": g["cover"], "tail": tail}
        sets = g["sets"]
        for a in range(0, len(sets), P["l1_chunk"]):
            part = sets[a:a + P["l1_chunk"]]
            jobs.append({"layer": 1, "gid": gid, "group": grp, "cases": part, "gi": gi,
                         "cost": len(part) * 0.5 + 3.0 * min(len(part), len(g["cover"]))})
            gid += 1
        cov = g["cover"]
        for a in range(0, len(cov), P["l2_chunk"]):
            part = cov[a:a + P["l2_chunk"]]
            des = part[::P["destructive_every"]]
            jobs.append({"layer": 2, "gid": gid,
                         "group": {"mode": g["mode"], "uids": g["uids"], "tail": tail},
                         "cases": part, "destructive": des, "gi": gi,
                         "cost": len(part) * 8.0 + len(des) * 25.0})
            gid += 1
    return jobs


def op_class(op):
    """FETCH / STORE / COPY / MOVE / EXPUNGE / Search (all four SEARCH forms and
    Mailbox.search) / the name of a function called directly."""
    words = [w for w in op.split() if w != "UID"]
    name = words[0] if words else op
    return "Search" if name in ("SEARCH", "Mailbox.search") else name


def run_laws(P, out):
    t0 = time.time()
    r = tlc.run("SeqSetLaws", laws_cfg(P["consts"]), env={"C15_CASES_OUT": out},
                workers=10, timeout=P["tlc_timeout"])
    return r, round(time.time() - t0, 1)


def check_laws(ck, P, groups, cases, laws):
    r, wall = laws.result()
    ck.add_tlc("laws:" + ",".join(f"{k}={v}" for k, v in P["consts"].items()), r)
    if r.violated:
        ck.violation("C15.LawOfDenotation", act="model", where=r.violated,
                     detail=f"TLC: {r.violated} violated by the reference denotation",
                     replay_obj={"tlc_out": r.out[-6000:]})
        return wall
    if r.rc != 0:
        raise RuntimeError(f"TLC failed on SeqSetLaws: {r.error}")
    ncases = sum(len(g["sets"]) for g in groups)
    expect = len(groups) + ncases + sum(1 for g in groups for s in g["sets"] if len(s) == 1)
    if r.distinct != expect or not r.complete:
        raise RuntimeError(f"TLC explored {r.distinct} states, the emitted space needs {expect}")
    with open(cases, "rb") as f1, open(cases.replace("cases.json", "cases_again.json"), "rb") as f2:
        if f1.read() != f2.read():
            raise RuntimeError("the laws run enumerated another space than the one given to the code")
    ck.cov["exhaustive"] = True
    ck.cov["enumerated_cases"] = ncases
    ck.cov["groups"] = [f"{g['mode']}:{g['kind']}:N={g['n']}:uids={g['uids']}:"
                        f"{len(g['sets'])} sets/{len(g['cover'])} through commands"
                        for g in groups]
    return wall


def _validate(path):
    r = tlc.run("SeqSetTrace", "SPECIFICATION Spec\nCHECK_DEADLOCK FALSE\n",
                env={"C15_RESULTS": path}, workers=1, timeout=3000)
    return {"rc": r.rc, "error": r.error if r.rc != 0 else None, "prints": r.prints,
            "generated": r.generated, "distinct": r.distinct, "wall": r.wall, "cmd": r.cmd}


def validate(results, tmp, files=12):
    """results: list of result groups; returns (viols, done, tlc_states, errors)."""
    results = sorted(results, key=lambda r: -len(r["cases"]))
    bins = [[] for _ in range(max(1, min(files, len(results))))]
    load = [0] * len(bins)
    for r in results:
        k = load.index(min(load))
        bins[k].append(r)
        load[k] += len(r["cases"]) + 50
    paths = []
    for k, b in enumerate(bins):
        if not b:
            continue
        p = os.path.join(tmp, f"results_{k}.json")
        with open(p, "w") as f:
            json.dump(b, f)
        paths.append(p)
    with mp.get_context("fork").Pool(len(paths)) as pool:
        res = pool.map(_validate, paths)
    viols, done, states, errs, cmd = [], {}, 0, [], ""
    for r in res:
        if r["rc"] != 0:
            errs.append(r["error"] or "TLC failed")
        states += r["distinct"]
        cmd = cmd or r["cmd"]
        for p in r["prints"]:
            if p and p[0] == "VIOL":
                viols.append((p[1], p[2], p[3], p[4]))
            elif p and p[0] == "DONE":
                done[p[1]] = p[2]
    return viols, done, states, errs, cmd


# ---------------------------------------------------------------------------
def fn(ck, a):
    from harness import seqset

    P = THOROUGH if ck.tier == "thorough" else QUICK
    tmp = tempfile.mkdtemp(prefix="verif-c15-")
    phase = {}
    laws = None
    try:
        if a.replay:
            with open(a.replay) as f:
                rp = json.load(f)
            groups, jobs = [], [dict(rp["job"], gid=1)]
        else:
            # 1. the case space is emitted by TLC (spec -> code) ...
            cases = os.path.join(tmp, "cases.json")
            t0 = time.time()
            r = tlc.run("SeqSetLaws", laws_cfg(P["consts"], "SpecEmit"),
                        env={"C15_CASES_OUT": cases}, workers=1, timeout=P["tlc_timeout"])
            if r.rc != 0:
                raise RuntimeError(f"TLC failed on SeqSetLaws (emission): {r.error}")
            groups = load_groups(cases)
            phase["emit"] = round(time.time() - t0, 1)
            # ... and, while the implementation is being run, TLC checks the laws
            # of the denotation on every case of that space (one state per case)
            pool1 = ThreadPoolExecutor(1)
            laws = pool1.submit(run_laws, P, os.path.join(tmp, "cases_again.json"))
            # 2. run the implementation on every case
            jobs = plan(groups, P)
            rnd = random_groups(ck.seed, P["random_groups"], P["random_sets"], P["random_maxn"])
            jobs += plan(rnd, dict(P, l2_chunk=P["random_sets"]), first_gid=len(jobs) + 1)
            ck.cov["random_cases_beyond_bounds"] = sum(len(g["sets"]) for g in rnd)
        for j in jobs:
            j["seed"] = ck.seed
        order = sorted(jobs, key=lambda j: -j.get("cost", 0))
        t0 = time.time()
        with mp.get_context("fork").Pool(14) as pool:
            results = pool.map(_job, order, chunksize=1)
        phase["implementation"] = round(time.time() - t0, 1)
        if os.environ.get("C15_DEBUG"):
            for x in sorted(results, key=lambda x: -x.get("wall", 0))[:25]:
                j = [j for j in jobs if j["gid"] == x["gid"]][0]
                print("job", x["gid"], "layer", j["layer"], j["group"]["mode"], j["group"]["uids"],
                      len(j["cases"]), len(j.get("destructive", [])), "cost", j["cost"], "wall", x.get("wall"))
            print("sum wall", sum(x.get("wall", 0) for x in results))
        if laws is not None:
            phase["laws(concurrent)"] = check_laws(ck, P, groups, cases, laws)
            if ck.violations:
                return
        byid = {j["gid"]: j for j in jobs}
        failed = [x for x in results if x.get("error")]
        results = [x for x in results if not x.get("error")]
        # 3. TLC validates what the code did
        t0 = time.time()
        viols, done, states, errs, cmd = validate(results, tmp) if results else ([], {}, 0, [], "")
        phase["validation"] = round(time.time() - t0, 1)
        ck.cov["phase_wall_s"] = phase
        if errs:
            raise RuntimeError("TLC validation failed: " + errs[0][:800])
        for x in results:
            if done.get(x["gid"]) != len(x["cases"]):
                raise RuntimeError(f"result group {x['gid']} not consumed completely")
        ck.cov["states"] += states
        ck.cov["tlc_runs"].append({"name": "validate:SeqSetTrace", "distinct": states,
                                   "generated": states, "complete": True, "cmd": cmd})
        ck.cov["traces_validated_against_impl"] = sum(len(x["cases"]) for x in results)
        nops = 0
        from collections import Counter
        cnt = Counter()
        for x in results:
            for c in x["cases"]:
                nops += len(c["ops"]) + (1 if "pst" in c else 0)
                for op in c["ops"]:
                    cnt[f"L{x['layer']}:{op[0]}:{op[3]}"] += 1
                    ck.note_case((x["layer"], op[0], op[1], len(x["uids"]), op[3],
                                  tuple(len(g[2]) for g in op[4]), len(c["set"])))
        ck.cov["evaluations"] = nops
        ck.cov["impl_op_counts"] = dict(sorted(cnt.items()))
        ck.cov["rule"] = ("cases = <<mode, mailbox, set text>> triples given to the implementation "
                          "(all enumerated by TLC, plus seeded random ones beyond the bounds); "
                          "evaluations = interpreter calls / complete commands executed on them; "
                          "distinct non-trivial = distinct (layer, operation, mode, mailbox size, "
                          "outcome, sizes of the result sets, set length) tuples")
        if results:
            ck.sample({"layer": results[0]["layer"], "uids": results[0]["uids"],
                       "case": results[0]["cases"][0]})
            l2 = [x for x in results if x["layer"] == 2]
            if l2:
                ck.sample({"layer": 2, "case": l2[0]["cases"][min(3, len(l2[0]["cases"]) - 1)]})
        # report: per clause the smallest failing inputs
        res_by = {x["gid"]: x for x in results}
        per = {}
        for gid, idx, op, what in viols:
            x = res_by[gid]
            c = x["cases"][idx - 1]
            clause = f"C15.{op_class(op)}.{what}"
            size = (any(0 in e for e in c["set"]), len(c["set"]), sum(len(e) for e in c["set"]),
                    len(c.get("uids", x["uids"])), seqset.render(c["set"]))
            per.setdefault((clause, op), []).append((size, gid, idx, op))
        for (clause, _), lst in sorted(per.items()):
            lst.sort()
            for size, gid, idx, op in lst[:2]:
                x = res_by[gid]
                c = x["cases"][idx - 1]
                uids = c.get("uids", x["uids"])
                this = [o for o in c["ops"] if o[0] == op]
                job = byid[gid]
                ck.violation(
                    clause, act=op,
                    where=f"layer{x['layer']} {x['mode']} uids={uids} set={seqset.render(c['set'])}",
                    detail=f"({len(lst)} cases) " + json.dumps(this[0][3:] if this else
                                                               [c.get('pst'), c.get('parsed')]),
                    replay_obj={"clause": clause, "set_text": seqset.render(c["set"]),
                                "uids_before": uids, "observed": this or [c.get("pst"), c.get("parsed")],
                                "n_cases_failing_this_clause_in_this_operation": len(lst),
                                "job": {"layer": job["layer"], "group": dict(job["group"], cover=[c["set"]]),
                                        "cases": [c["set"]],
                                        "destructive": [c["set"]] if job["layer"] == 2 else []}})
        if failed:
            msg = f"harness job {failed[0]['gid']} failed: {failed[0]['error']}"
            if not ck.violations and not ck.known_hits:
                raise RuntimeError(msg)
            ck.cov["harness_jobs_failed"] = [f["error"][-300:] for f in failed[:5]]
        ck.assumptions += [
            "user server run in-process on a deterministic virtual-time loop (harness/world.py); "
            "aiosqlite replaced by an in-thread sqlite3 shim",
            "layer 1 calls the interpreters on the live Mailbox object of that server with what the "
            "real parser produced; mailboxes with a given UID table are built by an external MH agent "
            "plus plain EXPUNGE (no sequence-set code), \\Deleted marks for UID EXPUNGE by single-UID STOREs",
            "UID reading: the number 0 (not an nz-number) may be refused with BAD instead of being skipped",
            "a SEARCH message-set key with a number outside 1..N may be refused or match nothing for "
            "that element (property text); every other command must answer BAD and touch nothing",
            "exhaustive part bounded by the constants of the laws run (tlc_runs[0]); the random part "
            "is not exhaustive",
        ]
        ck.cov["trusted_base"] = ["TLC", "harness/seqset.py recording (UIDs from FETCH/SEARCH/COPYUID "
                                  "responses, server memory for flags/uids, message ids of files)",
                                  "harness/wire.py response reader"]
    finally:
        shutil.rmtree(tmp, ignore_errors=True)


if __name__ == "__main__":
    lib.main(fn, "C15")
