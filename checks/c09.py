"""C09 -- mailbox names cannot reach outside the user's mail directory."""
import os, sys
sys.path.insert(0, os.path.dirname(os.path.dirname(os.path.abspath(__file__))))
from checks import lib, nsfam

def fn(ck, a):
    if ck.tier == "thorough":
        nsfam.run(ck, ["C09."], ns_ops=0, sim=None, probes_n=4, probe_sample=None)
    else:
        nsfam.run(ck, ["C09."], ns_ops=0, sim=None, probes_n=3, probe_sample=9000)
    ck.cov["rule"] = ("cases = (mailbox name, command slot, encoding) probes: TLC enumerates every name of <= MaxComps components "
                      "over {a, b, .., ., empty} with 0..2 leading slashes (spec/NsProbes.tla) and classifies it with "
                      "NsProps.Escapes; each is sent in 15 command slots x 3 encodings to the real server running in a jail "
                      "with a decoy neighbour; after each probe everything outside the mail directory is compared with a "
                      "snapshot; TLC validates refusal / confinement / no leak (spec/TraceNs.tla)")
    ck.cov["exhaustive"] = ck.tier == "thorough"
    ck.assumptions += ["a name is resolved like a path in a chroot at the mail directory (normpath, one leading '/' ignored): "
                       "names that still lead outside must be refused; for every probe, escaping or not, nothing outside may change or leak"]

if __name__ == "__main__":
    lib.main(fn, "C09")
