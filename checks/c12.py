"""C12 -- an orderly restart changes nothing a client can see."""
import os, sys
sys.path.insert(0, os.path.dirname(os.path.dirname(os.path.abspath(__file__))))
from checks import lib, mailfam

ACTS = ["Deliver", "Select", "Noop", "Idle", "Store", "Fetch", "Expunge", "Append"]
ALL = ACTS + ["Copy", "Move"]
QUICK = {
    "exhaustive": [("1sess-2mbox-3msgs-depth6", dict(depth=6, maxid=3, sess=("A",), mbox=("inbox", "b"), acts=ALL + ["Restart"]))],
    "simulate": [("2mbox-restart", dict(mbox=("inbox", "b"), maxid=6, maxpend=6, sets="SetsMedium", acts=ALL + ["Restart"]), 40, 24)],
    "random": 110,
    "gen": dict(length=30, weights={"restart": 10, "append": 10, "deliver": 8, "expunge": 8, "store": 12, "copy": 5,
                                    "move": 5, "create": 4, "delete": 3, "rename": 3, "subscribe": 5, "poll": 6,
                                    "search": 0, "idle": 1, "done": 1, "fetch": 2, "fetchbody": 2},
                prefill=[0, 0, 7, 9], world=dict(pack_limit=3, pack_ratio=0.75)),
   }
THOROUGH = {
    "exhaustive": [("1sess-2mbox-4msgs-depth7", dict(depth=7, maxid=4, sess=("A",), mbox=("inbox", "b"), acts=ALL + ["Restart"]))],
    "simulate": [("2mbox-restart", dict(mbox=("inbox", "b"), maxid=8, maxpend=8, sets="SetsMedium", acts=ALL + ["Restart"]), 700, 30)],
    "random": 1000,
    "gen": dict(length=45, weights={"restart": 10, "append": 10, "deliver": 8, "expunge": 8, "store": 12, "copy": 5,
                                    "move": 5, "create": 4, "delete": 3, "rename": 3, "subscribe": 5, "poll": 6,
                                    "search": 0, "idle": 1, "done": 1, "fetch": 2, "fetchbody": 2},
                prefill=[0, 0, 7, 9], world=dict(pack_limit=3, pack_ratio=0.75)),
    "tlc_timeout": 1500,
   }

def fn(ck, a):
    mailfam.run_family(ck, ["C12."], model_prop="P_C12", quick=QUICK, thorough=THOROUGH)

if __name__ == "__main__":
    lib.main(fn, "C12")
