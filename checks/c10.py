"""C10 -- concurrent sessions behave like some sequential order and never deadlock."""
import json, os, sys, tempfile, shutil
import multiprocessing as mp
sys.path.insert(0, os.path.dirname(os.path.dirname(os.path.abspath(__file__))))
from checks import lib
from checks.c06 import SCENARIOS, SCHED_CFG
from harness import tlc

LIN_CFG = '''SPECIFICATION LSpec
CONSTANTS
  Sess = {sess}
  Mbox = {"inbox", "b"}
  MaxId = 100000
  StoreFlags = {}
  Acts = {"Deliver", "Select", "Noop", "Idle", "Store", "Fetch", "Expunge", "Append", "Copy", "Move", "Search"}
  MaxPend = 100
  Modes = {}
  Silents = {}
  Sets = {}
  MaxDepth = 0
CHECK_DEADLOCK FALSE
'''

def _run(seed):
    from harness import concdriver
    try:
        # every fourth run has a fourth session (timed windows: slow destination, see concdriver copy_late)
        sess = ("A", "B", "C", "D") if seed % 4 == 3 else ("A", "B", "C")
        # every fifth run has a POP3 session that QUITs (removing what it marked) inside the windows
        wins, stats = concdriver.execute(seed, nwin=6, sessions=sess, p_fifo=0.5 if seed % 2 else 0.75,
                                         pop3=(seed % 5 == 2))
        return seed, wins, stats, None
    except BaseException:
        import traceback
        return seed, None, None, traceback.format_exc()[-1500:]

def _lin(job):
    path, nsess = job
    sess = "{" + ", ".join(f'"{x}"' for x in "ABCD"[:nsess]) + "}"
    r = tlc.run("LinStore", LIN_CFG.replace("{sess}", sess), env={"TRACE_FILE": path}, workers=1, timeout=3000)
    return {"rc": r.rc, "err": r.error if r.rc else None, "prints": r.prints, "gen": r.generated,
            "distinct": r.distinct, "cmd": r.cmd}

def fn(ck, a):
    thorough = ck.tier == "thorough"
    tmp = tempfile.mkdtemp(prefix="verif-c10-")
    try:
        # 1. admission protocol: mutual exclusion, no lost wake-up, deadlock freedom, liveness
        for scn in SCENARIOS:
            r = tlc.run("Sched", SCHED_CFG.format(scn=scn), workers=8, timeout=900, deadlock=True)
            ck.add_tlc("Sched:" + scn, r)
            if r.violated:
                ck.violation("C10.ModelViolatesProperty", act="model", where=scn,
                             detail=f"Sched.tla: {r.violated}", replay_obj={"tlc": r.out[-5000:]})
            elif r.rc != 0:
                raise RuntimeError(f"TLC failed on Sched {scn}: {r.error}")
        # 2. concurrent windows under seeded schedules on the real server
        nseeds = 1200 if thorough else 70
        seeds = [ck.seed * 100000 + i for i in range(nseeds)]
        with mp.get_context("fork").Pool(14) as pool:
            res = pool.map(_run, seeds, chunksize=2)
        wins, origin = [], []
        ncmds = nchoices = ndev = 0
        for seed, ws, stats, err in res:
            if err:
                raise RuntimeError(f"harness failure seed {seed}: {err}")
            ncmds += stats["cmds"]
            nchoices += stats.get("choices", 0)
            ndev += stats.get("deviations", 0)
            if stats["deadlock"]:
                ck.violation("C10.NoDeadlock", act="schedule", where=f"seed {seed}",
                             detail="event loop ran out of runnable callbacks and timers",
                             replay_obj={"seed": seed})
            for st in stats["stuck"]:
                ck.violation("C10.EveryCommandCompletes", act=st["cmd"].split()[0], where=f"seed {seed} window {st['window']}",
                             detail=json.dumps(st), replay_obj={"seed": seed, "stuck": st})
            for i, w in enumerate(ws):
                wins.append(w)
                origin.append((seed, i))
                for c in w["cmds"].values():
                    ck.note_case((c["act"], c["uid"], c["status"], len(w["cmds"])))
        # 2b. every admission recorded on the real server against the admission rules (spec/SchedRules.tla)
        sched, sorigin = [], []
        for seed, ws, stats, err in res:
            for r_ in stats.get("sched", []):
                if "error" in r_:
                    raise RuntimeError(f"admission record failed (seed {seed}): {r_['error']}")
                sched.append({k: r_[k] for k in ("k", "peek", "nums", "hasdel", "live", "ans")})
                sorigin.append((seed, r_))
        if sched:
            p = os.path.join(tmp, "sched.json")
            json.dump(sched, open(p, "w"))
            rs = tlc.run("TraceSched", "SPECIFICATION Spec\nCHECK_DEADLOCK FALSE\n", env={"TRACE_FILE": p},
                         workers=1, timeout=3000)
            if rs.rc != 0:
                raise RuntimeError(f"TraceSched failed: {rs.error}")
            if not any(pr and pr[0] == "DONE" and pr[1] == len(sched) for pr in rs.prints):
                raise RuntimeError("TraceSched did not consume every admission record")
            ck.cov["admission_decisions_validated"] = len(sched)
            ck.cov["admission_decisions_with_running_commands"] = sum(1 for x in sched if x["live"])
            ck.cov["admission_decisions_refused"] = sum(1 for x in sched if x["ans"])
            ck.cov["admitted_next_to_command_the_reverse_order_would_exclude"] = sum(1 for pr in rs.prints if pr and pr[0] == "ASYM")
            ck.cov["states"] += rs.distinct
            ck.cov["transitions"] += rs.generated
            for pr in rs.prints:
                if pr and pr[0] == "RULE":
                    seed, r_ = sorigin[pr[1] - 1]
                    ck.model_drift("Admit", "would_conflict", f"seed {seed}: the code answered {r_['ans']} where the transcribed "
                                   "rule (spec/SchedRules.tla ConflictsRec) says the opposite: " + json.dumps(r_)[:220])
        # 2c. every recorded step of the admission protocol against Sched.tla itself (spec/TraceSchedSteps.tla):
        #     Enq / Get / Res / Ready / Wake / Done / Shutdown of every passage through a mailbox's queue
        from harness import schedsteps
        schedsteps.validate(ck, [(seed, stats["steps"]) for seed, ws, stats, err in res if stats.get("steps")], tmp)
        # 3. TLC searches a sequential explanation of every window
        # windows are grouped by their number of sessions (a constant of the specification)
        order = sorted(range(len(wins)), key=lambda i: wins[i].get("nsess", 3))
        wins = [wins[i] for i in order]
        origin = [origin[i] for i in order]
        paths, offs = [], []
        for ns in (3, 4):
            idx = [i for i, w_ in enumerate(wins) if w_.get("nsess", 3) == ns]
            if not idx:
                continue
            nchunk = 9 if ns == 3 else 4
            size = (len(idx) + nchunk - 1) // nchunk
            for k in range(nchunk):
                part = idx[k * size:(k + 1) * size]
                if part:
                    p = os.path.join(tmp, f"w{ns}_{k}.json")
                    json.dump([wins[i] for i in part], open(p, "w"))
                    paths.append((p, ns))
                    offs.append(part[0])
        with mp.get_context("fork").Pool(len(paths)) as pool:
            outs = pool.map(_lin, paths)
        lin = set()
        for off, o in zip(offs, outs):
            if o["rc"] != 0:
                raise RuntimeError(f"LinStore failed: {o['err']}")
            ck.cov["states"] += o["distinct"]
            ck.cov["transitions"] += o["gen"]
            for p in o["prints"]:
                if p[0] == "LIN":
                    lin.add(off + p[1] - 1)
                elif p[0] == "DENOTE":
                    seed, wi = origin[off + p[1] - 1]
                    ad = wins[off + p[1] - 1]["admits"][p[2] - 1]
                    ck.violation("C10.DenotesWhenRun", act="admit", where=f"seed {seed} window {wi}",
                                 detail=json.dumps(ad), replay_obj={"seed": seed, "window": wi, "admit": ad})
        for i, w in enumerate(wins):
            if i not in lin:
                seed, wi = origin[i]
                brief = {k: {x: c[x] for x in ("sess", "act", "uid", "set", "mode", "flags", "mbox", "status", "fetched", "code", "text")}
                         for k, c in w["cmds"].items()}
                ck.violation("C10.Linearizable", act="+".join(sorted(c["act"] for c in w["cmds"].values())),
                             where=f"seed {seed} window {wi}", detail=json.dumps(brief)[:300],
                             replay_obj={"seed": seed, "window": wi, "w": w})
        ck.cov["traces_validated_against_impl"] = len(wins)
        ck.cov["evaluations"] = ncmds
        ck.cov["schedule_choice_points"] = nchoices
        ck.cov["schedule_deviations_from_fifo"] = ndev
        ck.cov["rule"] = ("cases = commands issued concurrently (windows of 2-4 commands from 3-4 IMAP sessions and, in every fifth run, a POP3 "
                          "session that QUITs; start offsets, slow clients and a slow destination in the directed windows; 2 mailboxes) "
                          "on the real server under seeded schedules that permute ready callbacks; every window is "
                          "explained by TLC as a sequential order of spec/MailStore.tla actions (COPY/MOVE optionally in "
                          "their documented steps) or reported; distinct non-trivial = distinct (command, uid-form, "
                          "outcome, window size)")
        if wins:
            w0 = wins[0]
            ck.sample({"window_cmds": {k: {x: c[x] for x in ("sess", "act", "uid", "set", "status")} for k, c in w0["cmds"].items()}})
        ck.assumptions += ["schedules = orders of ready callbacks of a single-threaded virtual-time loop; the database thread and "
                           "the file executor are replaced by deterministic scheduling points (interleavings inside SQLite / the "
                           "kernel are not explored)",
                           "outcomes compared as OK / refused (NO or BAD); FETCH/STORE responses compared by position and flags"]
        ck.cov["trusted_base"] = ["TLC", "spec/MailStore.tla as the sequential meaning of commands", "harness/simloop.py", "harness/world.py"]
    finally:
        shutil.rmtree(tmp, ignore_errors=True)

if __name__ == "__main__":
    lib.main(fn, "C10")
