"""Engine of the namespace checks C17 (mailbox list follows history) and C09 (confinement)."""
import json, os, sys, tempfile, shutil, random
import multiprocessing as mp
sys.path.insert(0, os.path.dirname(os.path.dirname(os.path.abspath(__file__))))
from harness import tlc

NS_CFG = """SPECIFICATION Spec
CONSTANTS
  NameSet <- {names}
  RefSet <- Refs
  PatSet <- Pats
  MaxOps = {ops}
PROPERTY PropertyLayer
INVARIANT TreeOK
INVARIANT MatchLaws
CHECK_DEADLOCK FALSE
"""
PROBE_CFG = 'INIT Init\nNEXT Next\nCONSTANTS\n  Alphabet = {{"a", "b", "..", ".", ""}}\n  MaxComps = {n}\n'

def ch(s):
    return list(s)

def H(*steps):
    out = []
    for st in steps:
        d = {"act": st[0], "name": [], "name2": [], "ref": [], "pat": [], "lsub": False}
        if st[0] in ("ListSel", "ListRet", "ListRec"):   # LIST (SUBSCRIBED) .. / .. RETURN (SUBSCRIBED) / (SUBSCRIBED RECURSIVEMATCH) ..
            d.update(act="List", ref=ch(st[1]), pat=ch(st[2]), pats=[ch(st[2])],
                     sel={"ListSel": "SUBSCRIBED", "ListRec": "SUBSCRIBED RECURSIVEMATCH"}.get(st[0], ""),
                     ret="SUBSCRIBED" if st[0] == "ListRet" else "")
        elif st[0] in ("List", "Lsub"):
            d.update(ref=ch(st[1]), pat=ch(st[2]), pats=[ch(x) for x in st[2:]], lsub=st[0] == "Lsub")
        elif st[0] == "Rename":
            d.update(name=ch(st[1]), name2=ch(st[2]))
        elif st[0] != "Restart":
            d.update(name=ch(st[1]))
        out.append(d)
    return out

DIRECTED = {
    # RFC 5258 multi-pattern LIST over names that share prefixes, suffixes and substrings with the patterns
    "multi_pattern_list": H(
        ("Create", "work"), ("Create", "work/sub"), ("Create", "workshop"), ("Create", "misc/old"), ("Create", "old"),
        ("Create", "cold"), ("Create", "homework"),
        ("List", "", "work", "old"), ("List", "", "old", "work"), ("List", "", "work", "misc", "old"),
        ("List", "", "%", "work/%"), ("List", "", "wor", "ol"), ("List", "misc/", "old", "%"),
        ("Subscribe", "work"), ("Subscribe", "misc/old"), ("Lsub", "", "*"), ("List", "", "work", "old"),
        ("ListSel", "", "*"), ("ListRet", "", "*"), ("ListSel", "", "work*"), ("ListRet", "misc/", "%"),
        ("ListRec", "", "%"), ("ListRec", "", "*"), ("ListRec", "", "misc"), ("Subscribe", "work/sub"), ("ListRec", "", "%"),
        ("ListRec", "", "work*"),
        ("Delete", "misc/old"), ("ListSel", "", "*"), ("ListRet", "", "*"), ("ListRec", "", "%"), ("Unsubscribe", "work"),
        ("ListRet", "", "%"), ("ListRec", "", "%"), ("ListRec", "", "*")),
    # a parent whose only child was renamed away is a leaf again
    "child_renamed_away_then_delete_parent": H(
        ("Create", "top/kid"), ("Rename", "top/kid", "elsewhere"), ("List", "", "*"), ("Delete", "top"), ("List", "", "*"),
        ("Create", "p/q/r"), ("Rename", "p/q", "s"), ("Delete", "p"), ("List", "", "*"), ("Restart",), ("List", "", "*")),
    "rename_beneath_itself_and_missing_superior": H(
        ("Create", "a/c"), ("Rename", "a", "a/b"), ("List", "", "*"), ("Rename", "a/c", "x/y"),
        ("List", "", "*"), ("List", "x/", "%"), ("List", "", "x", "a"), ("List", "", "%", "x/%"),
        ("Rename", "nosuch", "z"), ("Rename", "x", "inbox"),
        ("Rename", "x", "INBOX"), ("List", "", "*")),
    "inbox_in_any_case": H(
        ("Subscribe", "INBOX"), ("Delete", "INBOX"), ("Delete", "inbox"), ("Delete", "InBoX"),
        ("List", "", "INBOX"), ("List", "", "inbox"), ("Lsub", "", "*"), ("Create", "INBOX"),
        ("Rename", "INBOX", "old"), ("List", "", "*")),
    "children_and_placeholders": H(
        ("Create", "a/b/c"), ("List", "", "%"), ("List", "", "%/%"), ("List", "a/", "%"), ("List", "a", "%"),
        ("Delete", "a/b"), ("List", "", "*"), ("Delete", "a/b/c"), ("List", "", "*"), ("Delete", "a/b"),
        ("Restart",), ("List", "", "*"), ("Create", "a/b"), ("List", "a/", "*"), ("Subscribe", "a"),
        ("Delete", "a"), ("Lsub", "", "*"), ("List", "", "*"), ("Unsubscribe", "a"), ("Delete", "a/b"), ("Delete", "a"),
        ("List", "", "*")),
    "odd_names": H(
        ("Create", "a.b"), ("Create", "a b"), ("Create", "ab"), ("Create", "a+b"), ("Create", "x[1]"),
        ("List", "", "a.b"), ("List", "", "a?b"), ("List", "", "a*"), ("List", "", "*b"), ("List", "", "x[1]"),
        ("Rename", "a b", "c d/e f"), ("List", "", "*"), ("List", "c d/", "%"), ("Restart",), ("List", "", "*")),
}

def _run(job):
    from harness import nsdriver
    kind, name, payload, seed = job
    try:
        return name, nsdriver.execute(kind, payload, seed=seed), None
    except BaseException:
        import traceback
        return name, None, traceback.format_exc()[-1500:]

COVER_CFG = """SPECIFICATION CSpec
CONSTANTS
  NameSet <- NamesSmall
  RefSet <- Refs
  PatSet <- Pats
  MaxOps = {ops}
VIEW {view}
PROPERTY Edges
PROPERTY PropertyLayer
CHECK_DEADLOCK FALSE
"""


def run(ck, prefixes, *, ns_ops, sim, probes_n, probe_sample, cover=None):
    """ns_ops: MaxOps for the exhaustive Namespace run; sim: (num, depth) simulated histories (0 = none);
    probes_n: MaxComps of the C09 probe space (0 = none); probe_sample: number of probes to run (None = all)."""
    from harness import mailreplay, nsdriver
    tmp = tempfile.mkdtemp(prefix="verif-ns-")
    try:
        jobs = []
        if ns_ops:
            r = tlc.run("Namespace", NS_CFG.format(names="NamesSmall", ops=ns_ops), workers=16, timeout=1800)
            ck.add_tlc("Namespace:exhaustive", r)
            if r.violated:
                ck.violation(prefixes[0] + "ModelViolatesProperty", act="model", detail=f"Namespace.tla: {r.violated}",
                             replay_obj={"tlc": r.out[-5000:]})
            elif r.rc != 0:
                raise RuntimeError(f"TLC failed on Namespace: {r.error}")
        if sim and sim[0]:
            pre = os.path.join(tmp, "ns")
            r = tlc.run("Namespace", NS_CFG.format(names="NamesA", ops=sim[1]), workers=1, timeout=1800,
                        simulate=f"file={pre},num={sim[0]}", depth=sim[1] + 1, seed=ck.seed + 3)
            ck.add_tlc("Namespace:simulate", r, exhaustive=False)
            if r.violated:
                ck.violation(prefixes[0] + "ModelViolatesProperty", act="model", detail=f"Namespace.tla (simulation): {r.violated}",
                             replay_obj={"tlc": r.out[-5000:]})
            elif r.rc != 0:
                raise RuntimeError(f"TLC simulate failed on Namespace: {r.error}")
            for i, beh in enumerate(mailreplay.load_behaviours(pre)):
                steps = [{k: st["last"][k] for k in ("act", "name", "name2", "ref", "pat", "pats", "lsub", "sel", "ret")} for st in beh[1:]]
                jobs.append(("history", f"sim{i}", steps, ck.seed * 1000 + i))
            for name, steps in DIRECTED.items():
                jobs.append(("history", name, steps, 1))
                # ... and once more with every namespace command naming its (first) mailbox with the one
                # leading "/" the server tolerates: the same mailbox, the same step of the model
                jobs.append(("history", name + "/", [dict(st, alias=True) for st in steps], 1))
        if cover:
            # one implementation test per accepted transition of the model's quotient graph
            view, ops = cover
            r = tlc.run("NamespaceCover", COVER_CFG.format(ops=ops, view=view), workers=1, timeout=1800)
            ck.add_tlc(f"NamespaceCover:{view}:{ops}", r)
            if r.violated:
                ck.violation(prefixes[0] + "ModelViolatesProperty", act="model", detail=f"NamespaceCover.tla: {r.violated}",
                             replay_obj={"tlc": r.out[-5000:]})
            elif r.rc != 0:
                raise RuntimeError(f"TLC failed on NamespaceCover: {r.error}")
            if tlc.PRINT_ERRORS:
                raise RuntimeError(f"unparsed TLC output: {tlc.PRINT_ERRORS[:2]}")
            edges = [p[1] for p in r.prints if p and p[0] == "EDGE"]
            ck.cov["cover_edges"] = len(edges)
            tail = H(("List", "", "*"), ("Lsub", "", "*"))
            for i, hist in enumerate(edges):
                steps = []
                for st in hist:
                    steps.append({"act": st["act"], "name": list(st["name"]), "name2": list(st["name2"]),
                                  "ref": [], "pat": [], "lsub": False})
                jobs.append(("history", f"edge{i}", steps + tail, 1))
                # ... and once more with the transition under test naming its mailbox in the other spelling
                # the server accepts for it (one leading "/")
                if steps and steps[-1]["act"] in ("Create", "Delete", "Rename", "Subscribe", "Unsubscribe"):
                    jobs.append(("history", f"edge{i}/", steps[:-1] + [dict(steps[-1], alias=True)] + tail, 1))
        if probes_n:
            r = tlc.run("NsProbes", PROBE_CFG.format(n=probes_n), workers=1, timeout=600)
            if r.rc != 0:
                raise RuntimeError(f"TLC failed on NsProbes: {r.error}")
            names = [{"slashes": p[1], "comps": p[2]} for p in r.prints if p[0] == "PROBE"]
            ck.cov["probe_names"] = len(names)
            ck.cov["probe_names_escaping"] = sum(1 for p in r.prints if p[0] == "PROBE" and p[3])
            ck.cov["states"] += len(names)
            ck.cov["transitions"] += len(names)
            cases = [(slot, nm, enc) for nm in names for slot in nsdriver.SLOTS for enc in ("atom", "quoted", "literal")]
            rng = random.Random(ck.seed)
            rng.shuffle(cases)
            if probe_sample:
                cases = cases[:probe_sample]
            env = [(slot, nm, enc) for nm in nsdriver.ENV_NAMES for slot in nsdriver.SLOTS
                   for enc in ("atom", "quoted", "literal")]
            ck.cov["probe_env_names"] = len(nsdriver.ENV_NAMES)
            cases += env
            rng.shuffle(cases)
            nchunk = 14
            size = (len(cases) + nchunk - 1) // nchunk
            for k in range(nchunk):
                part = cases[k * size:(k + 1) * size]
                if part:
                    jobs.append(("probes", f"probes{k}", part, ck.seed + k))
        with mp.get_context("fork").Pool(14) as pool:
            results = pool.map(_run, jobs, chunksize=1)
        runs, names_ = [], []
        for name, evs, err in results:
            if err:
                raise RuntimeError(f"harness failure in {name}: {err}")
            runs.append(evs)
            names_.append(name)
            for e in evs:
                ck.note_case((e["act"], e["status"], e["slot"], e["enc"], len(e["listed"]) > 0,
                              "".join(e["pat"]), "".join(e["ref"])))
        # validate (several JVMs)
        nchunk = min(8, len(runs))
        size = (len(runs) + nchunk - 1) // nchunk
        viols = []
        ndone = 0
        for k in range(nchunk):
            part = runs[k * size:(k + 1) * size]
            if not part:
                continue
            p = os.path.join(tmp, f"runs{k}.json")
            json.dump(part, open(p, "w"))
            r = tlc.run("TraceNs", "SPECIFICATION Spec\nCHECK_DEADLOCK FALSE\n", env={"TRACE_FILE": p}, workers=1, timeout=3000)
            if r.rc != 0:
                raise RuntimeError(f"TraceNs failed: {r.error}")
            for pr in r.prints:
                if pr[0] == "VIOL":
                    viols.append((k * size + pr[1] - 1, pr[2], pr[3], pr[4]))
                elif pr[0] == "DONE":
                    ndone += 1
        if ndone != len(runs):
            raise RuntimeError("not every namespace run was validated completely")
        ck.cov["traces_validated_against_impl"] = len(runs)
        ck.cov["evaluations"] = sum(len(r_) for r_ in runs)
        J = "".join
        for ti, l, act, clause in viols:
            if not any(clause.startswith(p) for p in prefixes):
                continue
            e = runs[ti][l - 1]
            what = {"act": e["act"], "status": e["status"], "name": J(e["name"]), "name2": J(e["name2"]),
                    "ref": J(e["ref"]), "pat": J(e["pat"]), "slot": e["slot"], "enc": e["enc"], "nm": e["nm"],
                    "text": e["text"], "listed": [J(x["name"]) for x in e["listed"]],
                    "db": [J(t["name"]) + ("(N)" if t["nosel"] else "") + ("(S)" if t["sub"] else "") for t in e["tree"]["db"]]}
            ck.violation(clause, act=(e["slot"] or act), where=f"{names_[ti]}:{l}", detail=json.dumps(what)[:400],
                         replay_obj={"run": names_[ti], "line": l, "event": what,
                                     "history": [{"act": x["act"], "name": J(x["name"]), "name2": J(x["name2"]),
                                                  "ref": J(x["ref"]), "pat": J(x["pat"]), "status": x["status"]}
                                                 for x in runs[ti][:l]][-12:]})
        if runs:
            e = runs[0][min(3, len(runs[0]) - 1)]
            ck.sample({"act": e["act"], "status": e["status"], "name": J(e["name"]), "slot": e["slot"], "nm": e["nm"]})
        ck.cov["trusted_base"] = ["TLC", "harness/nsdriver.py (rendering, tree projection from the database and the disk, "
                                  "snapshot of everything outside the mail directory)", "harness/wire.py"]
    finally:
        shutil.rmtree(tmp, ignore_errors=True)
