"""C08 -- command parsing is total and means what RFC 3501 says.

  1. TLC enumerates spec/CmdGrammar.tla exhaustively: a generative grammar of
     the command language (all commands, UID forms, nested search keys, fetch
     sections/partials, LIST-EXTENDED options, astrings in their four
     encodings, mailbox names incl. INBOX variants and near-misses) run as a
     state machine.  Every finished derivation is a text with its expected
     flat AST (verdict OK), or a text that is certainly no sentence (verdict
     BAD: cut early, trailing garbage, a token that cannot stand there, 0 for
     nz-number, impossible date, empty list, short literal).  The laws of the
     spec itself (TypeOK, AstWellFormed, BadHasReason) are invariants of that
     run.  Deeper nesting comes from TLC -simulate on the same module.
  2. spec -> code: every text goes to the real IMAPClientCommand.parse(); the
     parsed object is projected to the AST vocabulary; seeded byte-level
     mutations/truncations of every text are parsed as well (outcome class
     only); a sample of refused texts goes through the real
     IMAPClientProxy.run (tagged BAD, session survives).
  3. code -> spec: TLC (spec/CmdGrammarTrace.tla, verdict layer
     CmdGrammarAst.tla) judges every record: C08.Total,
     C08.TotalUnderMutation, C08.RejectsInvalid, C08.AcceptsValid,
     C08.Faithful, C08.NothingLeft, C08.BadReachesClient,
     C08.OctetsReachParser.
"""
import json
import multiprocessing as mp
import os
import random
import shutil
import sys
import tempfile

sys.path.insert(0, os.path.dirname(os.path.dirname(os.path.abspath(__file__))))
from checks import lib  # noqa: E402
from harness import cmdgrammar as cg  # noqa: E402
from harness import tlc  # noqa: E402

GEN_CFG = """SPECIFICATION Spec
CONSTANTS
  Wide = {Wide}
  KeyDepth = {KeyDepth}
  NegKinds = {Neg}
  Start = "{Start}"
INVARIANT TypeOK
INVARIANT AstWellFormed
INVARIANT BadHasReason
CHECK_DEADLOCK FALSE
"""

ALL_COMMANDS = ("append authenticate capability check close copy create delete examine expunge fetch id idle "
                "list login logout lsub move namespace noop rename search select status store subscribe "
                "unselect unsubscribe").split()
UTF8 = "-Dstdout.encoding=UTF-8 -Dfile.encoding=UTF-8"   # octets > 127 in the printed texts
ALLNEG = '{"stop", "garbage", "bad", "short"}'
PLAN = {
    # exhaustive universes (name, constants), simulated derivations, mutations per text, e2e sample
    "quick": dict(exh=[("narrow-neg", dict(Wide="FALSE", KeyDepth=1, Neg=ALLNEG, Start="line")),
                       ("wide-pos", dict(Wide="TRUE", KeyDepth=1, Neg="{}", Start="line"))],
                  sim=dict(num=2000, consts=dict(Wide="TRUE", KeyDepth=4, Neg='{"garbage", "bad"}', Start="deep")),
                  nmut=3, ne2e=150),
    "thorough": dict(exh=[("wide-neg-depth2", dict(Wide="TRUE", KeyDepth=2, Neg=ALLNEG, Start="line")),
                          ("narrow-pos-depth3", dict(Wide="FALSE", KeyDepth=3, Neg="{}", Start="line"))],
                     sim=dict(num=60000, consts=dict(Wide="TRUE", KeyDepth=4, Neg='{"garbage", "bad"}', Start="deep")),
                     nmut=10, ne2e=1500),
}


def _validate(path):
    r = tlc.run("CmdGrammarTrace", "SPECIFICATION Spec\nCHECK_DEADLOCK FALSE\n",
                env={"TRACE_FILE": path, "JAVA_TOOL_OPTIONS": "-Xmx3g"}, workers=1, timeout=3000)
    return {"rc": r.rc, "error": r.error if r.rc != 0 else None, "prints": r.prints,
            "generated": r.generated, "distinct": r.distinct, "out": r.out[-1500:]}


def _feature(s):
    """label (not a verdict) for grouping what is reported"""
    cmd = s["ast"][2] if len(s["ast"]) > 2 else "-"
    if s["verdict"] == "BAD":
        return f"{s['cat']}:{cmd}"
    f = []
    for t in s["ast"]:
        body = t.split(":", 1)[1] if ":" in t else t
        if t[:2] in ("m:", "p:") and body.lower().startswith("inbox") and body.lower() != "inbox":
            f.append("nearinbox")
        elif not t.startswith("f:") and ('"' in body or "\\" in body):
            f.append("escapes")
        if not t.isascii():
            f.append("eightbit")
    if cmd == "store" and "(" not in s["text"]:
        f.append("bareflags")
    return f"ok:{cmd}:" + ("+".join(sorted(set(f))) or "plain")


def fn(ck, a):
    plan = PLAN[ck.tier]
    tmp = tempfile.mkdtemp(prefix="verif-c08-")
    try:
        sents = {}
        order = []

        def take(r, universe):
            n = 0
            for s in cg.sentences(r.out):
                n += 1
                old = sents.get(s["text"])
                if old is None:
                    s["universe"] = universe
                    sents[s["text"]] = s
                    order.append(s["text"])
                elif old["verdict"] != s["verdict"] or (s["verdict"] == "OK" and old["ast"] != s["ast"]):
                    raise RuntimeError(f"CmdGrammar is ambiguous about {s['text']!r}: "
                                       f"{old['verdict']} {old['ast']} / {s['verdict']} {s['ast']}")
            return n

        if getattr(a, "replay", None):
            with open(a.replay) as f:
                rp = json.load(f)
            for e in rp["examples"]:
                s = {"cat": e["cat"], "verdict": e["verdict"], "text": e["text"], "ast": e["expected_ast"],
                     "universe": "replay"}
                sents[s["text"]] = s
                order.append(s["text"])
            plan = dict(plan, exh=[], sim=None, ne2e=len(order))
        # 1. the language: exhaustive within the bounds, plus random deeper derivations
        for name, consts in plan["exh"]:
            r = tlc.run("CmdGrammar", GEN_CFG.format(**consts), workers=16, timeout=3000,
                        env={"JAVA_TOOL_OPTIONS": "-Xmx8g " + UTF8})
            ck.add_tlc("exhaustive:" + name, r)
            if r.violated:
                ck.violation("C08.SpecLaw", act="model", where=name,
                             detail=f"CmdGrammar violates its own law {r.violated}",
                             replay_obj={"tlc_out": r.out[-4000:]})
                continue
            if r.rc != 0:
                raise RuntimeError(f"TLC failed on CmdGrammar ({name}): {r.error or r.out[-800:]}")
            n = take(r, name)
            if n == 0:
                raise RuntimeError("CmdGrammar produced no sentence")
        ck.cov["exhaustive"] = all(x["complete"] for x in ck.cov["tlc_runs"]) and bool(plan["exh"])
        if plan["sim"]:
            r = tlc.run("CmdGrammar", GEN_CFG.format(**plan["sim"]["consts"]), workers=1, timeout=3000,
                        simulate=f"num={plan['sim']['num']}", depth=400, seed=ck.seed + 11,
                        env={"JAVA_TOOL_OPTIONS": "-Xmx4g " + UTF8})
            ck.add_tlc("simulate:deep", r, exhaustive=False)
            if r.violated:
                ck.violation("C08.SpecLaw", act="model", where="simulate",
                             detail=f"CmdGrammar violates its own law {r.violated}",
                             replay_obj={"tlc_out": r.out[-4000:]})
            elif r.rc != 0:
                raise RuntimeError(f"TLC -simulate failed on CmdGrammar: {r.error or r.out[-800:]}")
            else:
                take(r, "simulate")
        S = [sents[t] for t in sorted(order)]      # TLC's workers print in any order
        if plan["exh"]:
            # the generator must have produced every command of the language (a spec edit that
            # silently loses a production must not pass as "no violation")
            have = {s["ast"][2] for s in S if s["verdict"] == "OK"}
            missing = set(ALL_COMMANDS) - have
            if missing:
                raise RuntimeError(f"CmdGrammar no longer generates: {sorted(missing)}")

        # 2. spec -> code
        nmut = plan["nmut"]
        step = max(50, len(S) // 112)
        jobs = [(ck.seed, nmut, [(i, S[i]["text"]) for i in range(k, min(k + step, len(S)))])
                for k in range(0, len(S), step)]
        ctx = mp.get_context("fork")
        with ctx.Pool(14) as pool:
            for part in pool.imap_unordered(cg.run_chunk, jobs):
                for idx, out, iast, rest, mut, worst in part:
                    S[idx].update(out=out, iast=iast, rest=rest, mut=mut, worst=worst, e2e=["no", "0", "NONE", "0", "no", ""])
        # end to end: refused texts must reach the client as one tagged BAD
        refused = [i for i, s in enumerate(S) if s["out"] == "bad" and s["text"].startswith(("a1 ", "A.b-2 "))
                   and len(s["text"]) > 3]
        rng = random.Random(ck.seed + 5)
        rng.shuffle(refused)
        refused.sort(key=lambda i: S[i]["text"].isascii())      # those with octets > 127 first
        refused = refused[: plan["ne2e"]]
        parts = [refused[k::8] for k in range(8) if refused[k::8]]
        with ctx.Pool(len(parts) or 1) as pool:
            e2e_res = pool.starmap(cg.e2e, [([S[i]["text"] for i in p], ck.seed) for p in parts])
        for p, rs in zip(parts, e2e_res):
            for i, r_ in zip(p, rs):
                S[i]["e2e"] = r_

        # 3. code -> spec
        nch = 14 if len(S) > 2000 else 1
        paths, index = [], []
        for ci in range(nch):
            part = list(range(ci, len(S), nch))
            if not part:
                continue
            p = os.path.join(tmp, f"cases_{ci}.json")
            with open(p, "w") as f:
                json.dump([{k: S[i][k] for k in ("text", "cat", "verdict", "ast", "out", "iast", "rest", "mut", "e2e")}
                           for i in part], f)
            paths.append(p)
            index.append(part)
        with ctx.Pool(len(paths)) as pool:
            vres = pool.map(_validate, paths)
        viols = {}
        done = 0
        for part, r in zip(index, vres):
            if r["rc"] != 0:
                raise RuntimeError("TLC validation failed: " + (r["error"] or r["out"])[:1500])
            ck.cov["states"] += r["distinct"]
            ck.cov["transitions"] += r["generated"]
            for p_ in r["prints"]:
                if p_ and p_[0] == "VIOL":
                    i = part[p_[1] - 1]
                    act = _feature(S[i])
                    if p_[2] == "C08.TotalUnderMutation":
                        act = "mutant:" + [m for m in S[i]["mut"] if m not in ("parsed", "bad")][0]
                    elif p_[2] in ("C08.BadReachesClient", "C08.OctetsReachParser"):
                        act = "e2e"
                    viols.setdefault((p_[2], act), []).append(i)
                elif p_ and p_[0] == "DONE":
                    done += 1
        if done != len(S):
            raise RuntimeError(f"validation incomplete: {done} of {len(S)} cases consumed")

        nm = sum(nmut for _ in S)
        ck.cov["traces_validated_against_impl"] = len(S)
        ck.cov["evaluations"] = len(S) + nm + len(refused)
        ck.cov["sentences"] = {"valid": sum(1 for s in S if s["verdict"] == "OK"),
                               "invalid": sum(1 for s in S if s["verdict"] == "BAD"),
                               "mutants_parsed": nm, "end_to_end": len(refused)}
        by = {}
        for s in S:
            by[_feature(s).rsplit(":", 1)[0] if s["verdict"] == "OK" else _feature(s)] = 1
            ck.note_case((s["cat"], s["ast"][2] if len(s["ast"]) > 2 else "-", s["out"]))
        ck.cov["classes"] = len(by)
        ck.cov["rule"] = ("cases = texts generated by TLC from CmdGrammar (all finished derivations within the bounds "
                          "+ simulated deeper ones), each parsed by the real parser and judged by TLC; evaluations "
                          "add the seeded mutants and the end-to-end sample; distinct non-trivial = distinct "
                          "(kind of sentence, command, outcome)")
        for i in (3, len(S) // 2, len(S) - 7):
            if 0 <= i < len(S):
                ck.sample({k: S[i][k] for k in ("text", "verdict", "cat", "ast", "out", "iast", "rest")})

        for (clause, act), lst in sorted(viols.items()):
            lst.sort(key=lambda i: (len(S[i]["text"]), S[i]["text"]))
            ex = []
            for i in lst[:6]:
                s = S[i]
                ex.append({"text": s["text"], "cat": s["cat"], "verdict": s["verdict"], "expected_ast": s["ast"],
                           "outcome": s["out"], "impl_ast": s["iast"], "unparsed_rest": s["rest"],
                           "mutant_outcomes": s["mut"], "offending_mutant": s["worst"], "e2e": s["e2e"]})
            s0 = S[lst[0]]
            if clause == "C08.TotalUnderMutation":
                what = f"mutant {s0['worst']!r} -> {[m for m in s0['mut'] if m not in ('parsed', 'bad')]}"
            elif clause in ("C08.BadReachesClient", "C08.OctetsReachParser"):
                what = f"{s0['text']!r} -> [ran, tagged, status, other, usable, handed to parser] = {s0['e2e']}"
            elif clause == "C08.Faithful":
                what = f"{s0['text']!r} denotes {s0['ast'][4:]} but was parsed as {s0['iast'][4:]} rest={s0['rest']!r}"
            else:
                what = f"{s0['text']!r} ({s0['cat']}, verdict {s0['verdict']}) -> {s0['out']} rest={s0['rest']!r}"
            ck.violation(clause, act=act, where=f"{s0['universe']}",
                         detail=f"{len(lst)} texts; smallest: {what}",
                         replay_obj={"clause": clause, "class": act, "count": len(lst), "examples": ex})
        ck.assumptions += [
            "the parser is given the command as asimap's front-end assembles it: tag to last argument, literals "
            "in-line as {n}CRLF + n octets, no final CRLF, octets as latin-1 characters",
            "CmdGrammar is this check's reading of RFC 3501 / 2971 / 4315 / 5258 / 5819 / 6154 / 6851 / 7888 for the "
            "covered productions; it is part of the trusted base",
            "equal denotations (CmdGrammarAst.FoldPairs): INBOX in any case, case of searched strings / header "
            "field names / charset names, order of the two ends of a range; mailbox names are generated in "
            "normal form, so asimap's os.path.normpath normalisation is not judged",
            "semantic normal form of the AST: UNSEEN = NOT SEEN, NEW = (RECENT UNSEEN), OLD = NOT RECENT, FROM x = "
            "HEADER FROM x, RFC822 = BODY[], RFC822.HEADER = BODY.PEEK[HEADER], RFC822.TEXT = BODY[TEXT], the macros "
            "ALL/FAST/FULL expanded, a parenthesised list of one search key = that key",
            "8-bit octets and NUL reach the parser only through the mutations (TLC prints ASCII)",
        ]
        ck.cov["trusted_base"] = ["TLC", "spec/CmdGrammar.tla (the grammar)",
                                  "harness/cmdgrammar.py (projection of IMAPClientCommand to the AST vocabulary, "
                                  "mutation operators)", "harness/world.py (end-to-end sample)"]
    finally:
        shutil.rmtree(tmp, ignore_errors=True)


if __name__ == "__main__":
    lib.main(fn, "C08")
