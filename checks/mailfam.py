"""
Engine shared by the mailbox-family checks (C01 C02 C03 C04 C05 C12 C13):

  1. TLC explores spec/MailStore.tla (protocol layer) exhaustively up to a depth
     bound and by random simulation, checking the property layer
     (spec/MailProps.tla) on every transition;
  2. behaviours TLC generated are replayed against the real server
     (spec -> code), comparing outcome and projected state (model drift);
  3. seeded random multi-session workloads are executed on the real server;
  4. every recorded execution is validated by TLC against the property layer
     (code -> spec, spec/TraceMail.tla); violations of the clauses belonging to
     the property decide the verdict.
"""

import json
import multiprocessing as mp
import os
import shutil
import sys
import tempfile

ROOT = os.path.dirname(os.path.dirname(os.path.abspath(__file__)))
sys.path.insert(0, ROOT)

from harness import tlc  # noqa: E402

CFG_HEAD = """SPECIFICATION Spec
CONSTANTS
  Sess = {sess}
  Mbox = {mbox}
  MaxId = {maxid}
  StoreFlags = {flags}
  Acts = {acts}
  MaxPend = {maxpend}
  Modes = {modes}
  Silents = {silents}
  Sets <- {sets}
PROPERTY {prop}
INVARIANT TypeOK
CONSTRAINT {constraint}
{view}
CHECK_DEADLOCK FALSE
"""


def tla_set(xs):
    return "{" + ", ".join(f'"{x}"' for x in xs) + "}"


def model_cfg(prop, *, sess=("A", "B"), mbox=("inbox",), maxid=3,
              flags='{{"Deleted"}}', acts=None, maxpend=4, modes=("+", "-"),
              silents="{FALSE}", sets="SetsSmall", depth=None, view=True):
    acts = acts or ["Deliver", "Select", "Noop", "Idle", "Store", "Fetch", "Expunge", "Append"]
    return CFG_HEAD.format(sess=tla_set(sess), mbox=tla_set(mbox), maxid=maxid, flags=flags,
                           acts=tla_set(acts), maxpend=maxpend, modes=tla_set(modes),
                           silents=silents, sets=sets, prop=prop,
                           constraint="Bounded" if depth else "PendBound",
                           view="VIEW CoreView" if view else "") + \
        (f"CONSTANT MaxDepth = {depth}\n" if depth else "CONSTANT MaxDepth = 0\n")


# ---------------------------------------------------------------------------
def _run_scenario(job):
    kind, payload, seed = job
    try:
        if kind == "random":
            from harness import mailgen
            payload = dict(payload)
            wkw = payload.pop("world", {})
            steps = mailgen.gen_scenario(seed, **payload)
            tr = mailgen.execute(steps, seed=seed, **wkw)
            return {"kind": kind, "seed": seed, "trace": tr, "drift": [], "steps": steps, "world": wkw}
        elif kind == "directed":
            from harness import mailgen
            tr = mailgen.execute(payload["steps"], seed=seed, pack_limit=3, pack_ratio=0.75)
            return {"kind": kind + ":" + payload["name"], "seed": seed, "trace": tr, "drift": [],
                    "steps": payload["steps"]}
        else:
            from harness import mailreplay
            tr, drift = mailreplay.execute(payload, seed=seed)
            return {"kind": kind, "seed": seed, "trace": tr, "drift": drift, "steps": None}
    except BaseException as e:  # noqa
        import traceback
        return {"kind": kind, "seed": seed, "error": traceback.format_exc()[-1500:], "trace": None,
                "drift": []}


def run_jobs(jobs, procs=14):
    ctx = mp.get_context("fork")
    with ctx.Pool(procs) as pool:
        return pool.map(_run_scenario, jobs, chunksize=1)


def _validate_chunk(args):
    path, only = args
    r = tlc.run("TraceMail", "SPECIFICATION Spec\nCHECK_DEADLOCK FALSE\n",
                env={"TRACE_FILE": path}, workers=1, timeout=3000)
    return {"rc": r.rc, "error": r.error if r.rc != 0 else None, "prints": r.prints,
            "generated": r.generated, "wall": r.wall, "cmd": r.cmd}


def validate(traces, tmpdir, chunks=12):
    """Validate traces with TLC (several JVMs in parallel).  Returns
    (viols, done, nsteps) where viols = [(trace_index, line, act, clause)]."""
    n = len(traces)
    if n == 0:
        return [], set(), 0, []
    chunks = max(1, min(chunks, n))
    size = (n + chunks - 1) // chunks
    args = []
    offs = []
    for c in range(chunks):
        part = traces[c * size:(c + 1) * size]
        if not part:
            continue
        p = os.path.join(tmpdir, f"traces_{c}.json")
        with open(p, "w") as f:
            json.dump(part, f)
        args.append((p, None))
        offs.append(c * size)
    ctx = mp.get_context("fork")
    with ctx.Pool(len(args)) as pool:
        res = pool.map(_validate_chunk, args)
    viols, done, steps, errs = [], set(), 0, []
    for off, r in zip(offs, res):
        if r["rc"] != 0:
            errs.append(r["error"] or "TLC failed")
        steps += r["generated"]
        for p in r["prints"]:
            if p and p[0] == "VIOL":
                viols.append((off + p[1] - 1, p[2], p[3], p[4]))
            elif p and p[0] == "DONE":
                done.add(off + p[1] - 1)
    return viols, done, steps, errs


# ---------------------------------------------------------------------------
def replay_file(ck, path, prefixes):
    """bin/check Cxx --replay <file>: executes the recorded history again on the current /repo tree and has TLC
    judge it; the violation is reported again if it is still there.  (A replay of a TLC behaviour or of the
    model's own counterexample carries no steps: its recorded excerpt is printed instead.)"""
    from harness import mailgen, show
    d = json.load(open(path))
    if not d.get("steps"):
        print(f"[{ck.prop}] replay file without executable steps ({d.get('kind', 'model')}): recorded excerpt follows")
        for ln in (d.get("excerpt") or [d.get("tlc_out", "")[-3000:]]):
            print("   ", ln)
        return
    steps = [tuple(st) for st in d["steps"]]
    tr = mailgen.execute(steps, seed=d.get("seed", 0), **(d.get("world") or {}))
    tmp = tempfile.mkdtemp(prefix="verif-mfr-")
    try:
        viols, done, nsteps, errs = validate([tr], tmp, chunks=1)
        if errs:
            raise RuntimeError("TLC trace validation failed: " + errs[0][:800])
        ck.cov["traces_validated_against_impl"] = 1
        ck.cov["evaluations"] = len(tr)
        ck.cov["rule"] = f"replay of {path}"
        for ti, line, act, clause in viols:
            if any(clause.startswith(p) for p in prefixes):
                lo = max(1, tr[line - 1]["pre"] - 2)
                print(show.show(tr, lo, line, ["inbox", "b"]))
                ck.violation(clause, act=act, where=f"replay:{d.get('seed')}:line{line}",
                             detail=show.ev_line(tr[line - 1], ["inbox", "b"]).replace("\n", " | ")[:300],
                             replay_obj=dict(d, line=line, clause=clause))
    finally:
        shutil.rmtree(tmp, ignore_errors=True)


def run_family(ck, prefixes, *, model_prop, quick, thorough):
    """prefixes: clause prefixes that belong to the property ("C01.")."""
    from harness import mailreplay, show

    P = thorough if ck.tier == "thorough" else quick
    if getattr(ck, "replay_path", None):
        return replay_file(ck, ck.replay_path, prefixes)
    tmp = tempfile.mkdtemp(prefix="verif-mf-")
    try:
        # 1. exhaustive (depth-bounded) model check of the protocol layer
        for name, kw in P["exhaustive"]:
            cfg = model_cfg(model_prop, **kw)
            r = tlc.run("MailStore", cfg, workers=16, timeout=P.get("tlc_timeout", 900),
                        env={"JAVA_TOOL_OPTIONS": "-Dtlc2.tool.queue.IStateQueue=MemStateQueue"})
            ck.add_tlc(f"exhaustive:{name}", r)
            if r.violated:
                ck.violation(prefixes[0] + "ModelViolatesPropertyLayer", act="model",
                             where=name, detail=f"TLC: {r.violated} violated by the protocol model",
                             replay_obj={"tlc_out": r.out[-6000:]})
            elif r.error == "timeout":
                # the bounded exploration did not finish within its time limit: what was explored
                # held; the evidence lists the run as incomplete
                ck.assumptions.append(f"TLC run exhaustive:{name} stopped at its time limit after {r.distinct} distinct "
                                      f"states (incomplete; no violation among the states explored)")
            elif r.rc != 0:
                raise RuntimeError(f"TLC failed on MailStore ({name}): {r.error}")
        ck.cov["exhaustive"] = all(x["complete"] for x in ck.cov["tlc_runs"])
        # 2. behaviours for replay
        behaviours = []
        for name, kw, num, depth in P["simulate"]:
            cfg = model_cfg(model_prop, view=False, **kw)
            # TLC's simulation mode runs on one worker: large numbers of behaviours are generated by
            # several TLC processes with different seeds (the seeds depend only on the check's seed)
            parts = 8 if num >= 200 else 1
            from concurrent.futures import ThreadPoolExecutor

            def sim(j, name=name, cfg=cfg, num=num, depth=depth, parts=parts):
                pre = os.path.join(tmp, f"sim_{name}_{j}")
                n = num // parts + (1 if j < num % parts else 0)
                return pre, tlc.run("MailStore", cfg, workers=1, timeout=P.get("tlc_timeout", 900),
                                    env={"JAVA_TOOL_OPTIONS": "-Xmx3g"},       # several JVMs side by side
                                    simulate=f"file={pre},num={n}", depth=depth, seed=ck.seed + 1 + 1000 * j)
            with ThreadPoolExecutor(max_workers=parts) as ex:
                outs = list(ex.map(sim, range(parts)))
            for j, (pre, r) in enumerate(outs):
                ck.add_tlc(f"simulate:{name}" + (f":{j}" if parts > 1 else ""), r, exhaustive=False)
                if r.violated:
                    ck.violation(prefixes[0] + "ModelViolatesPropertyLayer", act="model",
                                 where=name, detail=f"TLC simulation: {r.violated} violated",
                                 replay_obj={"tlc_out": r.out[-6000:]})
                elif r.error == "timeout":
                    ck.assumptions.append(f"TLC simulation {name}:{j} stopped at its time limit; the behaviours it had written are used")
                elif r.rc != 0:
                    raise RuntimeError(f"TLC simulate failed ({name}:{j}): rc={r.rc} {r.error} {r.out[-400:]}")
                behaviours += mailreplay.load_behaviours(pre)
        jobs = [("replay", b, ck.seed * 100000 + i) for i, b in enumerate(behaviours)]
        for i in range(P["random"]):
            jobs.append(("random", P.get("gen", {}), ck.seed * 100000 + 50000 + i))
        # directed histories that once exposed a defect are part of every run
        from selftest import mail_findings
        for name, steps in mail_findings.HISTORIES.items():
            jobs.append(("directed", {"steps": [("create", "A0", "b")] + steps, "name": name}, 1))
        results = run_jobs(jobs)
        traces, meta = [], []
        for res in results:
            if res.get("error"):
                raise RuntimeError(f"harness failure in {res['kind']} seed {res['seed']}: {res['error']}")
            traces.append(res["trace"])
            meta.append(res)
            for dr in res["drift"]:
                ck.model_drift(dr["action"], dr["field"], dr["detail"])
        # 3. validation against the property layer
        viols, done, steps, errs = validate(traces, tmp)
        if errs:
            raise RuntimeError("TLC trace validation failed: " + errs[0][:800])
        if len(done) != len(traces):
            missing = sorted(set(range(len(traces))) - done)[:5]
            raise RuntimeError(f"traces not consumed completely: {missing}")
        ck.cov["traces_validated_against_impl"] = len(traces)
        ck.cov["evaluations"] = sum(len(t) for t in traces)
        ck.cov["replayed_behaviours"] = len(behaviours)
        ck.cov["random_workloads"] = P["random"]
        for t in traces:
            for e in t:
                if e["act"] not in ("Init", "Open", "Admit") and (
                        e["status"] != "OK" or any(e["out"].values()) or e["internal"]):
                    ck.note_case((e["act"], e["uid"], e["status"], e["mode"],
                                  tuple(len(v) for v in e["out"].values()),
                                  len(e["set"]), e["silent"]))
        from collections import Counter
        cnt = Counter()
        for t in traces:
            for e in t:
                cnt[f"{e['act']}:{e['status']}"] += 1
        ck.cov["impl_action_counts"] = dict(sorted(cnt.items()))
        ck.cov["rule"] = ("cases = steps executed on the implementation (TLC-generated behaviours "
                          "replayed + seeded random multi-session workloads); distinct non-trivial = "
                          "distinct (action, uid-form, outcome, store mode, per-session untagged counts, "
                          "set size, silent) tuples among steps that changed state, produced untagged "
                          "data or were refused")
        if traces:
            ck.sample({"trace_excerpt": show.show(traces[0], 1, min(len(traces[0]), 8),
                                                  mboxes=["inbox", "b"]).splitlines()[:30]})
        if behaviours:
            ck.sample({"tlc_behaviour_actions": [s["last"]["act"] + ":" + s["last"]["sess"]
                                                 for s in behaviours[0]]})
        for ti, line, act, clause in viols:
            if not any(clause.startswith(p) for p in prefixes):
                continue
            tr = traces[ti]
            lo = max(1, tr[line - 1]["pre"] - 2)
            ck.violation(clause, act=act, where=f"{meta[ti]['kind']}:{meta[ti]['seed']}:line{line}",
                         detail=show.ev_line(tr[line - 1], ["inbox", "b"]).replace("\n", " | ")[:300],
                         replay_obj={"kind": meta[ti]["kind"], "seed": meta[ti]["seed"], "world": meta[ti].get("world", {}),
                                     "steps": meta[ti]["steps"], "line": line, "clause": clause,
                                     "excerpt": show.show(tr, lo, line, ["inbox", "b"]).splitlines()})
        ck.assumptions += [
            "user server run in-process on a deterministic virtual-time loop; aiosqlite replaced by an "
            "in-thread sqlite3 shim with the same transaction semantics",
            "external MH agent = stdlib mailbox.MH; folder mtimes of deliveries set explicitly",
            "exhaustive part bounded by the constants/depth of each TLC run listed in tlc_runs",
        ]
        ck.cov["trusted_base"] = ["TLC", "harness/world.py projection", "harness/wire.py response reader"]
    finally:
        shutil.rmtree(tmp, ignore_errors=True)
