"""C14 -- SEARCH returns exactly the messages that satisfy the criteria.

  1. TLC explores spec/SearchMC.tla: every <<mailbox, program>> pair of the
     bounded space is a state; the laws of the reference semantics
     (spec/Search.tla) are invariants; the space itself is written as JSON.
  2. spec -> code: harness/searchrun.py realises every abstract mailbox as a
     real MH folder and runs the programs through SEARCH and UID SEARCH of the
     real server, recording FETCH (UID FLAGS RFC822.SIZE INTERNALDATE) of the
     same session; seeded random deeper programs / larger mailboxes are added
     beyond the bounds.
  3. code -> spec: TLC (spec/SearchTrace.tla) evaluates the reference
     semantics on what FETCH reported and decides every verdict.
"""
import json
import multiprocessing as mp
import os
import random
import shutil
import sys
import tempfile
import time

sys.path.insert(0, os.path.dirname(os.path.dirname(os.path.abspath(__file__))))
from checks import lib  # noqa: E402
from harness import tlc  # noqa: E402

QUICK = dict(tier="quick", maxlen=3, rand_programs=150, rand_depth=4, rand_mailboxes=0,
             jobs=14, procs=14, tlc_timeout=600)
THOROUGH = dict(tier="thorough", maxlen=3, rand_programs=800, rand_depth=5, rand_mailboxes=60,
                jobs=56, procs=14, tlc_timeout=3000)

CFG = """SPECIFICATION Spec
CONSTANTS
  MaxLen = {maxlen}
  Tier = "{tier}"
INVARIANT LawsHold
INVARIANT TypeOK
CHECK_DEADLOCK FALSE
"""


def key(p):
    return json.dumps(p, separators=(",", ":"))


def rand_program(rng, leaves, depth):
    if depth <= 0 or rng.random() < 0.25:
        return rng.choice(leaves)
    r = rng.random()
    if r < 0.3:
        return ["NOT", rand_program(rng, leaves, depth - 1)]
    if r < 0.65:
        return ["OR", rand_program(rng, leaves, depth - 1), rand_program(rng, leaves, depth - 1)]
    return ["AND", [rand_program(rng, leaves, depth - 1) for _ in range(rng.choice([1, 2, 2, 3]))]]


def rand_mailbox(rng, ntypes):
    n = rng.randint(4, 6)
    uids, u = [], 0
    for _ in range(n):
        u += rng.choice([1, 1, 2, 3])
        uids.append(u)
    return [[rng.randint(1, ntypes), x] for x in uids]


def _run_job(job):
    """Runs in a worker process: execute the groups of one job on one World and
    write the validation input of this job; only a summary travels back."""
    try:
        from harness import searchrun
        t0 = time.time()
        recs = searchrun.run_groups(job)
        laws, leaf_idx = job["laws"], job["leaf_idx"]
        summ = []
        for g in recs:
            pos = {c[0]: n + 1 for n, c in enumerate(g["cases"])}
            g["laws"] = [[law, pos[pi], pos[qi]] for law, pi, qi in laws if pi in pos and qi in pos]
            g["leafpos"] = [pos.get(i, 0) for i in leaf_idx]
            cnt = {}
            nontrivial = 0
            for c in g["cases"]:
                k = f"{c[1]}/{c[3]}"
                cnt[k] = cnt.get(k, 0) + 1
                if c[1] == "OK" and 0 < len(c[2]) < max(g["n"], 1):
                    nontrivial += 1
            summ.append({"gid": g["gid"], "name": g["name"], "mode": g["mode"], "n": g["n"],
                         "cases": len(g["cases"]), "reopened": g["reopened"], "status": cnt,
                         "nontrivial": nontrivial, "laws": len(g["laws"])})
        with open(job["out"], "w") as f:
            json.dump({"programs": job["programs"], "leaves": job["leaves"], "groups": recs}, f)
        return {"summary": summ, "wall": time.time() - t0, "path": job["out"]}
    except BaseException:  # noqa
        import traceback
        return {"error": traceback.format_exc()[-2000:], "names": [g["name"] for g in job["groups"]]}


def _validate(path):
    r = tlc.run("SearchTrace", "SPECIFICATION Spec\nCHECK_DEADLOCK FALSE\n",
                env={"SEARCH_FILE": path}, workers=1, timeout=3000)
    return {"rc": r.rc, "error": r.error if (r.rc != 0 or r.error) else None, "prints": r.prints,
            "generated": r.generated, "distinct": r.distinct, "wall": r.wall, "cmd": r.cmd}


def spread(items, n, cost):
    """Greedy balancing of items over n bins."""
    bins = [[] for _ in range(n)]
    load = [0] * n
    for it in sorted(items, key=cost, reverse=True):
        i = load.index(min(load))
        bins[i].append(it)
        load[i] += cost(it)
    return [b for b in bins if b]


def fn(ck, a):
    from harness import searchrun

    P = THOROUGH if ck.tier == "thorough" else QUICK
    tmp = tempfile.mkdtemp(prefix="verif-c14-")
    try:
        # 1. the bounded space: laws checked exhaustively, space emitted
        space_path = os.path.join(tmp, "space.json")
        r = tlc.run("SearchMC", CFG.format(**P), env={"SEARCH_SPACE": space_path}, workers=16,
                    timeout=P["tlc_timeout"])
        ck.add_tlc(f"laws:{P['tier']}-maxlen{P['maxlen']}", r)
        if r.violated or r.rc != 0 or not r.complete:
            # the laws are theorems of the reference semantics; if they fail the
            # specification is wrong, which is a failure of the machinery
            raise RuntimeError(f"TLC on SearchMC failed: {r.violated or r.error}\n{r.out[-1500:]}")
        ck.cov["exhaustive"] = bool(r.complete)
        with open(space_path) as f:
            space = json.load(f)
        palette, leaves = space["palette"], space["leaves"]

        # 2. programs: shallow (all mailboxes), deep + law images + random (deep mailboxes)
        programs, index = [], {}

        def add(p):
            k = key(p)
            if k not in index:
                index[k] = len(programs)
                programs.append(p)
            return index[k]

        shallow = [add(p) for p in space["shallow"]]
        deep = [add(p) for p in space["deep"]]
        laws = [(t[0], add(t[1]), add(t[2])) for t in space["laws"]]
        rng = random.Random(ck.seed * 7919 + 14)
        rnd = [add(rand_program(rng, leaves, P["rand_depth"])) for _ in range(P["rand_programs"])]
        leaf_idx = [index[key(l)] for l in leaves]
        law_progs = sorted({i for _, pi, qi in laws for i in (pi, qi)})

        groups = []
        for i, mb in enumerate(space["mailboxes"]):
            which = list(shallow) if ck.tier == "quick" else sorted(set(shallow) | set(rnd))
            if mb["deep"]:
                which = sorted(set(which) | set(deep) | set(law_progs) | set(rnd))
            groups.append({"gid": i + 1, "name": f"m{i + 1:04d}", "slots": mb["slots"],
                           "which": which, "kind": "enumerated"})
        for j in range(P["rand_mailboxes"]):
            gid = len(groups) + 1
            groups.append({"gid": gid, "name": f"r{gid:04d}", "slots": rand_mailbox(rng, len(palette)),
                           "which": sorted(set(shallow) | set(rnd) | set(law_progs)), "kind": "random"})
        for g in groups:  # EXAMINE and SELECT sessions alternate
            g["mode"] = "EXAMINE" if g["gid"] % 2 == 0 else "SELECT"
        ginfo = {g["gid"]: g for g in groups}

        jobs = [{"palette": palette, "programs": programs, "leaves": leaves, "groups": part,
                 "seed": ck.seed, "laws": laws, "leaf_idx": leaf_idx,
                 "out": os.path.join(tmp, f"search_{n}.json")}
                for n, part in enumerate(spread(groups, P["jobs"],
                                                lambda g: len(g["which"]) * (len(g["slots"]) + 2)))]
        t0 = time.time()
        ctx = mp.get_context("fork")
        with ctx.Pool(min(P["procs"], len(jobs))) as pool:
            results = pool.map(_run_job, jobs, chunksize=1)
        t_impl = time.time() - t0
        summ, paths, where = {}, [], {}
        for res in results:
            if res.get("error"):
                raise RuntimeError(f"harness failure on {res['names'][:3]}: {res['error']}")
            paths.append(res["path"])
            for g in res["summary"]:
                summ[g["gid"]] = g
                where[g["gid"]] = res["path"]

        # 3. validation by TLC (one JVM per job file)
        t0 = time.time()
        with ctx.Pool(min(P["procs"], len(paths))) as pool:
            vres = pool.map(_validate, paths)
        t_val = time.time() - t0
        done, viols, drift, unstable = {}, [], [], []
        for v in vres:
            if v["rc"] != 0 or v["error"]:
                raise RuntimeError("TLC validation (SearchTrace) failed: " + str(v["error"])[:1500])
            ck.cov["states"] += v["distinct"]
            ck.cov["transitions"] += v["generated"]
            for pr in v["prints"]:
                if not pr:
                    continue
                if pr[0] == "VIOL":
                    viols.append(pr[1:])
                elif pr[0] == "DONE":
                    done[pr[1]] = (pr[2], pr[3])
                elif pr[0] == "DRIFT":
                    drift.append(pr[1:])
                elif pr[0] == "UNSTABLE":
                    unstable.append(pr[1])
                elif pr[0] == "BADLAW":
                    raise RuntimeError(f"harness paired programs that are not law-related: {pr}")
        ck.cov["tlc_runs"].append({"name": "validate:SearchTrace", "jvms": len(paths),
                                   "wall_s": round(t_val, 2), "complete": True,
                                   "cmd": vres[0]["cmd"] if vres else ""})
        missing = [gid for gid in summ if gid not in done]
        if missing:
            raise RuntimeError(f"groups not consumed by TLC: {missing[:5]}")
        for gid, g in summ.items():
            if done[gid][0] != g["cases"]:
                raise RuntimeError(f"group {gid}: TLC saw {done[gid][0]} of {g['cases']} cases")

        # 4. verdicts
        loaded = {}

        def group(gid):
            pth = where[gid]
            if pth not in loaded:
                with open(pth) as f:
                    loaded[pth] = {g["gid"]: g for g in json.load(f)["groups"]}
            return loaded[pth][gid]

        def describe(g):
            return [{"seq": m["seq"], "uid": m["uid"], "flags": m["flags"], "size": m["size"],
                     "iday": m["iday"], "sday": m["sday"], "hdrs": m["hdrs"],
                     "body": m["body"][:60]} for m in g["msgs"]]

        seen, first = {}, {}
        for gid, posn, clause, act in sorted(viols):
            k2 = (clause, act)
            seen[k2] = seen.get(k2, 0) + 1
            if seen[k2] > 3:
                continue
            g = group(gid)
            c = g["cases"][posn - 1]
            text = searchrun.render(programs[c[0]], c[0]).decode("latin-1")
            n0 = len(ck.violations)
            ck.violation(clause, act=act, where=f"{g['name']}:{g['mode']}:case{posn}",
                         detail=f"SEARCH {text!r} -> {c[1]} {c[2]}; UID SEARCH -> {c[3]} {c[4]}; "
                                f"mailbox uids={[m['uid'] for m in g['msgs']]}",
                         replay_obj={"clause": clause, "act": act, "mailbox_slots": g["slots"],
                                     "session": g["mode"], "search_program": text,
                                     "program": programs[c[0]],
                                     "search": {"status": c[1], "found": c[2]},
                                     "uid_search": {"status": c[3], "found": c[4]},
                                     "messages_as_fetched": describe(g),
                                     "how": "harness/searchrun.py realise_folder + Runner.run_mailbox; "
                                            "verdict by spec/SearchTrace.tla"})
            if len(ck.violations) > n0 and k2 not in first:
                first[k2] = ck.violations[n0]
        for k2, v in first.items():
            v["detail"] = f"[{seen[k2]} cases] " + v["detail"]
        for gid, seq, field in drift[:50]:
            ck.model_drift("Realise", field, f"{summ[gid]['name']} message {seq}: realised {field} "
                                             f"differs from the abstract mailbox")
        for gid in unstable:
            ck.model_drift("Fetch", "unstable", f"{summ[gid]['name']}: FETCH before and after the "
                                                f"searches disagree; group not judged")

        # 5. evidence
        ncases = sum(g["cases"] for g in summ.values())
        judged = sum(done[gid][1] for gid in summ)
        status = {}
        for g in summ.values():
            for k2, n in g["status"].items():
                status[k2] = status.get(k2, 0) + n
        ck.cov["distinct_nontrivial"] = sum(g["nontrivial"] for g in summ.values())
        ck.cov["traces_validated_against_impl"] = len(summ)
        ck.cov["evaluations"] = 2 * ncases
        ck.cov["cases"] = {"mailboxes": len(summ), "programs": len(programs),
                           "program_mailbox_pairs": ncases, "judged_pairs": judged,
                           "unjudged_pairs(seq number beyond EXISTS)": ncases - judged,
                           "law_pairs_checked": sum(g["laws"] for g in summ.values()),
                           "random_programs": len(rnd), "random_mailboxes": P["rand_mailboxes"],
                           "sessions_reopened_after_server_closed_them":
                               sum(g["reopened"] for g in summ.values()),
                           "status_counts": status,
                           "violating_pairs_by_clause_and_act":
                               {f"{c} {a}": n for (c, a), n in sorted(seen.items())},
                           "impl_wall_s": round(t_impl, 2), "validate_wall_s": round(t_val, 2)}
        ck.cov["rule"] = ("case = one <<realised mailbox, program>> pair executed as SEARCH and as UID SEARCH "
                          "(impl_steps counts both commands); distinct non-trivial = pairs answered OK whose "
                          "result is neither empty nor the whole mailbox")
        g0 = group(next((gid for gid in sorted(summ) if summ[gid]["n"] == 3), min(summ)))
        ck.sample({"mailbox": g0["name"], "session": g0["mode"], "slots": g0["slots"],
                   "messages": [{k: m[k] for k in ("seq", "uid", "flags", "size", "iday", "sday")}
                                for m in g0["msgs"]]})
        for c in g0["cases"][7:400:90]:
            ck.sample({"search": searchrun.render(programs[c[0]], c[0]).decode("latin-1"),
                       "found": c[2], "uid_found": c[4]})
        ck.assumptions += [
            "user server run in-process on a deterministic virtual-time loop; aiosqlite replaced by an "
            "in-thread sqlite3 shim",
            "reference data of a message: flags/size/internal date/UID as FETCH reports them in the same "
            "session (EXAMINE: before and after the searches; SELECT: flags after, because FETCH FLAGS "
            "clears \\Recent), Date: header / header fields / body as delivered into the MH folder",
            "messages are single-part 7bit text with unfolded headers; charsets, MIME decoding, folded "
            "headers, repeated header fields and messages without Date: are not exercised",
            "programs naming a message sequence number beyond EXISTS are executed but not judged",
            "TEXT needles never straddle the 'name: value' boundary or a line end",
            "bounds of the exhaustive part: the constants of the SearchMC run listed in tlc_runs "
            f"(palette of {len(palette)} messages, mailboxes of <= {P['maxlen']} messages, "
            f"{len(leaves)} leaf keys, depth <= 2)",
        ]
        ck.cov["trusted_base"] = ["TLC", "CommunityModules Json", "harness/wire.py response reader",
                                  "harness/searchrun.py message builder and program renderer",
                                  "the reading of RFC 3501 6.4.4 in spec/Search.tla"]
    finally:
        shutil.rmtree(tmp, ignore_errors=True)


if __name__ == "__main__":
    lib.main(fn, "C14")
