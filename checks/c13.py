"""C13 -- mail delivered by MH tools appears correctly; MH tools see IMAP flag changes."""
import os, sys
sys.path.insert(0, os.path.dirname(os.path.dirname(os.path.abspath(__file__))))
from checks import lib, mailfam

ACTS = ["Deliver", "Select", "Noop", "Idle", "Store", "Fetch", "Expunge", "Append"]
ALL = ACTS + ["Copy", "Move"]
QUICK = {
    "exhaustive": [("2sess-1mbox-3msgs-depth6", dict(depth=6, maxid=3, flags='{{"Deleted"}, {"Seen"}}'))],
    "simulate": [("2mbox", dict(mbox=("inbox", "b"), maxid=6, maxpend=8, sets="SetsMedium", acts=ALL,
                                 flags='{{"Deleted"}, {"Seen"}, {"Flagged", "k1"}}'), 50, 24)],
    "random": 70,
    "gen": dict(length=34, weights={"deliver": 22, "poll": 10, "store": 12, "fetchbody": 6, "expunge": 8, "move": 5,
                                    "copy": 5, "append": 6, "idle": 5, "done": 5, "noop": 10, "restart": 2}),
   }
THOROUGH = {
    "exhaustive": [("2sess-1mbox-3msgs-depth8", dict(depth=8, maxid=3, flags='{{"Deleted"}, {"Seen"}}')),
                   ("2sess-2mbox-depth6", dict(depth=6, maxid=4, mbox=("inbox", "b"), acts=ALL))],
    "simulate": [("2mbox", dict(mbox=("inbox", "b"), maxid=8, maxpend=8, sets="SetsMedium", acts=ALL,
                                 flags='{{"Deleted"}, {"Seen"}, {"Flagged", "k1"}}'), 800, 32)],
    "random": 800,
    "gen": dict(length=50, weights={"deliver": 22, "poll": 10, "store": 12, "fetchbody": 6, "expunge": 8, "move": 5,
                                    "copy": 5, "append": 6, "idle": 5, "done": 5, "noop": 10, "restart": 2}),
    "tlc_timeout": 1500,
   }

def _win(seed):
    from harness import concdriver
    try:
        # (every other run has an external MH agent delivering while the windows' commands run)
        wins, stats = concdriver.execute(seed, nwin=6, sessions=("A", "B", "C"), p_fifo=0.5 if seed % 2 else 0.75,
                                         deliveries=(seed % 2 == 0))
        return seed, wins, None
    except BaseException:
        import traceback
        return seed, None, traceback.format_exc()[-1500:]


def windows(ck):
    """The file side of C13 under concurrency: after every window of simultaneously issued commands
    (slow clients keep non-PEEK FETCHes running next to STOREs of other messages) .mh_sequences agrees
    with what the sessions see (spec/TraceWindowFile.tla evaluates MailProps!FileAgrees on the final state)."""
    import json, tempfile, shutil
    import multiprocessing as mp
    from harness import tlc
    n = 400 if ck.tier == "thorough" else 40
    seeds = [ck.seed * 100000 + 70000 + i for i in range(n)]
    with mp.get_context("fork").Pool(14) as pool:
        res = pool.map(_win, seeds, chunksize=2)
    wins, origin = [], []
    for seed, ws, err in res:
        if err:
            raise RuntimeError(f"window harness failed (seed {seed}): {err}")
        for k, w_ in enumerate(ws):
            wins.append(dict({"final": w_["final"]}, **({"settled": {"mb": w_["settled"]["mb"], "ss": w_["settled"]["ss"]}} if w_.get("settled") else {})))
            origin.append((seed, k, w_))
    tmp = tempfile.mkdtemp(prefix="verif-c13w-")
    try:
        p = os.path.join(tmp, "wins.json")
        json.dump(wins, open(p, "w"))
        r = tlc.run("TraceWindowFile", "SPECIFICATION Spec\nCHECK_DEADLOCK FALSE\n", env={"TRACE_FILE": p}, workers=1, timeout=3000)
        if r.rc != 0:
            raise RuntimeError(f"TraceWindowFile failed: {r.error}")
        if not any(pr and pr[0] == "DONE" and pr[1] == len(wins) for pr in r.prints):
            raise RuntimeError("TraceWindowFile did not consume every window")
        ck.cov["concurrent_windows_file_checked"] = len(wins)
        ck.cov["concurrent_windows_with_external_delivery"] = sum(1 for x in wins if "settled" in x)
        ck.cov["states"] += r.distinct
        ck.cov["transitions"] += r.generated
        for pr in r.prints:
            if pr and pr[0] == "VIOL":
                seed, k, w_ = origin[pr[1] - 1]
                acts = "+".join(sorted(c["act"] for c in w_["cmds"].values()))
                if pr[3] == "C13.AnnouncedAfterSync":
                    dd = [x for x in w_.get("delivered", []) if x[0] == pr[2]]
                    acts = ("deliver-during-resync:" if any(x[2] for x in dd) else "deliver:") + acts
                ck.violation(pr[3], act=acts, where=f"window seed {seed} #{k} mailbox {pr[2]}",
                             detail=json.dumps({c_: {x: v[x] for x in ("sess", "act", "uid", "set", "flags", "status")}
                                                for c_, v in w_["cmds"].items()})[:300],
                             replay_obj={"seed": seed, "window": k, "w": w_})
    finally:
        shutil.rmtree(tmp, ignore_errors=True)


def fn(ck, a):
    mailfam.run_family(ck, ["C13."], model_prop="P_C13", quick=QUICK, thorough=THOROUGH)
    windows(ck)

if __name__ == "__main__":
    lib.main(fn, "C13")
