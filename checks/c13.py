"""C13 -- mail delivered by MH tools appears correctly; MH tools see IMAP flag changes."""
import os, sys
sys.path.insert(0, os.path.dirname(os.path.dirname(os.path.abspath(__file__))))
from checks import lib, mailfam

ACTS = ["Deliver", "Select", "Noop", "Idle", "Store", "Fetch", "Expunge", "Append"]
ALL = ACTS + ["Copy", "Move"]
QUICK = {
    "exhaustive": [("2sess-1mbox-3msgs-depth6", dict(depth=6, maxid=3, flags='{{"Deleted"}, {"Seen"}}'))],
    "simulate": [("2mbox", dict(mbox=("inbox", "b"), maxid=6, maxpend=8, sets="SetsMedium", acts=ALL,
                                 flags='{{"Deleted"}, {"Seen"}, {"Flagged", "k1"}}'), 50, 24)],
    "random": 70,
    "gen": dict(length=34, weights={"deliver": 22, "poll": 10, "store": 12, "fetchbody": 6, "expunge": 8, "move": 5,
                                    "copy": 5, "append": 6, "idle": 5, "done": 5, "noop": 10, "restart": 2}),
   }
THOROUGH = {
    "exhaustive": [("2sess-1mbox-3msgs-depth8", dict(depth=8, maxid=3, flags='{{"Deleted"}, {"Seen"}}')),
                   ("2sess-2mbox-depth6", dict(depth=6, maxid=4, mbox=("inbox", "b"), acts=ALL))],
    "simulate": [("2mbox", dict(mbox=("inbox", "b"), maxid=8, maxpend=8, sets="SetsMedium", acts=ALL,
                                 flags='{{"Deleted"}, {"Seen"}, {"Flagged", "k1"}}'), 800, 32)],
    "random": 800,
    "gen": dict(length=50, weights={"deliver": 22, "poll": 10, "store": 12, "fetchbody": 6, "expunge": 8, "move": 5,
                                    "copy": 5, "append": 6, "idle": 5, "done": 5, "noop": 10, "restart": 2}),
    "tlc_timeout": 3000,
   }

def fn(ck, a):
    mailfam.run_family(ck, ["C13."], model_prop="P_C13", quick=QUICK, thorough=THOROUGH)

if __name__ == "__main__":
    lib.main(fn, "C13")
