"""C07 -- everything the server sends is well-formed IMAP.

  1. TLC checks the byte-class acceptor of spec/RespGrammar.tla exhaustively
     (spec/RespGrammarMC.tla): for every token string of three universes
     (framing, strings/parentheses, literals) up to the bound the acceptor
     agrees with a second, grammar-style definition; errors are sticky;
     run-length compression does not change the verdict; explicit good and bad
     streams get the expected verdicts (non-vacuity).  The same module
     enumerates the value shapes (sequences of pieces: quote, backslash,
     parentheses, "{3}", 8-bit, non-latin-1, folding, ...) from which the
     harness builds header values, mailbox names and echoed arguments.
  2. spec -> code: harness/respgrammar.py pushes every shape and the directed
     hard cases (nested multiparts, message/rfc822, odd line endings, the
     fixture corpus, partial fetches, keywords, all error paths, IDLE,
     watchdog, unhandled exception, notifications) through the real
     IMAPUserServer and records every octet written to each client, cut into
     one trace per command interval.
  3. code -> spec: the octets are turned into byte-class tokens (by class
     only) and TLC runs the acceptor over them (spec/RespGrammarTrace.tla);
     the strings of ENVELOPE / BODYSTRUCTURE / LIST / LSUB / STATUS are read
     back with the independent reader (harness/wire.py) and TLC compares them
     with what the harness put in (RespGrammar!DecodeBad).
"""
import concurrent.futures as cf
import json
import multiprocessing as mp
import os
import random
import re
import shutil
import sys
import tempfile

sys.path.insert(0, os.path.dirname(os.path.dirname(os.path.abspath(__file__))))
from checks import lib  # noqa: E402
from harness import tlc  # noqa: E402

MC_CFG = """SPECIFICATION Spec
CONSTANTS
  Alphabet <- {A}
  Prefix <- {P}
  Bound = {B}
  Pieces = {{{pieces}}}
  MaxPieces = {mp}
INVARIANT Agree
INVARIANT Rle
PROPERTY Sticky
CHECK_DEADLOCK FALSE
"""
PIECES = ["w", "sp", "dq", "bs", "lp", "rp", "lit", "l1", "u", "fold"]
UNIVERSES = {"quick": [("framing", "A_Framing", "P_None", 6), ("strings", "A_Data", "P_Star", 6),
                       ("literals", "A_Lit2", "P_Lit2", 7)],
             "thorough": [("framing", "A_Framing", "P_None", 7), ("strings", "A_Data", "P_Star", 7),
                          ("literals", "A_Lit2", "P_Lit2", 8), ("literals-in-lists", "A_Literal", "P_Lit", 7)]}

# octet streams with the verdict they must get (the whole pipeline: tokenizer + TLC)
VECTORS = [
    (b"* 1 EXISTS\r\n* 0 RECENT\r\nT1 OK [READ-WRITE] done\r\n", ""),
    (b'* LIST (\\HasNoChildren) "/" "a\\"b\\\\c"\r\nT1 OK done\r\n', ""),
    (b'* LIST () "/" "a"b"\r\n', "C07.QuotedString"),
    (b'* LIST () "/" "a\\b"\r\n', "C07.QuotedString"),
    (b'* LIST () "/" "a\nb"\r\n', "C07.QuotedString"),
    (b'* STATUS "a" b" (MESSAGES 1)\r\n', "C07.QuotedString"),
    (b"* 1 FETCH (BODY[] {5}\r\nabc\r\n)\r\n", ""),
    (b"* 1 FETCH (BODY[] {3}\r\nabc\r\n)\r\n", "C07.ParensBalance"),
    (b"* 1 FETCH (BODY[] {4}\r\nabcdef)\r\n", "C07.LiteralCount"),
    (b"* 1 FETCH (BODY[] {50}\r\nabc)\r\n", "C07.CompleteResponses"),
    (b"* 2 FETCH (BODY[1] {0}\r\n BODY[2] {2}\r\n\r\n BODY[3] {12}\r\n012345678901)\r\n", ""),
    (b"* 2 FETCH (BODY[1] {2}\r\n123)\r\n", "C07.LiteralCount"),
    (b"T1 BAD Command timed out: 'T1 CHECK'", "C07.CompleteResponses"),
    (b"+ idling", "C07.CompleteResponses"),
    (b"T1 NO bad\rthing\r\n", "C07.LineTermination"),
    (b"T1 NO bad\nthing\r\n", "C07.LineTermination"),
    (b"* NO Expected 'DONE' not: x\r\n\r\n", "C07.CompleteResponses"),
    (b"* 1 FETCH (FLAGS (\\Seen)\r\n", "C07.ParensBalance"),
    (b'* STATUS "a" (MESSAGES 1))\r\n', "C07.ParensBalance"),
    (b"garbage\r\n", "C07.ResponseStart"),
    (b'* 1 FETCH (ENVELOPE ("d" "s \xe9\xff{3}" NIL))\r\nT2 BAD "unbalanced ( {5}\r\n', ""),
]


def _scenario(job):
    from harness import respgrammar
    try:
        return job["name"], respgrammar.run_scenario(job), None
    except BaseException:
        import traceback
        return job["name"], None, traceback.format_exc()[-2500:]


def _validate(path):
    r = tlc.run("RespGrammarTrace", "SPECIFICATION Spec\nCHECK_DEADLOCK FALSE\n",
                env={"TRACE_FILE": path, "JAVA_TOOL_OPTIONS": "-Xmx2g"}, workers=2, timeout=3000)
    return {"rc": r.rc, "error": r.error if r.rc != 0 else None, "prints": r.prints, "generated": r.generated,
            "distinct": r.distinct, "cmd": r.cmd, "out": r.out[-1500:], "wall": r.wall}


def _mc(args):
    name, A, P, B, seed, cases_out = args
    env = {"CASES_OUT": cases_out} if cases_out else None
    return name, tlc.run("RespGrammarMC", MC_CFG.format(A=A, P=P, B=B, pieces=", ".join(f'"{p}"' for p in PIECES),
                                                      mp=3 if cases_out else 1),
                         workers=5, timeout=3000, env=env)


_ITEM = re.compile(r"(?<=[ (])(?:ENVELOPE|BODYSTRUCTURE|BODY\[[^\]]*\]?|BODY(?= \()|RFC822[.A-Z]*|FLAGS|INTERNALDATE)")
_START = re.compile(r"(?:^|\r\n)(\* \d+ [A-Z]+|\* [A-Z]+|\+|\S+ (?:OK|NO|BAD)\b)")


def blame(raw, off):
    """descriptive only: which kind of response the offending octet is in"""
    head = raw[:off + 1]
    if "Expected 'DONE' not:" in head[-400:]:
        return "IDLE:not-DONE"
    kind = "?"
    for m in _START.finditer(head):
        kind = m.group(1)
    if kind.startswith("* "):
        kind = re.sub(r"^\d+ ", "", kind[2:])
    elif kind not in ("+", "?"):
        kind = "tagged " + kind.split(" ")[-1]
    if kind == "FETCH":
        item = None
        for m in _ITEM.finditer(head):
            item = m.group(0)
        if item in ("ENVELOPE", "BODYSTRUCTURE", "BODY"):
            kind = item             # the same names as the decode records
        elif item:
            kind = "FETCH:" + re.sub(r"\[.*", "[]", item)
    return kind


def make_jobs(ck, shapes):
    from harness import respgrammar as rg
    thorough = ck.tier == "thorough"
    rng = random.Random(ck.seed * 7919 + 17)
    usable = [s for s in shapes if rg.usable_shape(s)]
    short = [s for s in usable if len(s) <= 2]
    long3 = [s for s in usable if len(s) == 3]
    rng.shuffle(long3)
    hdr_shapes = short + (long3 if thorough else long3[:130])
    if thorough:
        for _ in range(300):
            s = [rng.choice(PIECES) for _ in range(rng.choice([4, 5]))]
            if rg.usable_shape(s):
                hdr_shapes.append(s)
    jobs = []
    per = 18
    for i in range(0, len(hdr_shapes), per):
        jobs.append({"kind": "shapes", "name": f"shapes-{i // per}", "shapes": hdr_shapes[i:i + per],
                     "first_id": 1000 + i, "seed": ck.seed})
    # mailbox names: no folding; '%' and '*' are interesting for LIST
    nshort = [s for s in shapes if "fold" not in s and len(s) <= 2 and shape_ok_name(s)]
    n1 = [s for s in nshort if len(s) == 1]
    n2 = [s for s in nshort if len(s) == 2]
    rng.shuffle(n2)
    name_shapes = n1 + (n2 if thorough else n2[:26])
    if thorough:
        n3 = [s for s in shapes if "fold" not in s and len(s) == 3 and shape_ok_name(s)]
        rng.shuffle(n3)
        name_shapes += n3[:120]
    disk = n1 + n2[:(60 if thorough else 14)]
    per = 3
    for i in range(0, len(name_shapes), per):
        jobs.append({"kind": "names", "name": f"names-{i // per}", "shapes": name_shapes[i:i + per],
                     "disk_shapes": disk if i == 0 else [], "seed": ck.seed})
    nstruct, parts = (90, 10) if thorough else (14, 5)
    sections = rg.SECTIONS if thorough else rg.SECTIONS[:1] + rg.SECTIONS[3:6] + rg.SECTIONS[10:11] + rg.SECTIONS[15:21]
    for p in range(parts):
        jobs.append({"kind": "structures", "name": f"structures-{p}", "seed": ck.seed + 31, "first_id": 5000,
                     "count": nstruct, "of": parts, "part": p, "sections": sections})
    fsec = rg.SECTIONS if thorough else ["BODY[]", "BODY[HEADER]", "BODY[TEXT]<10.300>", "BODY[1]"]
    jobs.append({"kind": "fixtures", "name": "fixtures-one-a", "which": "one", "limit": 11, "sections": fsec})
    jobs.append({"kind": "fixtures", "name": "fixtures-one", "which": "one", "sections": fsec if thorough else ["BODY[]"]})
    jobs.append({"kind": "fixtures", "name": "fixtures-problems", "which": "problems", "sections": fsec})
    jobs.append({"kind": "keywords", "name": "keywords", "keywords": rg.KEYWORDS, "first_id": 7000})
    eshapes = [s for s in shapes if len(s) <= (2 if thorough else 1)] + ([] if thorough else n2[:20])
    per = 12
    for i in range(0, len(eshapes), per):
        jobs.append({"kind": "errors", "name": f"errors-{i // per}", "shapes": eshapes[i:i + per], "first_id": 8000})
    jobs.append({"kind": "idle", "name": "idle-and-failures", "first_id": 9000})
    return jobs


def shape_ok_name(s):
    return s[0] not in ("sp",) and s[-1] not in ("sp",)


def fn(ck, a):
    from harness import respgrammar as rg
    thorough = ck.tier == "thorough"
    tmp = tempfile.mkdtemp(prefix="verif-c07-")
    import time
    t0 = time.time()
    phases = {}
    try:
        # 1. the value shapes (tiny TLC run), then the exhaustive sanity runs in the background
        cases = os.path.join(tmp, "shapes.json")
        _, r = _mc(("shapes", "A_Framing", "P_None", 1, ck.seed, cases))
        if r.rc != 0 or not os.path.exists(cases):
            raise RuntimeError(f"TLC failed to enumerate the value shapes: {r.error or r.out[-800:]}")
        ck.add_tlc("RespGrammarMC:shapes", r)
        with open(cases) as f:
            shapes = sorted(json.load(f))
        tpool = cf.ThreadPoolExecutor(4)
        replaying = bool(getattr(a, "replay", None))
        mc_futs = [tpool.submit(_mc, (n, A, P, B, ck.seed, None))
                   for n, A, P, B in ([] if replaying else UNIVERSES[ck.tier])]
        rdir = os.path.join(os.environ.get("VERIF_EVIDENCE_DIR") or lib.ROOT, "replays", "C07")
        if not replaying and os.path.isdir(rdir):       # replay files of earlier runs would be mistaken for this run's
            for f in os.listdir(rdir):
                if f.endswith(".json"):
                    os.unlink(os.path.join(rdir, f))

        # 2. spec -> code
        if getattr(a, "replay", None):
            with open(a.replay) as f:
                jobs = [json.load(f)["job"]]
        else:
            jobs = make_jobs(ck, shapes)
        ctx = mp.get_context("fork")
        with ctx.Pool(11 if not thorough else 12) as pool:
            results = pool.map(_scenario, sorted(jobs, key=lambda j: j["kind"] != "names"), chunksize=1)
        phases["drive_s"] = round(time.time() - t0, 1)
        traces = []
        jobof = {j["name"]: j for j in jobs}
        for name, trs, err in results:
            if err:
                raise RuntimeError(f"harness failure in {name}: {err}")
            traces += trs
        nvec = len(VECTORS)
        for data, want in VECTORS:
            toks, offs = rg.tokens(data)
            traces.append({"scenario": "vector", "label": repr(data[:50]), "raw": data.decode("latin-1"), "sent": "",
                           "toks": toks, "offs": offs, "dec": [], "want": want})

        # 3. code -> spec
        chunks, cur, size = [], [], 0
        order = sorted(range(len(traces)), key=lambda i: -len(traces[i]["toks"]))
        nch = 10
        bins = [[] for _ in range(nch)]
        load = [0] * nch
        for i in order:
            k = load.index(min(load))
            bins[k].append(i)
            load[k] += len(traces[i]["toks"]) + 20
        paths = []
        for k, part in enumerate(bins):
            if not part:
                continue
            p = os.path.join(tmp, f"tr_{k}.json")
            with open(p, "w") as f:
                json.dump([{"toks": traces[i]["toks"], "dec": traces[i]["dec"]} for i in part], f)
            paths.append(p)
            chunks.append(part)
        with ctx.Pool(len(paths)) as pool:
            vres = pool.map(_validate, paths)
        phases["validate_s"] = round(time.time() - t0 - phases["drive_s"], 1)
        viol = {}      # trace -> list of (where, clause, "G"/"D")
        done = set()
        for part, r in zip(chunks, vres):
            if r["rc"] != 0:
                raise RuntimeError("TLC validation failed: " + (r["error"] or r["out"])[:1500])
            ck.cov["states"] += r["distinct"]
            ck.cov["transitions"] += r["generated"]
            for p in r["prints"]:
                if p and p[0] == "VIOL":
                    viol.setdefault(part[p[1] - 1], []).append((p[2], p[3], p[4]))
                elif p and p[0] == "DONE":
                    done.add(part[p[1] - 1])
        if len(done) != len(traces):
            raise RuntimeError(f"validation incomplete: {len(done)} of {len(traces)} traces consumed")
        ck.cov["tlc_runs"].append({"name": "RespGrammarTrace (10 batches)", "distinct": sum(r["distinct"] for r in vres),
                                   "generated": sum(r["generated"] for r in vres), "complete": True,
                                   "wall_s": round(max(r["wall"] for r in vres), 2)})

        # the pipeline's own sanity: every vector gets exactly the verdict it must get
        for i in range(len(traces) - nvec, len(traces)):
            got = sorted(c for _, c, g in viol.get(i, []) if g == "G")
            want = [traces[i]["want"]] if traces[i]["want"] else []
            if got != want:
                raise RuntimeError(f"vector {traces[i]['label']} judged {got}, must be {want}")

        # the exhaustive sanity runs
        for fut in mc_futs:
            name, r = fut.result()
            ck.add_tlc("RespGrammarMC:" + name, r)
            if r.violated:
                ck.violation("C07.SpecLaw", act="model", where=name,
                             detail=f"TLC: {r.violated} violated by the acceptor itself",
                             replay_obj={"tlc_out": r.out[-6000:]})
            elif r.rc != 0:
                raise RuntimeError(f"TLC failed on RespGrammarMC ({name}): {r.error or r.out[-800:]}")
        tpool.shutdown()
        phases["total_with_exhaustive_s"] = round(time.time() - t0, 1)
        ck.cov["phases"] = phases
        ck.cov["exhaustive"] = all(x["complete"] for x in ck.cov["tlc_runs"])

        # coverage
        real = traces[:len(traces) - nvec]
        ck.cov["traces_validated_against_impl"] = len(real)
        ck.cov["evaluations"] = len(real)
        ck.cov["octets"] = sum(len(t["raw"]) for t in real)
        ck.cov["tokens"] = sum(len(t["toks"]) for t in real)
        ck.cov["decode_pairs"] = sum(len(t["dec"]) for t in real)
        ck.cov["vectors"] = nvec
        ck.cov["value_shapes"] = len(shapes)
        by = {}
        for t in real:
            k = jobof[t["scenario"]]["kind"] if t["scenario"] in jobof else t["scenario"]
            by[k] = by.get(k, 0) + 1
            ck.note_case((k, re.sub(r"\d+", "#", t["label"])[:80]))
        ck.cov["traces_by_scenario"] = by
        ck.cov["rule"] = ("cases = command intervals on the real server (one trace = all octets written to one client "
                          "between two quiescent points); inputs are the TLC-enumerated value shapes rendered as header "
                          "values / display names / MIME parameters / mailbox names (quoted, literal, made on disk) / "
                          "echoed arguments, directed and seeded random MIME structures, the fixture corpus, keywords, "
                          "error paths, IDLE, watchdog, unhandled exception; distinct non-trivial = distinct "
                          "(scenario kind, command label with numbers masked)")
        for t in real:
            if t["dec"] and len(ck.cov["samples"]) < 3:
                ck.sample({"sent": t["sent"][:120], "received": t["raw"][:300], "tokens": t["toks"][:12],
                           "decode_pairs": t["dec"][:2]})

        # verdicts (all from TLC); grouping and blame are descriptive
        groups = {}
        for i, lst in viol.items():
            t = traces[i]
            if t["scenario"] == "vector":
                continue
            has_g = any(g == "G" for _, _, g in lst)
            for where, clause, g in lst:
                if g == "G":
                    off = t["offs"][where - 1] if t["offs"] else 0
                    act = blame(t["raw"], off) + ("/specials" if t.get("specials") else "")
                    groups.setdefault((clause, act), []).append((len(t["raw"]), i, off, None))
                else:
                    d = t["dec"][where - 1]
                    if not d["ok"] and has_g:
                        continue        # unreadable because of the grammar violation already reported
                    sp = t.get("specials") or any('"' in x or "\\" in x for x in d["expected"])
                    groups.setdefault((clause, d["kind"].split(".")[0] + ("/specials" if sp else "")), []).append(
                        (len(t["raw"]), i, -1, d))
        for (clause, act), lst in sorted(groups.items()):
            lst.sort(key=lambda x: (x[0], x[1]))
            _, i, off, d = lst[0]
            t = traces[i]
            if d is None:
                detail = (f"{len(lst)} traces; smallest: sent {t['sent'][:100]!r}; got "
                          f"{t['raw'][max(0, off - 70):off]!r} >>> {t['raw'][off:off + 30]!r}")
            else:
                detail = (f"{len(lst)} pairs; smallest: sent {t['sent'][:100]!r}; {d['kind']} read back "
                          f"{d['decoded']!r} but means {d['expected']!r}" + ("" if d["ok"] else " (unreadable)"))
            ck.violation(clause, act=act, where=f"{t['scenario']}:{t['label']}", detail=detail,
                         replay_obj={"job": jobof.get(t["scenario"]), "label": t["label"], "sent": t["sent"],
                                     "received": t["raw"][:4000], "offset": off, "decode_record": d, "clause": clause,
                                     "others": [traces[j]["label"] for _, j, _, _ in lst[1:8]]})
        ck.assumptions += [
            "in-process IMAPUserServer on a virtual-time loop; the octets are those given to the client writer "
            "(the front-end relays them unchanged: C19)",
            "status responses (tagged, * OK/NO/BAD/BYE/PREAUTH, +) carry free text: only CR/LF matter there; a status "
            "line that ends in {n} is text, not a literal",
            "not demanded: 7-bit-only quoted strings, atom syntax, tag syntax, single spaces between items "
            "(e.g. the missing SP in ')\"MIXED\"' of BODY is accepted)",
            "a closing quote / a literal must be followed by SP, ')' or CRLF (true of every string position of the "
            "RFC 3501 response grammar): this is how an unescaped quote or a wrong count shows at octet level",
            "decode clause: RFC 2047 decoding, header unfolding and UTF-8/latin-1 decoding of 8-bit octets are done in "
            "Python (trusted); runs of white space in display names compare as one space; the mailbox a LIST/STATUS "
            "string describes is the folder that exists on disk after the CREATE",
        ]
        ck.cov["trusted_base"] = ["TLC", "harness/respgrammar.py (byte-class tokenizer, rendering of shapes, decode "
                                  "extraction)", "harness/wire.py (independent response reader, decode clause only)",
                                  "harness/world.py", "email.header (RFC 2047)"]
    finally:
        shutil.rmtree(tmp, ignore_errors=True)


if __name__ == "__main__":
    lib.main(fn, "C07")
