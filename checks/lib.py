"""
Shared machinery of all checks: verdict policy, known findings, evidence files.

Exit codes: 0 = property held on everything explored (possibly with
KNOWN-FINDING lines), 1 = violation (a `VIOLATION property=<id> replay=<path>`
line was printed), 2 = the machinery itself failed.
"""

import json
import os
import sys
import time
import traceback

ROOT = os.path.dirname(os.path.dirname(os.path.abspath(__file__)))
sys.path.insert(0, ROOT)


def load_known():
    p = os.path.join(ROOT, "known_findings.json")
    try:
        with open(p) as f:
            return json.load(f).get("findings", [])
    except FileNotFoundError:
        return []


class Check:
    def __init__(self, prop, tier=None, seed=None, level="model_checking"):
        self.prop = prop
        self.tier = tier or os.environ.get("VERIF_TIER", "quick")
        if self.tier not in ("quick", "thorough"):
            self.tier = "quick"
        self.seed = int(seed if seed is not None else os.environ.get("VERIF_SEED", "0") or 0)
        self.level = level
        self.t0 = time.time()
        self.cov = {"states": 0, "transitions": 0, "traces_validated_against_impl": 0,
                    "evaluations": 0, "distinct_nontrivial": 0, "samples": [],
                    "rule": "", "exhaustive": False, "tlc_runs": [], "trusted_base": [],
                    "checker_cmd": ""}
        self.assumptions = []
        self.violations = []  # dicts: clause, act, where, detail, replay
        self.known_hits = {}
        self.drift = []
        self.known = [k for k in load_known() if k.get("property") == prop]
        self.nontrivial = set()

    # -- bookkeeping -----------------------------------------------------------------
    def add_tlc(self, name, r, exhaustive=None):
        self.cov["states"] += r.distinct
        self.cov["transitions"] += r.generated
        self.cov["tlc_runs"].append({
            "name": name, "distinct": r.distinct, "generated": r.generated, "depth": r.depth,
            "wall_s": round(r.wall, 2), "complete": r.complete if exhaustive is None else exhaustive,
            "coverage": r.coverage or None})
        if not self.cov["checker_cmd"]:
            self.cov["checker_cmd"] = r.cmd

    def sample(self, s, limit=6):
        if len(self.cov["samples"]) < limit:
            self.cov["samples"].append(s)

    def note_case(self, key):
        self.nontrivial.add(key)

    def violation(self, clause, act="", where="", detail="", replay_obj=None):
        v = {"clause": clause, "act": act, "where": where, "detail": detail}
        for k in self.known:
            if k.get("status") == "open" and k.get("clause") == clause and \
                    (not k.get("acts") or act in k["acts"] or
                     any(a.endswith("*") and act.startswith(a[:-1]) for a in k["acts"])):
                self.known_hits.setdefault((clause, k.get("what", "")), 0)
                self.known_hits[(clause, k.get("what", ""))] += 1
                return False
        if replay_obj is not None:
            d = os.path.join(os.environ.get("VERIF_EVIDENCE_DIR") or ROOT, "replays", self.prop)
            os.makedirs(d, exist_ok=True)
            n = len([x for x in self.violations if x.get("replay")])
            path = os.path.join(d, f"{clause.replace('.', '_')}-{self.seed}-{n}.json")
            if n < 20:
                with open(path, "w") as f:
                    json.dump(replay_obj, f)
                v["replay"] = path
        self.violations.append(v)
        return True

    def model_drift(self, action, field, detail=""):
        self.drift.append({"action": action, "field": field, "detail": detail})

    # -- the end ------------------------------------------------------------------------
    def finish(self):
        self.cov["distinct_nontrivial"] = max(self.cov["distinct_nontrivial"], len(self.nontrivial))
        ev = {"property_id": self.prop, "tier": self.tier, "seed": self.seed, "level": self.level,
              "coverage": self.cov, "assumptions": self.assumptions,
              "wall_s": round(time.time() - self.t0, 2), "violations": len(self.violations),
              "known_findings_hit": [{"clause": c, "what": w, "count": n}
                                     for (c, w), n in self.known_hits.items()],
              "model_conformance": "drifted" if self.drift else "conformant",
              "model_drift": self.drift[:10]}
        if not self.cov["samples"]:
            self.cov["samples"] = ["(no sample recorded)"]
        evdir = os.environ.get("VERIF_EVIDENCE_DIR") or os.path.join(ROOT, "evidence")
        os.makedirs(evdir, exist_ok=True)
        # a replay of one recorded case is not the check's evidence: it goes to <id>.replay.json
        evname = f"{self.prop}.replay.json" if getattr(self, "replay_path", None) else f"{self.prop}.json"
        with open(os.path.join(evdir, evname), "w") as f:
            json.dump(ev, f, indent=1, default=str)
        for (c, w), n in self.known_hits.items():
            print(f"KNOWN-FINDING: property={self.prop} {c}: {w} (seen {n}x)")
        seen = set()
        for d in self.drift:
            key = (d["action"], d["field"])
            if key not in seen:
                seen.add(key)
                print(f"MODEL-DRIFT property={self.prop} action={d['action']} field={d['field']} {d['detail'][:120]}")
        rc = 0
        shown = set()
        for v in self.violations:
            rc = 1
            key = (v["clause"], v["act"])
            if key in shown and len(shown) > 0 and not v.get("replay"):
                continue
            shown.add(key)
            print(f"VIOLATION property={self.prop} replay={v.get('replay', 'n/a')} "
                  f"clause={v['clause']} act={v['act']} at={v['where']} {v['detail'][:160]}")
        print(f"[{self.prop}] tier={self.tier} seed={self.seed} states={self.cov['states']} "
              f"transitions={self.cov['transitions']} traces={self.cov['traces_validated_against_impl']} "
              f"impl_steps={self.cov['evaluations']} violations={len(self.violations)} "
              f"known={sum(self.known_hits.values())} drift={len(self.drift)} "
              f"wall={ev['wall_s']}s")
        return rc


def main(fn, prop):
    """Run check function fn(ck) with machinery-failure handling."""
    import argparse

    ap = argparse.ArgumentParser()
    ap.add_argument("--tier", default=None)
    ap.add_argument("--seed", type=int, default=None)
    ap.add_argument("--replay", default=None)
    a = ap.parse_args(sys.argv[1:])
    ck = Check(prop, a.tier, a.seed)
    ck.replay_path = a.replay
    try:
        fn(ck, a)
        rc = ck.finish()
    except SystemExit:
        raise
    except BaseException:
        traceback.print_exc()
        print(f"[{prop}] MACHINERY FAILURE")
        sys.exit(2)
    sys.exit(rc)
