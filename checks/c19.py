"""C19 -- the front-end relays exactly the commands the byte stream denotes.

  1. TLC checks spec/FramingMC.tla exhaustively: a bounded universe of client
     byte streams described as items (commands with (non-)synchronising
     literals whose data looks like commands / announcements / CRLF, empty
     lines, over-limit literals and commands, POP3 lines, response streams)
     is rendered to octets; for every stream and every segmentation at the
     interesting offsets the octet-level reference tokenizer of
     spec/Framing.tla must give exactly what the items denote, prefix-stable,
     and the verdict layer must accept the reference and reject corruptions.
  2. The same TLC run writes the streams and their cut offsets; every stream
     is fed, for every chosen segmentation, segment by segment (scheduling
     point after each) into the real IMAPClient.start / POP3Client.start with
     the real IMAPClientProxy.run de-framing behind it, and into the real
     msgs_to_client relays (spec -> code).
  3. Everything the code wrote to the client / pushed to the user process /
     de-framed is validated by TLC (spec/FramingTrace.tla) against the
     reference semantics (code -> spec).  Verdicts are the clauses
     C19.RelayedExact, C19.ContinuationExact, C19.OverLimitRefused,
     C19.StaysInSync, C19.FramingExact, C19.ProxyDeframes,
     C19.ResponsesUnmodified.
"""
import json
import multiprocessing as mp
import os
import shutil
import sys
import tempfile

sys.path.insert(0, os.path.dirname(os.path.dirname(os.path.abspath(__file__))))
from checks import lib  # noqa: E402
from harness import framing, tlc  # noqa: E402

CFG = """SPECIFICATION Spec
CONSTANTS
  MX = {MX}
  Depth = {Depth}
  Wide = {Wide}
  Big = {Big}
  Rand = {Rand}
  RandLen = {RandLen}
  RunLens = {RunLens}
INVARIANT AgreesWithItems
INVARIANT PrefixLaw
INVARIANT LiteralsOpaque
INVARIANT SelfCheck
INVARIANT RespLaw
CHECK_DEADLOCK FALSE
"""
RUNS = "{5, 65535, 65536, 131071, 131072, 300000}"
REAL_MAX = 10 * 1024 * 1024
JOPTS = "-Xss256m"     # the reference tokenizer recurses once per octet token

QUICK = [
    # name, constants, max cuts per exhaustive subset, random subsets per stream
    ("max40-3cmds", dict(MX=40, Depth=3, Wide="TRUE", Big="FALSE", Rand=60, RandLen=5, RunLens=RUNS), 2, 4),
    ("true-size", dict(MX=REAL_MAX, Depth=1, Wide="FALSE", Big="FALSE", Rand=0, RandLen=1, RunLens="{}"), 0, 1),
]
THOROUGH = [
    ("max40-3cmds-big", dict(MX=40, Depth=3, Wide="TRUE", Big="TRUE", Rand=3000, RandLen=6, RunLens=RUNS), 2, 12),
    ("max23-2cmds", dict(MX=23, Depth=2, Wide="TRUE", Big="TRUE", Rand=300, RandLen=4, RunLens="{}"), 2, 8),
    ("true-size", dict(MX=REAL_MAX, Depth=2, Wide="FALSE", Big="FALSE", Rand=0, RandLen=1, RunLens="{}"), 1, 3),
]


def _validate_chunk(path):
    r = tlc.run("FramingTrace", "SPECIFICATION Spec\nCHECK_DEADLOCK FALSE\n",
                env={"TRACE_FILE": path, "JAVA_TOOL_OPTIONS": JOPTS + " -Xmx3g"}, workers=1, timeout=3000)
    return {"rc": r.rc, "error": r.error if r.rc != 0 else None, "prints": r.prints,
            "generated": r.generated, "distinct": r.distinct, "cmd": r.cmd, "out": r.out[-1500:]}


def fn(ck, a):
    plan = THOROUGH if ck.tier == "thorough" else QUICK
    tmp = tempfile.mkdtemp(prefix="verif-c19-")
    try:
        cases = []
        if getattr(a, "replay", None):
            # re-run one recorded case (file written by ck.violation) and judge it again
            with open(a.replay) as f:
                rp = json.load(f)
            cases.append({"proto": rp["proto"], "mx": rp["mx"], "s": rp["stream_tokens"], "cuts": rp["cuts"],
                          "universe": "replay", "k": len(rp["cuts"]), "nrand": 0})
            plan = []
        for name, consts, k, nrand in plan:
            out = os.path.join(tmp, f"cases_{name}.json")
            r = tlc.run("FramingMC", CFG.format(**consts), workers=16, seed=ck.seed + 1,
                        env={"CASES_OUT": out, "JAVA_TOOL_OPTIONS": JOPTS}, timeout=3000)
            ck.add_tlc(f"exhaustive:{name}", r)
            if r.violated:
                ck.violation("C19.SpecLaw", act="model", where=name,
                             detail=f"TLC: {r.violated} violated by the reference semantics itself",
                             replay_obj={"tlc_out": r.out[-6000:]})
                continue
            if r.rc != 0 or not os.path.exists(out):
                raise RuntimeError(f"TLC failed on FramingMC ({name}): {r.error or r.out[-800:]}")
            with open(out) as f:
                for c in json.load(f):
                    c["universe"] = name
                    c["k"], c["nrand"] = k, nrand
                    cases.append(c)
        ck.cov["exhaustive"] = all(x["complete"] for x in ck.cov["tlc_runs"])

        # spec -> code: run every stream under every chosen segmentation
        jobs = [(i, c, c["k"], c["nrand"], ck.seed) for i, c in enumerate(cases)]
        order = sorted(jobs, key=lambda j: -len(j[1]["cuts"]) ** max(1, j[2]) * (50 if j[1]["mx"] > 10 ** 6 else 1))
        ctx = mp.get_context("fork")
        with ctx.Pool(14) as pool:
            results = pool.map(framing.run_case, order, chunksize=4)
        runs = 0
        for idx, obs, n, limit in results:
            cases[idx]["obs"] = obs
            cases[idx]["limit"] = limit or 0
            runs += n

        # code -> spec: TLC validates the observations
        nchunks = 14
        paths = []
        index = []
        for ci in range(nchunks):
            part = [i for i in range(len(cases)) if i % nchunks == ci]
            if not part:
                continue
            p = os.path.join(tmp, f"obs_{ci}.json")
            with open(p, "w") as f:
                json.dump([{"proto": cases[i]["proto"], "mx": cases[i]["mx"], "limit": cases[i]["limit"],
                            "s": cases[i]["s"],
                            "obs": [{"n": o["n"], "ev": o["ev"]} for o in cases[i]["obs"]]} for i in part], f)
            paths.append(p)
            index.append(part)
        with ctx.Pool(len(paths)) as pool:
            vres = pool.map(_validate_chunk, paths)
        viols = []
        done = set()
        for part, r in zip(index, vres):
            if r["rc"] != 0:
                raise RuntimeError("TLC validation failed: " + (r["error"] or r["out"])[:1200])
            ck.cov["states"] += r["distinct"]
            ck.cov["transitions"] += r["generated"]
            for p in r["prints"]:
                if p and p[0] == "VIOL":
                    viols.append((part[p[1] - 1], p[2] - 1, p[3], p[4]))
                elif p and p[0] == "UNSUP":
                    raise RuntimeError(f"stream outside the domain was generated: {cases[part[p[1] - 1]]['s']}")
                elif p and p[0] == "DONE":
                    done.add(part[p[1] - 1])
        if len(done) != len(cases):
            raise RuntimeError(f"validation incomplete: {len(done)} of {len(cases)} cases consumed")

        ck.cov["traces_validated_against_impl"] = runs
        ck.cov["evaluations"] = runs
        ck.cov["streams"] = len(cases)
        ck.cov["streams_by_kind"] = {}
        for c in cases:
            key = f"{c['universe']}:{c['proto']}"
            ck.cov["streams_by_kind"][key] = ck.cov["streams_by_kind"].get(key, 0) + 1
            for o in c["obs"]:
                ck.note_case((c["proto"], c["mx"] > 10 ** 6, tuple(e[0] for e in o["ev"])))
        ck.cov["rule"] = ("cases = (stream, segmentation) pairs fed into the real front-end / relay; "
                          "streams come from the TLC-enumerated universe, segmentations are all subsets "
                          "of the interesting offsets up to the stated size, all offsets, every octet, and "
                          "seeded random subsets; distinct non-trivial = distinct (protocol, true-size?, "
                          "sequence of event kinds observed)")
        for i in (5, len(cases) // 3, len(cases) // 2):
            if i < len(cases) and cases[i]["obs"]:
                ck.sample({"stream": framing.render(cases[i]["s"]), "proto": cases[i]["proto"],
                           "segmentations": sum(o["n"] for o in cases[i]["obs"]),
                           "observed": [[e[0], framing.render(e[1], 80)] for e in cases[i]["obs"][0]["ev"]]})

        groups = {}
        for ci, oi, clause, act in viols:
            groups.setdefault((clause, act), []).append((ci, oi))
        for (clause, act), lst in sorted(groups.items()):
            lst.sort(key=lambda x: (len(cases[x[0]]["s"]), x[0]))
            ci, oi = lst[0]
            c, o = cases[ci], cases[ci]["obs"][oi]
            nseg = sum(cases[x]["obs"][y]["n"] for x, y in lst)
            ck.violation(clause, act=act, where=f"{c['universe']}:{c['proto']}:case{ci}",
                         detail=(f"{len(set(x for x, _ in lst))} streams / {nseg} segmentations; smallest: "
                                 f"stream={framing.render(c['s'], 120)!r} max={c['mx']} observed="
                                 + " ".join(f"{e[0]}:{framing.render(e[1], 60)!r}" for e in o["ev"])),
                         replay_obj={"proto": c["proto"], "mx": c["mx"], "stream_tokens": c["s"],
                                     "stream": framing.render(c["s"], 2000), "cuts": o["seg"],
                                     "observed": [[e[0], framing.render(e[1], 400)] for e in o["ev"]],
                                     "clause": clause, "blamed_class": act,
                                     "other_streams": [framing.render(cases[x]["s"], 200) for x, _ in lst[1:6]]})
        ck.assumptions += [
            "front-ends driven in-process: fed asyncio.StreamReader (asimap's own limits: default 64 KiB on "
            "the client side, the limit asimap passes to open_connection on the relay side), recording writer; "
            "the user process is replaced by a recording push feeding the real IMAPClientProxy.run",
            "MAX_INPUT_SIZE lowered through the module constants of asimap.server / asimap.user_server for the "
            "exhaustive universes; the true 10 MiB value is used in the 'true-size' universe",
            "domain: lines without trailing white space before CRLF; a synchronising literal inside a command "
            "refused for its total size (or inside the discarded rest of a refused command) is outside the domain "
            "because the client's next octets depend on a choice the property leaves open",
            "a BAD is allowed (not required) for an empty line; several BADs for one refused command are allowed; "
            "closing the connection after refusing a non-synchronising over-limit literal is allowed (RFC 7888)",
        ]
        ck.cov["trusted_base"] = ["TLC", "harness/framing.py (token<->octet rendering, event recording)",
                                  "asyncio.StreamReader"]
    finally:
        shutil.rmtree(tmp, ignore_errors=True)


if __name__ == "__main__":
    lib.main(fn, "C19")
