"""C02 -- UIDs strictly ascending and never reused; UIDNEXT and UIDVALIDITY honest."""
import os, sys
sys.path.insert(0, os.path.dirname(os.path.dirname(os.path.abspath(__file__))))
from checks import lib, mailfam

ACTS = ["Deliver", "Select", "Noop", "Idle", "Store", "Fetch", "Expunge", "Append"]
ALL = ACTS + ["Copy", "Move", "Status"]
QUICK = {
    "exhaustive": [("1sess-2mbox-4msgs-depth6", dict(depth=6, maxid=4, sess=("A",), mbox=("inbox", "b"), acts=ALL))],
    "simulate": [("2mbox", dict(mbox=("inbox", "b"), maxid=6, maxpend=6, sets="SetsMedium", acts=ALL), 50, 24)],
    "random": 70,
    "gen": dict(length=34, weights={"append": 10, "deliver": 10, "expunge": 8, "uidexpunge": 4, "copy": 8, "move": 8,
                                    "restart": 3, "create": 3, "delete": 3, "rename": 3, "status": 4, "store": 8,
                                    "fetch": 2, "fetchbody": 1, "search": 0, "idle": 1, "done": 1},
                world=dict(pack_limit=3, pack_ratio=0.75)),
   }
THOROUGH = {
    "exhaustive": [("1sess-2mbox-4msgs-depth7", dict(depth=7, maxid=4, sess=("A",), mbox=("inbox", "b"), acts=ALL)),
                   ("2sess-2mbox-depth6", dict(depth=6, maxid=4, mbox=("inbox", "b"), acts=ALL))],
    "simulate": [("2mbox", dict(mbox=("inbox", "b"), maxid=8, maxpend=8, sets="SetsMedium", acts=ALL,
                                 modes=("+", "-", "=")), 800, 32)],
    "random": 800,
    "gen": dict(length=50, weights={"append": 10, "deliver": 10, "expunge": 8, "uidexpunge": 4, "copy": 8, "move": 8,
                                    "restart": 3, "create": 3, "delete": 3, "rename": 3, "status": 4, "store": 8,
                                    "fetch": 2, "fetchbody": 1, "search": 0, "idle": 1, "done": 1},
                world=dict(pack_limit=3, pack_ratio=0.75)),
    "tlc_timeout": 1500,
   }

def apalache(ck):
    """Unbounded part: the UID allocation discipline (spec/apalache/UidAlloc.tla, the abstraction of what
    MailStore's ResyncRes / DoAppend / CopyMove do with `next`) has an inductive invariant that implies
    C02's ascending / never reused / UIDNEXT above all - checked with Apalache (Init implies IndInv;
    IndInv and Next imply IndInv'; the action invariants from any IndInv state), plus a negative control."""
    import shutil, subprocess, tempfile, time
    if not shutil.which("apalache-mc"):
        ck.cov["apalache"] = {"run": False, "why": "apalache-mc not on PATH"}
        return
    out = tempfile.mkdtemp(prefix="verif-apa-")
    spec = os.path.join(out, "spec")          # Apalache leaves files next to the module: work on a copy
    shutil.copytree(os.path.join(lib.ROOT, "spec", "apalache"), spec)
    runs = [("UidAlloc", "Init", "IndInv", 0, True), ("UidAlloc", "IndInit", "IndInv", 1, True),
            ("UidAlloc", "IndInit", "NextAboveAll", 0, True), ("UidAlloc", "IndInit", "NeverReusedAct", 1, True),
            ("UidAlloc", "IndInit", "NextNeverDecreasesAct", 1, True),
            ("UidAllocBad", "IndInit", "IndInv", 1, False)]          # UIDNEXT raised by one too few: must be rejected
    res = []
    try:
        for mod, init, inv, length, want_ok in runs:
            t0 = time.time()
            try:
                p = subprocess.run(["apalache-mc", "check", f"--init={init}", f"--inv={inv}", f"--length={length}",
                                    f"--out-dir={out}", f"{mod}.tla"], cwd=spec, capture_output=True, text=True, timeout=900)
                txt = p.stdout + p.stderr
                ok = "EXITCODE: OK" in txt
                viol = "EXITCODE: ERROR (12)" in txt
            except subprocess.TimeoutExpired:
                txt, ok, viol = "timeout", False, False
            res.append({"module": mod, "init": init, "inv": inv, "length": length, "holds": ok, "violated": viol,
                        "expected_to_hold": want_ok, "wall_s": round(time.time() - t0, 1)})
            if want_ok and viol:
                ck.violation("C02.ModelViolatesProperty", act="model", where=f"apalache {mod} {inv}",
                             detail=f"Apalache: {inv} does not hold from {init} (length {length})",
                             replay_obj={"apalache": txt[-4000:]})
            elif want_ok and not ok:
                ck.assumptions.append(f"Apalache run {mod}/{init}/{inv} did not finish ({txt[-120:].strip()!r}); not counted")
            elif not want_ok and ok:
                raise RuntimeError(f"negative control {mod} was accepted by Apalache: {txt[-300:]}")
            elif not want_ok and not viol:
                ck.assumptions.append(f"Apalache negative control {mod} did not finish; not counted")
    finally:
        shutil.rmtree(out, ignore_errors=True)
    ck.cov["apalache"] = {"run": True, "checker": "apalache-mc check --init=.. --inv=.. --length=0|1",
                          "note": "inductive invariant: holds for histories of any length; the arbitrary pre-state of the "
                                  "inductive step is bounded by Gen(5) messages / Gen(8) assigned UIDs", "runs": res}


def _vv(seed):
    from harness import vvrace
    try:
        return seed, vvrace.execute(seed), None
    except BaseException:
        import traceback
        return seed, None, traceback.format_exc()[-1500:]


def vvrace_stage(ck):
    """Mailboxes created concurrently by several sessions, names then freed and taken again: the recorded
    (name, UIDVALIDITY, incarnation) observations are validated by TLC (spec/TraceVv.tla)."""
    import json, multiprocessing as mp, shutil, tempfile
    from harness import tlc
    n = 400 if ck.tier == "thorough" else 60
    seeds = [ck.seed * 100000 + 70000 + i for i in range(n)]
    with mp.get_context("fork").Pool(14) as pool:
        res = pool.map(_vv, seeds, chunksize=2)
    runs, origin = [], []
    for seed, out, err in res:
        if err:
            raise RuntimeError(f"vvrace harness failure seed {seed}: {err}")
        obs, log = out
        runs.append(obs)
        origin.append((seed, log))
    tmp = tempfile.mkdtemp(prefix="verif-vv-")
    try:
        p = os.path.join(tmp, "vv.json")
        json.dump(runs, open(p, "w"))
        r = tlc.run("TraceVv", "SPECIFICATION Spec\nCHECK_DEADLOCK FALSE\n", env={"TRACE_FILE": p}, workers=1, timeout=1800)
        if r.rc != 0:
            raise RuntimeError(f"TraceVv failed: {r.error or r.out[-800:]}")
        done = {pr[1] for pr in r.prints if pr and pr[0] == "DONE"}
        if len(done) != len(runs):
            raise RuntimeError("TraceVv did not consume every run")
        ck.cov["states"] += r.distinct
        ck.cov["transitions"] += r.generated
        ck.cov["concurrent_create_runs"] = len(runs)
        ck.cov["concurrent_create_observations"] = sum(len(x) for x in runs)
        ck.cov["concurrent_create_runs_with_name_reuse"] = sum(1 for x in runs if len({(o["name"], o["inc"]) for o in x}) > len({o["name"] for o in x}))
        for pr in r.prints:
            if pr and pr[0] == "VIOL":
                seed, log = origin[pr[1] - 1]
                o = runs[pr[1] - 1][pr[2] - 1]
                ck.violation(pr[3], act="Create||Create", where=f"vvrace seed {seed}",
                             detail=json.dumps({"observed": o, "history": log})[:600],
                             replay_obj={"harness": "harness/vvrace.py", "seed": seed, "observations": runs[pr[1] - 1], "history": log})
    finally:
        shutil.rmtree(tmp, ignore_errors=True)


def fn(ck, a):
    mailfam.run_family(ck, ["C02."], model_prop="P_C0203", quick=QUICK, thorough=THOROUGH)
    if not getattr(ck, "replay_path", None):
        vvrace_stage(ck)
    apalache(ck)

if __name__ == "__main__":
    lib.main(fn, "C02")
