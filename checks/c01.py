"""C01 -- message sequence numbers never desynchronise between server and session."""
import os, sys
sys.path.insert(0, os.path.dirname(os.path.dirname(os.path.abspath(__file__))))
from checks import lib, mailfam

ACTS = ["Deliver", "Select", "Noop", "Idle", "Store", "Fetch", "Expunge", "Append"]
QUICK = {
    "exhaustive": [("2sess-1mbox-3msgs-depth7", dict(depth=7, maxid=3))],
    "simulate": [("2mbox", dict(mbox=("inbox", "b"), maxid=5, maxpend=6, sets="SetsMedium",
                                 acts=ACTS + ["Copy", "Move", "Search"]), 60, 22)],
    "random": 60,
    "gen": dict(length=30),
}
THOROUGH = {
    "exhaustive": [("2sess-1mbox-3msgs-depth8", dict(depth=8, maxid=3)),
                   ("2sess-2mbox-depth6", dict(depth=6, maxid=3, mbox=("inbox", "b"),
                                               acts=ACTS + ["Copy", "Move", "Search"]))],
    "simulate": [("2mbox", dict(mbox=("inbox", "b"), maxid=6, maxpend=8, sets="SetsMedium",
                                 modes=("+", "-", "="), silents="{FALSE, TRUE}",
                                 acts=ACTS + ["Copy", "Move", "Search"]), 800, 30)],
    "random": 800,
    "gen": dict(length=45),
    "tlc_timeout": 1500,
}

def fn(ck, a):
    mailfam.run_family(ck, ["C01."], model_prop="P_C01", quick=QUICK, thorough=THOROUGH)

if __name__ == "__main__":
    lib.main(fn, "C01")
