"""C18 -- no access without the right password; brute-force throttling holds.

  1. TLC explores spec/Throttle.tla (timed attempts from several user names and
     addresses against the two throttle tables, integer clock, ages capped at
     Purge+1) to a COMPLETE state graph for several instances and checks the
     property layer (spec/ThrottleDefs.tla) on every transition, the Link
     invariant between mechanism and failure history, and non-vacuity
     witnesses; spec/ThrottleCases.tla adds an inductive argument with the real
     constants (4, 5, 60 s) over every Link-admitted pair of table entries.
  2. spec -> code: (a) one implementation test per abstract transition: every
     Link-admitted pre-state (with several concrete ages per region) is
     installed into BAD_USER_AUTHS / BAD_IP_AUTHS, the clock set, the real
     check_allow / login_failed called; (b) behaviours TLC generated from the
     model, seeded random timed sequences and directed histories are executed
     through the real IMAP and POP3 front ends with a stub user process.
  3. code -> spec: everything recorded is validated by TLC
     (spec/ThrottleTrace.tla): clause violations decide the verdict, differences
     from the mechanism layer are model drift.
"""
import json
import multiprocessing as mp
import os
import random
import shutil
import sys
import tempfile
from concurrent.futures import ThreadPoolExecutor

sys.path.insert(0, os.path.dirname(os.path.dirname(os.path.abspath(__file__))))
from checks import lib  # noqa: E402
from harness import tlc  # noqa: E402

PURGE, MAXU, MAXA = 60, 4, 5


def sset(xs):
    return "{" + ", ".join(f'"{x}"' for x in xs) + "}"


def model_cfg(*, purge, mu, ma, users, addrs, disabled=(), unknown=(), protos=("imap",),
              creds=("good", "wrong"), steps=(1,), ncmds=1, check=True, view=True, witness=None):
    s = f"""SPECIFICATION Spec
CONSTANTS
  Purge = {purge}
  MaxUser = {mu}
  MaxAddr = {ma}
  Users = {sset(users)}
  Disabled = {sset(disabled)}
  Unknown = {sset(unknown)}
  Addrs = {sset(addrs)}
  Protos = {sset(protos)}
  Creds = {sset(creds)}
  Steps = {{{", ".join(str(x) for x in steps)}}}
  NCmds = {ncmds}
CHECK_DEADLOCK FALSE
"""
    if witness:
        s += ("PROPERTY " if witness == "W_NoRelease" else "INVARIANT ") + witness + "\n"
    elif check:
        s += ("INVARIANT TypeOK\nINVARIANT Link\nPROPERTY P_C18\nPROPERTY LockedOut\n"
              "PROPERTY ReleasedAndBelow\nPROPERTY WrongNeverAuthenticates\n")
    if view:
        s += "VIEW CoreView\n"
    return s


U2, A2 = ("alice", "bob"), ("a1", "a2")
EXH_QUICK = [
    ("2u2a-max1,2-purge3-pop3+empty", dict(purge=3, mu=1, ma=2, users=U2, addrs=A2,
                                           protos=("imap", "pop3"), creds=("good", "wrong", "empty"))),
    ("1u1a-max4,5-purge60", dict(purge=60, mu=4, ma=5, users=U2[:1], addrs=A2[:1])),
    ("2u1a-max4,5-purge3", dict(purge=3, mu=4, ma=5, users=U2, addrs=A2[:1])),
    ("1u2a-max4,5-purge3", dict(purge=3, mu=4, ma=5, users=U2[:1], addrs=A2)),
    ("2u1a-disabled+unknown-max4,5-purge2", dict(purge=2, mu=4, ma=5, users=("dis", "ghost"), addrs=A2[:1],
                                                 disabled=("dis",), unknown=("ghost",),
                                                 creds=("good", "wrong", "empty"))),
]
EXH_THOROUGH = EXH_QUICK + [
    ("2u2a-max2,3-purge3", dict(purge=3, mu=2, ma=3, users=U2, addrs=A2)),
    ("2u1a-max4,5-purge60", dict(purge=60, mu=4, ma=5, users=U2, addrs=A2[:1])),
    ("3u1a-max1,2-purge4", dict(purge=4, mu=1, ma=2, users=("alice", "bob", "dis"), addrs=A2[:1],
                                disabled=("dis",))),
    # real thresholds, 2 users x 2 addresses (6.6 M states); given up, not failed, on time-out
    ("optional:2u2a-max4,5-purge2", dict(purge=2, mu=4, ma=5, users=U2, addrs=A2)),
]
WITNESS_CFG = dict(purge=3, mu=4, ma=5, users=U2, addrs=A2[:1])
WITNESSES = ["W_NoUserLock", "W_NoAddrLock", "W_NoOpenInstant", "W_NoRelease"]
SIM_CFG = dict(purge=PURGE, mu=MAXU, ma=MAXA, users=("alice", "bob", "dis", "ghost"),
               disabled=("dis",), unknown=("ghost",), addrs=A2, protos=("imap", "pop3"),
               creds=("good", "wrong", "empty"), steps=(1, 2, 30, 59, 60, 61), ncmds=3,
               check=False, view=False)

REPS_QUICK = {"lt": [0, 59], "eq": [60], "gt": [61, 86400]}
REPS_THOROUGH = {"lt": [0, 1, 30, 58, 59], "eq": [60], "gt": [61, 62, 120, 86400, 10 ** 7]}


def find_print(out, name):
    """A PrintT'ed tuple <<"name", ...>> that TLC broke over several lines."""
    import re
    mm = re.search(r'<<\s*"%s"' % name, out)
    if mm is None:
        raise RuntimeError(f"TLC did not print {name}")
    i = mm.start()
    depth, j = 0, i
    while j < len(out):
        if out.startswith("<<", j):
            depth += 1
            j += 2
            continue
        if out.startswith(">>", j):
            depth -= 1
            j += 2
            if depth == 0:
                break
            continue
        j += 1
    return tlc.parse_tla_value(out[i:j])


# ---------------------------------------------------------------------------
def concretise(ucases, acases, reps, rng, extra_random=0):
    """Abstract entries <<c, s, l, region>> -> unit cases with concrete ages."""
    def conc(cases):
        res = []
        for c, s, l, r in cases:
            if l == 0:
                res.append(([0, 0], [0, 0, 0]))
                continue
            ages = list(reps[r])
            for _ in range(extra_random):
                ages.append({"lt": rng.randrange(0, 60), "eq": 60,
                             "gt": rng.choice([rng.randrange(61, 200), rng.randrange(61, 10 ** 6)])}[r])
            for ag in sorted(set(ages)):
                res.append(([c, ag] if c > 0 else [0, 0], [s, l, ag]))
        return res
    us, as_ = conc(ucases), conc(acases)
    cases = []
    for tu, gu in us:
        for ta, ga in as_:
            for good in (True, False):
                cases.append({"gu": gu, "ga": ga, "tu": tu, "ta": ta, "good": good})
    return cases


def _job(job):
    kind, payload, seed = job
    try:
        from harness import throttle as T
        if kind == "unit":
            return {"kind": kind, "traces": [[{"act": "Init"}] + T.run_unit(payload)], "meta": ["unit"]}
        names = [p[0] for p in payload]
        trs = T.run_plans([p[1] for p in payload], seed=seed)
        return {"kind": kind, "traces": trs, "meta": names}
    except BaseException:  # noqa
        import traceback
        return {"kind": kind, "error": traceback.format_exc()[-2000:]}


def _validate(path):
    r = tlc.run("ThrottleTrace", f"SPECIFICATION Spec\nCONSTANTS\n Purge = {PURGE}\n MaxUser = {MAXU}\n"
                f" MaxAddr = {MAXA}\nCHECK_DEADLOCK FALSE\n",
                env={"THROTTLE_FILE": path}, workers=1, timeout=3000)
    return {"rc": r.rc, "error": r.error, "prints": r.prints, "generated": r.generated,
            "distinct": r.distinct, "wall": r.wall, "cmd": r.cmd}


def chunks(xs, n):
    size = max(1, (len(xs) + n - 1) // n)
    return [xs[i:i + size] for i in range(0, len(xs), size)]


# ---------------------------------------------------------------------------
def fn(ck, args):
    from harness import throttle as T

    thorough = ck.tier == "thorough"
    rng = random.Random(ck.seed)
    tmp = tempfile.mkdtemp(prefix="verif-c18-")
    try:
        # 1. model checking ------------------------------------------------------------
        exh = EXH_THOROUGH if thorough else EXH_QUICK
        cases_cfg = (f"SPECIFICATION Spec\nCONSTANTS\n Purge = {PURGE}\n MaxUser = {MAXU}\n"
                     f" MaxAddr = {MAXA}\n Full = {'TRUE' if thorough else 'FALSE'}\nCHECK_DEADLOCK FALSE\n")
        simpre = os.path.join(tmp, "sim")
        nsim, simdepth = (1500, 80) if thorough else (150, 60)
        runs = [("exhaustive:" + n, "Throttle", model_cfg(**kw),
                 dict(workers=8, timeout=1000) if n.startswith("optional:") else dict(workers=4))
                for n, kw in exh]
        runs += [("witness:" + w, "Throttle", model_cfg(witness=w, **WITNESS_CFG), dict(workers=1))
                 for w in WITNESSES]
        runs += [("static:cases+inductive", "ThrottleCases", cases_cfg, dict(workers=1))]
        runs += [("simulate", "Throttle", model_cfg(**SIM_CFG),
                  dict(workers=1, simulate=f"file={simpre},num={nsim}", depth=simdepth, seed=ck.seed + 1))]
        with ThreadPoolExecutor(8) as ex:
            futs = [(n, ex.submit(tlc.run, mod, cfg, **{"timeout": 1500 if thorough else 300, **kw}))
                    for n, mod, cfg, kw in runs]
            results = {n: f.result() for n, f in futs}
        for n, r in results.items():
            if n.startswith("witness:"):
                ck.add_tlc(n, r, exhaustive=False)
                if not r.violated:
                    raise RuntimeError(f"non-vacuity witness {n} was not reached: {r.error or r.out[-400:]}")
                continue
            ck.add_tlc(n, r, exhaustive=None if n.startswith("exhaustive:") else False)
            if "optional:" in n and r.error == "timeout":
                ck.cov.setdefault("given_up", []).append(n)
                continue
            if r.violated:
                ck.violation("C18.ModelViolatesPropertyLayer", act="model", where=n,
                             detail=f"TLC: {r.violated} violated by the protocol model",
                             replay_obj={"tlc_out": r.out[-6000:]})
            elif r.rc != 0:
                raise RuntimeError(f"TLC failed ({n}): {r.error}")
            if n.startswith("exhaustive:") and not r.complete and not r.violated:
                raise RuntimeError(f"state graph not completed ({n})")
        ck.cov["exhaustive"] = True
        st = results["static:cases+inductive"]
        flags = {p[0]: p[1] for p in st.prints if len(p) == 2}
        for law in ("AttemptInductive", "TickInductive", "AbstractionCovers"):
            if flags.get(law) is not True:
                ck.violation("C18.ModelViolatesPropertyLayer", act="static", where=law,
                             detail=f"{law} = {flags.get(law)} for Purge={PURGE}, MaxUser={MAXU}, MaxAddr={MAXA}",
                             replay_obj={"tlc_out": st.out[-3000:]})
        ucases = find_print(st.out, "UCASES")[1]
        acases = find_print(st.out, "ACASES")[1]
        ck.cov["static"] = {"abstract_user_entries": len(ucases), "abstract_addr_entries": len(acases),
                            "link_pairs": [p[1:] for p in st.prints if p and p[0] == "NPAIRS"],
                            "full_ages": thorough, "laws": flags}

        # 2. implementation ---------------------------------------------------------------
        unit = concretise(ucases, acases, REPS_THOROUGH if thorough else REPS_QUICK, rng,
                          extra_random=3 if thorough else 0)
        jobs = [("unit", part, 0) for part in chunks(unit, 28)]
        behaviours = []
        import glob
        for f in sorted(glob.glob(simpre + "_*")):
            behaviours.append(T.parse_behaviour(f))
        plans = [("directed:" + k, v) for k, v in T.directed_plans().items()]
        for i, b in enumerate(behaviours):
            plan, _pred = T.plan_from_behaviour(b)
            r2 = random.Random(ck.seed * 7919 + i)
            plan = [(p[0], p[1], p[2], r2.randrange(1, T.NCMDS + 1)) if p[0] == "cmd" else p for p in plan]
            plans.append((f"tlc-behaviour:{i}", plan))
        nrand, rlen = (6000, 90) if thorough else (500, 60)
        for i in range(nrand):
            sd = ck.seed * 1000003 + i
            plans.append((f"random:{sd}", T.random_plan(sd, rlen)))
        for j, part in enumerate(chunks(plans, 28)):
            jobs.append(("e2e", part, ck.seed * 100 + j))
        ctx = mp.get_context("fork")
        with ctx.Pool(14) as pool:
            res = pool.map(_job, jobs, chunksize=1)
        traces, meta = [], []
        for r in res:
            if r.get("error"):
                raise RuntimeError("harness failure: " + r["error"])
            traces += r["traces"]
            meta += [(r["kind"], m) for m in r["meta"]]
        plan_of = dict(plans)

        # 3. validation -------------------------------------------------------------------
        order = list(range(len(traces)))
        parts = chunks(order, 12)
        paths = []
        for k, idxs in enumerate(parts):
            p = os.path.join(tmp, f"tr_{k}.json")
            with open(p, "w") as f:
                json.dump([[{kk: vv for kk, vv in e.items() if kk not in ("reply", "cmd")} for e in traces[i]]
                           for i in idxs], f)
            paths.append(p)
        with ctx.Pool(len(paths)) as pool:
            vres = pool.map(_validate, paths)
        done = set()
        nunit = ne2e = 0
        drift_seen = {}
        for idxs, v in zip(parts, vres):
            if v["rc"] != 0:
                raise RuntimeError("TLC trace validation failed: " + str(v["error"])[:1500])
            ck.cov["states"] += v["distinct"]
            ck.cov["transitions"] += v["generated"]
            for p in v["prints"]:
                if not p:
                    continue
                if p[0] == "DONE":
                    done.add(idxs[p[1] - 1])
                elif p[0] == "VIOL":
                    ti, line, act, clause = idxs[p[1] - 1], p[2], p[3], p[4]
                    ev = traces[ti][line - 1]
                    kind, name = meta[ti]
                    lo = max(1, line - 12)
                    ck.violation(clause, act=act, where=f"{name}:line{line}",
                                 detail=json.dumps({k: ev.get(k) for k in
                                                    ("t", "proto", "u", "a", "cred", "good", "out", "allowed",
                                                     "contact", "gate", "gu", "ga", "tu", "ta", "cmd", "reply")
                                                    if k in ev}),
                                 replay_obj={"kind": kind, "name": name, "clause": clause, "line": line,
                                             "plan": plan_of.get(name), "event": ev,
                                             "events_before": traces[ti][lo:line - 1] if kind != "unit" else None})
                elif p[0] == "DRIFT":
                    ti, line, field = idxs[p[1] - 1], p[2], p[3]
                    ev = traces[ti][line - 1]
                    key = (ev["act"], field)
                    if key not in drift_seen:
                        drift_seen[key] = 1
                        ck.model_drift(ev["act"], field, json.dumps(
                            {k: ev.get(k) for k in ("proto", "u", "a", "cred", "out", "allowed", "tu", "ta",
                                                    "ptu", "pta", "gu", "ga") if k in ev}))
        if len(done) != len(traces):
            missing = sorted(set(range(len(traces))) - done)[:5]
            raise RuntimeError(f"traces not consumed completely: {missing}")
        from collections import Counter
        cnt = Counter()
        for (kind, name), tr in zip(meta, traces):
            for e in tr[1:]:
                if e["act"] == "Unit":
                    nunit += 1
                    out = "refused" if not e["allowed"] else ("ok" if e["good"] else "failed")
                    cnt[f"Unit:{out}"] += 1
                    ck.note_case(("Unit", tuple(e["tu"]), tuple(e["ta"]), tuple(e["gu"][:2]),
                                  tuple(e["ga"][:2]), e["good"], e["allowed"]))
                else:
                    ne2e += 1
                    cnt[f"{e['act']}:{e['proto']}:{e['out']}"] += 1
                    if e["act"] == "Attempt":
                        ck.note_case((e["proto"], e["cred"], e["good"], e["out"], e["tu"][0], e["ta"][0],
                                      min(e["tu"][1], 61), min(e["ta"][1], 61)))
                    else:
                        ck.note_case((e["proto"], e.get("cmd", "").split(" ", 1)[-1][:12], e["contact"]))
        ck.cov["traces_validated_against_impl"] = len(traces)
        ck.cov["evaluations"] = nunit + ne2e
        ck.cov["unit_transition_tests"] = nunit
        ck.cov["e2e_events"] = ne2e
        ck.cov["replayed_behaviours"] = len(behaviours)
        ck.cov["random_sequences"] = nrand
        ck.cov["impl_outcome_counts"] = dict(sorted(cnt.items()))
        for need in ("Unit:refused", "Attempt:imap:refused", "Attempt:pop3:refused", "Attempt:imap:ok",
                     "Attempt:pop3:ok", "Attempt:imap:failed", "Attempt:pop3:failed"):
            if not cnt.get(need) and not ck.violations:
                raise RuntimeError(f"vacuous run: no implementation event of kind {need}")
        ck.cov["rule"] = ("cases = unit transition tests (every Link-admitted abstract pre-state of the two "
                          "tables x concrete ages per region x good/bad credentials, real check_allow/"
                          "login_failed) + end-to-end events (LOGIN / USER+PASS attempts and other "
                          "pre-authentication commands through the real IMAP and POP3 front ends); distinct "
                          "non-trivial = distinct (tables, history, credentials, verdict) tuples resp. "
                          "(protocol, credential kind, outcome, counts and capped ages after the event)")
        e2e = [(m, t) for m, t in zip(meta, traces) if m[0] == "e2e"]
        if e2e:
            ck.sample({"trace": e2e[0][0][1], "events": [
                f"t={e['t'] - T.NOW0} {e['proto']} {e['u']}@{e['a']} {e['cred']} -> {e['out']} "
                f"contact={e['contact']} user-entry={e['tu']} addr-entry={e['ta']}"
                for e in e2e[0][1][1:9] if e["act"] == "Attempt"]})
        ck.sample({"unit_case": {k: v for k, v in traces[0][1].items()}})
        ck.assumptions += [
            "an attempt is atomic with respect to the clock: the throttle's time source (time.time in "
            "asimap.throttle) is replaced by a controlled integer-second clock that stands still while "
            "an attempt is processed (the 10 s penalty sleep of a refused LOGIN runs in virtual time); "
            "two attempts that are in flight at once (check of one between check and record of the "
            "other) are not explored",
            "exactly Purge seconds after the last failure is left open (either answer accepted)",
            "outcomes are read from the tagged LOGIN reply / the PASS reply (OK, NO = bad credentials, "
            "'too many' = refused by the throttle); test accounts use the salted MD5 hasher added to "
            "asimap.hashers.PASSWORD_HASHERS, disabled accounts an unusable '!' hash",
            "the user process is a stub: IMAPSubprocess, asyncio.open_connection and "
            "asyncio.create_subprocess_exec record every contact; front ends are driven at "
            "IMAPSubprocessInterface.message / POP3SubprocessInterface.message (the line/literal "
            "reader of IMAPClient.start is not part of this check)",
            "finite instances: complete state graphs for the instances listed in tlc_runs (small "
            "thresholds where 2 users x 2 addresses are combined); the inductive argument of "
            "ThrottleCases uses the real constants 4 / 5 / 60 s",
        ]
        ck.cov["trusted_base"] = ["TLC", "harness/throttle.py (clock, stub user process, reply classification)",
                                  "harness/simloop.py"]
    finally:
        shutil.rmtree(tmp, ignore_errors=True)


if __name__ == "__main__":
    lib.main(fn, "C18")
