"""C16 -- message data items are mutually consistent and faithful to what was stored.

  1. TLC checks spec/MsgDataMC.tla exhaustively: every message shape of the
     finite product (line endings x final newline x header set x body x
     structure) is a state, and on every octet string over {CR, LF, "a", ":"}
     up to MaxLen the laws of the relations hold (slicing, CRLF canonical
     form, header/text split) and the verdict function of spec/MsgData.tla
     accepts the reference rendering and rejects each kind of corruption with
     the clause made for it.
  2. The same run writes the shape space; every shape is turned into octets
     and stored in the real server three ways (file written by an MH agent,
     APPEND, COPY of the result); together with the fixture corpus and seeded
     random messages.  Every data item, section and a grid of partial ranges
     is fetched, twice (spec -> code).
  3. TLC (spec/MsgDataTrace.tla) evaluates the relations on the octets the
     server returned (code -> spec).  Clauses: C16.SizeIsOctetCount,
     C16.HeaderThenTextIsBody, C16.Rfc822SameAsBody, C16.PartialIsSlice,
     C16.LinesEndInCRLF, C16.RepeatIsIdentical, C16.CopyIsIdentical,
     C16.SameHeaderFields, C16.SameBodyContent.
"""
import concurrent.futures as cf
import json
import multiprocessing as mp
import os
import random
import shutil
import sys
import tempfile

sys.path.insert(0, os.path.dirname(os.path.dirname(os.path.abspath(__file__))))
from checks import lib  # noqa: E402
from harness import tlc  # noqa: E402

CFG = """SPECIFICATION Spec
CONSTANTS
  MaxLen = {maxlen}
INVARIANT ShapeSpace
INVARIANT SliceLaws
INVARIANT RefLaws
INVARIANT OracleAccepts
INVARIANT OracleRejects
CHECK_DEADLOCK FALSE
"""
NPROC = 14


def _run_chunk(job):
    from harness import msgdata
    idx, cases, seed = job[:3]
    history = len(job) > 3 and job[3]
    cases = [dict(c) for c in cases]
    for c in cases:
        c["data"] = bytes.fromhex(c.pop("hex"))
    try:
        return idx, msgdata.execute(cases, seed=seed, history=history), None
    except BaseException:
        import traceback
        return idx, None, traceback.format_exc()[-2000:]


def _validate(path):
    r = tlc.run("MsgDataTrace", "SPECIFICATION Spec\nCHECK_DEADLOCK FALSE\n",
                env={"TRACE_FILE": path, "JAVA_TOOL_OPTIONS": "-Xmx3g"}, workers=1, timeout=3000)
    return {"rc": r.rc, "error": r.error if r.rc != 0 else None, "prints": r.prints,
            "generated": r.generated, "distinct": r.distinct, "out": r.out}


def _show(b, limit=400):
    return bytes(b[:limit]).decode("latin-1").encode("unicode_escape").decode("ascii")


def fn(ck, a):
    from harness import msgdata
    from harness.world import REPO
    thorough = ck.tier == "thorough"
    tmp = tempfile.mkdtemp(prefix="verif-c16-")
    try:
        ex = cf.ThreadPoolExecutor(2)
        # 1. the laws (runs while the server is being driven)
        laws = ex.submit(tlc.run, "MsgDataMC", CFG.format(maxlen=7 if thorough else 5), workers=8 if thorough else 4,
                         timeout=3000)
        # ... and the shape space
        out = os.path.join(tmp, "shapes.json")
        r = tlc.run("MsgDataMC", CFG.format(maxlen=1), workers=2, env={"C16_SHAPES_OUT": out}, timeout=600)
        ck.add_tlc("shapes", r)
        if r.rc != 0 or not os.path.exists(out):
            raise RuntimeError(f"TLC failed on MsgDataMC (shapes): {r.error or r.out[-800:]}")
        with open(out) as f:
            shapes = json.load(f)

        # 2. cases
        cases = []
        if getattr(a, "replay", None):
            with open(a.replay) as f:
                cases = [json.load(f)["case"]]
        else:
            for i, sh in enumerate(shapes):
                tag = f"s{i}"
                cases.append({"tag": tag, "struct": sh["struct"], "hex": msgdata.materialise(sh, tag).hex(),
                              "ways": ["deliver", "append", "copy"], "wellformed": bool(sh["wellformed"]),
                              "label": json.dumps({k: sh[k] for k in ("eol", "final", "hdr", "body", "struct")}),
                              "cls": f"{sh['struct']}/{sh['body']}", "nparts": 5})
            for c in msgdata.fixture_cases(REPO):
                c["hex"] = c.pop("data").hex()
                c["cls"] = "fixture"
                cases.append(c)
            rng = random.Random(ck.seed * 7919 + 16)
            for i in range(1500 if thorough else 40):
                data, struct, kind = msgdata.random_message(rng, f"r{i}")
                cases.append({"tag": f"r{i}", "struct": struct, "hex": data.hex(), "ways": ["deliver", "append", "copy"],
                              "wellformed": True, "opaque": struct == "plain", "label": f"random message {i} (seed {ck.seed})",
                              "cls": "random/" + kind, "nparts": 5})
            for c in msgdata.directed_cases():
                c["hex"] = c.pop("data").hex()
                cases.append(c)
        by_tag = {c["tag"]: dict(c) for c in cases}

        # spec -> code
        order = sorted(range(len(cases)), key=lambda i: -len(cases[i]["hex"]))
        nchunks = max(1, min(len(cases), NPROC * (6 if thorough else 3)))
        chunks = [[] for _ in range(nchunks)]
        for k, i in enumerate(order):
            chunks[k % nchunks].append(cases[i])
        jobs = [(k, ch, ck.seed * 1000 + k) for k, ch in enumerate(chunks) if ch]
        # the same relations later in the life of a folder (expunge of every other message, pack):
        # a few chunks of small messages of different sizes are run once more in worlds that pack early
        small = [c for c in cases if len(c["hex"]) < 6000 and "deliver" in c["ways"]]
        hrng = random.Random(ck.seed + 160)
        hrng.shuffle(small)
        nh = 6 if thorough else 2
        for h in range(nh):
            part = [dict(c, ways=[x for x in c["ways"] if x != "copy"], tag=c["tag"] + f"@h{h}")
                    for c in small[h * 14:(h + 1) * 14]]
            if part:
                jobs.append((len(jobs), part, ck.seed * 1000 + 900 + h, True))
        ctx = mp.get_context("fork")
        with ctx.Pool(NPROC) as pool:
            results = pool.map(_run_chunk, jobs, chunksize=1)
        groups = []          # records of one case, contiguous
        refused = []
        for idx, recs, err in results:
            if err:
                raise RuntimeError(f"harness failure in chunk {idx}: {err}")
            cur = None
            for rec in recs:
                if not rec["stored"]:
                    refused.append(rec)
                    continue
                if cur is None or cur[0]["tag"] != rec["tag"]:
                    cur = []
                    groups.append(cur)
                cur.append(rec)

        # code -> spec
        groups.sort(key=lambda g: -sum(e["a"]["n"] for x in g for e in x["secs"]))
        parts = [[] for _ in range(NPROC)]
        for k, g in enumerate(groups):
            parts[k % NPROC].extend(g)
        parts = [p for p in parts if p]
        paths = []
        drop = ("label", "tag", "struct", "cls", "refused", "stored", "_body")
        for k, p in enumerate(parts):
            path = os.path.join(tmp, f"obs_{k}.json")
            with open(path, "w") as f:
                json.dump([{kk: v for kk, v in rec.items() if kk not in drop} for rec in p], f)
            paths.append(path)
        with ctx.Pool(len(paths)) as pool:
            vres = pool.map(_validate, paths)

        r = laws.result()
        ck.add_tlc("laws", r)
        if r.violated:
            ck.violation("C16.SpecLaw", act="model", where="MsgDataMC",
                         detail=f"TLC: {r.violated} violated by the specification itself",
                         replay_obj={"tlc_out": r.out[-6000:]})
        elif r.rc != 0:
            raise RuntimeError(f"TLC failed on MsgDataMC (laws): {r.error or r.out[-800:]}")
        ck.cov["exhaustive"] = all(x["complete"] for x in ck.cov["tlc_runs"])

        viols, done, unjudged, nested = [], 0, [], 0
        for p, vr in zip(parts, vres):
            if vr["rc"] != 0:
                raise RuntimeError("TLC validation failed: " + (vr["error"] or vr["out"][-1500:])[:1500])
            ck.cov["states"] += vr["distinct"]
            ck.cov["transitions"] += vr["generated"]
            for pr in vr["prints"]:
                if pr and pr[0] == "VIOL":
                    rec, where = p[pr[1] - 1], str(pr[3])
                    if where.isdigit():     # index of a section (of the COPY source for CopyIsIdentical)
                        k = int(where) - 1
                        secs = p[pr[1] - 2]["secs"] if pr[2] == "C16.CopyIsIdentical" else rec["secs"]
                        where = secs[k]["name"] if 0 <= k < len(secs) else where
                    viols.append((rec, pr[2], where))
                elif pr and pr[0] == "UNJUDGED":
                    unjudged.append(p[pr[1] - 1])
                elif pr and pr[0] == "INFO":
                    nested += 1
                elif pr and pr[0] == "DONE":
                    done += 1
        nrec = sum(len(p) for p in parts)
        nviol = sum(vr["out"].count('"VIOL"') for vr in vres)
        if nviol != len(viols):
            raise RuntimeError(f"{nviol} VIOL tuples printed by TLC, {len(viols)} parsed")
        if done != nrec:
            raise RuntimeError(f"validation incomplete: {done} of {nrec} records consumed")

        # coverage
        lits = 0
        for p in parts:
            for rec in p:
                lits += 8 + sum(2 + len(e["parts"]) for e in rec["secs"])
                ck.note_case((rec["cls"], rec["how"], len(rec["secs"]), rec["sent"]["big"]))
        ck.cov["traces_validated_against_impl"] = nrec
        ck.cov["evaluations"] = lits
        ck.cov["cases"] = {"shapes": len(shapes), "fixtures": sum(1 for c in cases if c["cls"] == "fixture"),
                           "random": sum(1 for c in cases if c["cls"].startswith("random"))}
        ck.cov["stored_by"] = {h: sum(1 for p in parts for rec in p if rec["how"] == h)
                               for h in ("deliver", "append", "copy")}
        ck.cov["digest_level_records"] = sum(1 for p in parts for rec in p
                                             if any(e["a"]["big"] for e in rec["secs"]))
        ck.cov["sections_refused"] = sum(len(rec["refused"]) for p in parts for rec in p)
        ck.cov["unjudged_records"] = len(unjudged)
        ck.cov["observation_nested_rfc822_header_text_is_not_part"] = nested   # outside the property statement
        ck.cov["partials_not_returned"] = sum(1 for p in parts for rec in p for e in rec["secs"]
                                              for q in e["parts"] if not q["present"])
        ref_app = [x for x in refused if x["how"] == "append"]
        ck.cov["append_refused"] = {"count": len(ref_app),
                                    "classes": sorted({x["cls"] for x in ref_app})[:12],
                                    "sample": [{"label": x["label"], "status": x["status"], "text": x["text"],
                                                "connection_closed": x["closed"]} for x in ref_app[:2]]}
        ck.cov["copy_refused"] = sum(1 for x in refused if x["how"] == "copy")
        if ref_app:
            print(f"NOTE property=C16 {len(ref_app)} APPENDs were refused (not judged: nothing was stored); "
                  f"e.g. {ref_app[0]['label']}: {ref_app[0]['status']} {ref_app[0]['text'][:90]}")
        ck.cov["rule"] = ("cases = stored messages (shape x way of storing, fixtures, seeded random) whose items were "
                          "fetched twice with a grid of partial ranges per section and validated by TLC; impl_steps = "
                          "literals/values compared; distinct non-trivial = distinct (shape class, way of storing, "
                          "number of sections, octet- or digest-level)")
        if parts:
            rec = parts[-1][-1]
            ck.sample({"case": rec["label"], "how": rec["how"], "size": rec["rfc_a"]["size"],
                       "sections": [[e["name"], e["a"]["n"], len(e["parts"])] for e in rec["secs"]],
                       "sent": _show(rec["sent"]["b"], 160)})

        # verdicts
        grouped = {}
        for rec, clause, where in viols:
            # act: what went wrong (TLC's diagnosis or the way of storing), not the section name
            act = where if clause in ("C16.HeaderThenTextIsBody", "C16.SameHeaderFields", "C16.SameBodyContent") \
                else ("RFC822*" if where.startswith("RFC822") else "BODY[section]")
            grouped.setdefault((clause, act), []).append((rec, where))
        for (clause, cls), lst in sorted(grouped.items()):
            lst.sort(key=lambda x: (x[0]["sent"]["n"], x[0]["tag"], x[0]["how"], x[1]))
            rec, where = lst[0]
            sec = {e["name"]: e for e in rec["secs"]}
            det = {"where": where, "how": rec["how"], "case": rec["label"], "RFC822.SIZE": rec["rfc_a"]["size"],
                   "len": {nm: sec[nm]["a"]["n"] for nm in ("", "HEADER", "TEXT") if nm in sec}}
            obj = {"clause": clause, "where": where, "how": rec["how"], "case": by_tag.get(rec["tag"]),
                   "sent": _show(rec["sent"]["b"], 2000),
                   "items": {("BODY[%s]" % e["name"]): _show(e["a"]["b"], 2000) for e in rec["secs"]},
                   "items_second_fetch": {("BODY[%s]" % e["name"]): _show(e["b"]["b"], 600) for e in rec["secs"]
                                          if e["a"] != e["b"]},
                   "partials": [[e["name"], q["o"], q["c"], _show(q["got"]["b"], 200)] for e in rec["secs"]
                                for q in e["parts"] if e["name"] == where],
                   "rfc822": {k: (rec["rfc_a"][k] if k == "size" else _show(rec["rfc_a"][k]["b"], 600))
                              for k in ("size", "full", "header", "text")},
                   "sentFields": rec["sentFields"], "fields": rec["fields"],
                   "classes": sorted({x[0]["cls"] for x in lst}),
                   "others": sorted({x[0]["label"] for x in lst[1:]})[:8]}
            ck.violation(clause, act=cls, where=f"{rec['tag']}:{rec['how']}:{where}",
                         detail=f"{len(lst)} records of {len({x[0]['tag'] for x in lst})} messages in classes "
                                f"{sorted({x[0]['cls'] for x in lst})[:6]}; smallest: " + json.dumps(det), replay_obj=obj)
        ck.assumptions += [
            "in-process server on a virtual-time loop; one session; messages stored three ways: file written into "
            "the MH folder (octets untouched), APPEND, COPY of the last stored one",
            "an APPEND that is refused stores nothing and is not judged (counted in coverage.append_refused)",
            "'same header fields' = same bag of (lower-cased name, unfolded, RFC 2047-decoded, white-space-collapsed "
            "value), computed with Python's header parser on both sides; not applied to raw 8-bit header octets",
            "'same body content' = BODY[TEXT] equals the stored body modulo CRLF/LF and one final line terminator "
            "for messages without MIME structure; for MIME-structured messages the same leaf parts (type, payload "
            "modulo CRLF/LF and final terminator) as split by Python's parser on both sides",
            f"literals of {msgdata.SMALL} octets or more are compared by length and SHA-256; for those the header+text "
            "concatenation and the partial slices are computed by the harness, and the CRLF and body clauses are skipped",
            "an empty partial range returned as NIL is read as the empty string; items not returned at all are not judged",
        ]
        ck.cov["trusted_base"] = ["TLC", "harness/msgdata.py (shape -> octets, recording, header/MIME parsing with "
                                  "Python's email package)", "harness/world.py", "harness/wire.py"]
    finally:
        shutil.rmtree(tmp, ignore_errors=True)


if __name__ == "__main__":
    lib.main(fn, "C16")
