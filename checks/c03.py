"""C03 -- a UID always names the same message."""
import os, sys
sys.path.insert(0, os.path.dirname(os.path.dirname(os.path.abspath(__file__))))
from checks import lib, mailfam

ACTS = ["Deliver", "Select", "Noop", "Idle", "Store", "Fetch", "Expunge", "Append"]
ALL = ACTS + ["Copy", "Move"]
QUICK = {
    "exhaustive": [("1sess-2mbox-4msgs-depth6", dict(depth=6, maxid=4, sess=("A",), mbox=("inbox", "b"), acts=ALL))],
    "simulate": [("2mbox", dict(mbox=("inbox", "b"), maxid=6, maxpend=6, sets="SetsMedium", acts=ALL), 50, 24)],
    "random": 70,
    "gen": dict(length=34, weights={"append": 10, "deliver": 8, "expunge": 10, "uidexpunge": 5, "copy": 6, "move": 8,
                                    "restart": 3, "rename": 3, "create": 2, "uidprobe": 8, "store": 10, "poll": 8,
                                    "search": 0, "status": 1},
                world=dict(pack_limit=3, pack_ratio=0.75)),
   }
THOROUGH = {
    "exhaustive": [("1sess-2mbox-4msgs-depth7", dict(depth=7, maxid=4, sess=("A",), mbox=("inbox", "b"), acts=ALL)),
                   ("2sess-1mbox-5msgs-depth7", dict(depth=7, maxid=5))],
    "simulate": [("2mbox", dict(mbox=("inbox", "b"), maxid=8, maxpend=8, sets="SetsMedium", acts=ALL), 800, 32)],
    "random": 800,
    "gen": dict(length=50, weights={"append": 10, "deliver": 8, "expunge": 10, "uidexpunge": 5, "copy": 6, "move": 8,
                                    "restart": 3, "rename": 3, "create": 2, "uidprobe": 8, "store": 10, "poll": 8,
                                    "search": 0, "status": 1},
                world=dict(pack_limit=3, pack_ratio=0.75)),
    "tlc_timeout": 1500,
   }

def fn(ck, a):
    mailfam.run_family(ck, ["C03."], model_prop="P_C0203", quick=QUICK, thorough=THOROUGH)

if __name__ == "__main__":
    lib.main(fn, "C03")
