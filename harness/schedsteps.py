"""
Step-level recording of the admission protocol (spec/Sched.tla) on the real server.

No hook in /repo: the protocol's linearization points are all reachable from outside.

  Enq(p)      IMAPClientCommand.ready_and_okay entered (innermost wrapper: logged right before the
              original's task_queue.put_nowait, no scheduling point between)
  Get(p)      the management task's `await task_queue.get()` returns p   (asyncio.Queue.get)
  Res(p)      Mailbox.command_can_proceed(p) entered: the first resolution of p's set succeeded
  Ready(p)    p.ready.set()  (asyncio.Event.set on the command's own event) with the reason read off
              the state at that instant: `admit` (p is in executing_tasks), `exc` (the management
              task handed it an exception), `release` (shutdown / deleted mailbox)
  Wake(p)     `await ready.wait()` returned and the passage starts running (`run`), or raised
              (`exc`: the handed exception, `gone`: mailbox deleted)
  Done(p)     p.completed goes False -> True (data descriptor on the class: the early release in
              Mailbox.copy, do_create's direct assignment and ready_and_okay's `finally`)
  Shutdown(m) Mailbox.shutdown entered on a mailbox that was not yet `deleted`

A *passage* p is one trip of one IMAPClientCommand object through one mailbox's queue (COPY's phony
APPEND and MOVE's phony EXPUNGE are passages of their own).  Mailboxes are named by object identity
(`name#k`) so that a re-created mailbox is a new one.  Single-threaded event loop: list order is the
order of the events.  The recorder is process-global and inert unless `ACTIVE[0]` is set.
"""
import asyncio
import contextlib

ACTIVE = [None]
_installed = [False]


class Recorder:
    def __init__(self):
        self.ev = []
        self.cmds = {}
        self.nmb = {}
        self.np = 0

    def mname(self, mbox):
        n = getattr(mbox, "_vp_name", None)
        if n is None:
            k = self.nmb.get(mbox.name, 0) + 1
            self.nmb[mbox.name] = k
            n = f"{mbox.name}#{k}"
            try:
                mbox._vp_name = n
            except Exception:
                pass
        return n

    def log(self, e, **kw):
        kw["e"] = e
        self.ev.append(kw)

    def enq(self, cmd, mbox):
        self.np += 1
        pid = f"p{self.np}"
        m = self.mname(mbox)
        cmd._vp_pid = pid
        cmd._vp_mbox = mbox
        cmd._vp_rec = self
        try:
            cmd.ready._vp_cmd = cmd
        except Exception:
            pass
        self.cmds[pid] = {"m": m, "k": str(getattr(cmd.command, "name", cmd.command)).upper(),
                          "peek": bool(getattr(cmd, "fetch_peek", True)), "nums": [], "bad": False,
                          "tag": str(cmd.tag or ""), "pre": bool(cmd.__dict__.get("_vp_completed", False))}
        self.log("Enq", p=pid, m=m)
        return pid

    def dump(self):
        return {"cmds": self.cmds, "ev": self.ev}


def _rec_of(cmd):
    r = ACTIVE[0]
    if r is None or getattr(cmd, "_vp_rec", None) is not r:
        return None
    return r


def install():
    """idempotent; must run BEFORE MailDriver.install() so that this wrapper is the innermost one"""
    if _installed[0]:
        return
    _installed[0] = True
    import asimap.mbox as mbox_mod
    import asimap.parse as parse_mod

    C = parse_mod.IMAPClientCommand
    orig_rao = C.ready_and_okay

    @contextlib.asynccontextmanager
    async def rao_steps(self, mbox):
        r = ACTIVE[0]
        if r is None:
            async with orig_rao(self, mbox):
                yield
            return
        pid = r.enq(self, mbox)
        woke = False
        try:
            async with orig_rao(self, mbox):
                woke = True
                r.log("Wake", p=pid, out="run")
                yield
        except BaseException as e:
            if not woke:
                out = ("exc" if self.mgmt_exception is not None else
                       "gone" if getattr(mbox, "deleted", False) else "other:" + type(e).__name__)
                r.log("Wake", p=pid, out=out)
            raise

    C.ready_and_okay = rao_steps

    def _get(self):
        return self.__dict__.get("_vp_completed", False)

    def _set(self, v):
        old = self.__dict__.get("_vp_completed", False)
        self.__dict__["_vp_completed"] = v
        if v and not old:
            r = _rec_of(self)
            if r is not None:
                r.log("Done", p=self._vp_pid)

    C.completed = property(_get, _set)

    orig_get = asyncio.Queue.get

    async def get_w(self):
        item = await orig_get(self)
        r = _rec_of(item)
        if r is not None:
            r.log("Get", p=item._vp_pid)
        return item

    asyncio.Queue.get = get_w

    orig_set = asyncio.Event.set

    def set_w(self):
        cmd = self.__dict__.get("_vp_cmd") if hasattr(self, "__dict__") else None
        if cmd is not None and not self.is_set():
            r = _rec_of(cmd)
            if r is not None:
                mbox = cmd._vp_mbox
                try:
                    if any(x is cmd for x in (getattr(mbox, "executing_tasks", None) or [])):
                        how = "admit"
                    elif cmd.mgmt_exception is not None:
                        how = "exc"
                    else:
                        how = "release"
                    info = r.cmds[cmd._vp_pid]
                    if how == "admit":
                        info["nums"] = sorted(int(x) for x in (cmd.msg_set_as_set or []))
                    if how == "exc":
                        info["bad"] = True
                        info["exc"] = type(cmd.mgmt_exception).__name__
                    r.log("Ready", p=cmd._vp_pid, how=how, hasdel=bool(mbox.sequences.get("Deleted")))
                except Exception as e:      # an observation never disturbs the server
                    r.log("Error", p=getattr(cmd, "_vp_pid", "?"), how=repr(e))
        return orig_set(self)

    asyncio.Event.set = set_w

    M = mbox_mod.Mailbox
    orig_ccp = M.command_can_proceed

    async def ccp_w(self, imap_cmd):
        r = _rec_of(imap_cmd)
        if r is not None:
            r.log("Res", p=imap_cmd._vp_pid)
        return await orig_ccp(self, imap_cmd)

    M.command_can_proceed = ccp_w

    orig_shutdown = M.shutdown

    async def shutdown_w(self, *a, **k):
        r = ACTIVE[0]
        if r is not None and not self.deleted and getattr(self, "_vp_name", None) is not None:
            r.log("Shutdown", m=self._vp_name)
        return await orig_shutdown(self, *a, **k)

    M.shutdown = shutdown_w


# ---------------------------------------------------------------------------------------------------
# validation of recorded executions against spec/Sched.tla (spec/TraceSchedSteps.tla), batched

def _steps(path):
    from harness import tlc
    r = tlc.run("TraceSchedSteps", "SPECIFICATION Spec\nCHECK_DEADLOCK FALSE\n", env={"TRACE_FILE": path},
                workers=1, timeout=3000)
    return {"rc": r.rc, "err": (r.error or r.out[-1500:]) if r.rc else None, "prints": r.prints, "generated": r.generated,
            "distinct": r.distinct}


def validate(ck, execs, tmp, nb=14, label="seed"):
    """execs: [(origin, Recorder.dump())].  Adds coverage to ck and one MODEL-DRIFT line per refused step."""
    import json
    import multiprocessing as mp
    import os
    execs = [x for x in execs if x[1] and x[1]["ev"]]
    if not execs:
        return
    batches = [execs[i::nb] for i in range(nb) if execs[i::nb]]
    bpaths = []
    for bi, b in enumerate(batches):
        cmds, ev, eorig = {}, [], []
        for ti, (seed, st) in enumerate(b):
            pre = f"e{ti}"
            for pid, c in st["cmds"].items():
                cmds[pre + pid] = {"m": pre + c["m"], "k": c["k"], "peek": c["peek"], "nums": c["nums"], "bad": c["bad"]}
            start = len(ev)
            if ti:
                ev.append({"e": "Reset"})
            for e in st["ev"]:
                e = dict(e)
                if e.get("p"):
                    e["p"] = pre + e["p"]
                if e.get("m"):
                    e["m"] = pre + e["m"]
                ev.append(e)
            for e in ev[start:]:
                e["tid"] = ti
            eorig.append((seed, start, len(ev)))
        # a step the model refuses: validation goes on with the next execution
        for (seed, a, z) in eorig:
            for j in range(a, z):
                ev[j]["nxt"] = z + 1          # 1-based index of the next execution's Reset
        for e in ev:
            for k_, dv in (("p", ""), ("m", ""), ("how", ""), ("out", ""), ("hasdel", False)):
                e.setdefault(k_, dv)
        bp = os.path.join(tmp, f"steps{bi}.json")
        json.dump({"cmds": cmds, "ev": ev}, open(bp, "w"))
        bpaths.append((bp, len(ev), eorig, ev))
    with mp.get_context("fork").Pool(len(bpaths)) as pool:
        souts = pool.map(_steps, [x[0] for x in bpaths])
    nsteps = ndrift = 0
    for (bp, n, eorig, ev), o in zip(bpaths, souts):
        if o["rc"] != 0:
            raise RuntimeError(f"TraceSchedSteps failed: {o['err']}")
        if not any(pr and pr[0] == "DONE" for pr in o["prints"]):
            raise RuntimeError("TraceSchedSteps did not reach the end of a batch")
        ck.cov["states"] += o["distinct"]
        ck.cov["transitions"] += o["generated"]
        nsteps += o["distinct"] - 1
        for pr in o["prints"]:
            if pr and pr[0] == "DRIFT":
                ndrift += 1
                seed = eorig[pr[2]][0]
                e = {k_: v for k_, v in ev[pr[1] - 1].items() if v not in ("", None)}
                ck.model_drift("SchedStep", e.get("e", "?"), f"{label} {seed}: recorded step {json.dumps(e)} is not a step "
                               "spec/Sched.tla allows from the state the earlier recorded steps lead to")
    ck.cov["admission_protocol_steps_validated"] = nsteps
    ck.cov["admission_protocol_passages"] = sum(len(st["cmds"]) for _, st in execs)
    ck.cov["admission_protocol_steps_refused_by_model"] = ndrift
    kinds = {}
    for _, st in execs:
        for e in st["ev"]:
            key = e["e"] + (":" + (e.get("how") or e.get("out")) if (e.get("how") or e.get("out")) else "")
            kinds[key] = kinds.get(key, 0) + 1
    ck.cov["admission_protocol_step_kinds"] = kinds
