"""
Seeded random workloads over the mailbox-family vocabulary.  A scenario is a
list of abstract steps; `execute` runs it through MailDriver and returns the
recorded trace (list of events).
"""

import random

from . import simloop
from .maildriver import STAR, MailDriver
from .world import World

FLAGS = ["Seen", "Answered", "Flagged", "Deleted", "Draft", "k1", "$Fwd"]


def rand_set(rng, n_hint, uid=False, hi=None):
    """A random sequence set over 1..n_hint (+ a little beyond for UID sets)."""
    top = hi if hi is not None else max(1, n_hint)
    elems = []
    for _ in range(rng.choice([1, 1, 1, 2])):
        r = rng.random()
        if r < 0.5:
            a = rng.randint(1, top)
            elems.append([a, a])
        elif r < 0.7:
            a, b = rng.randint(1, top), rng.randint(1, top)
            elems.append([a, b])
        elif r < 0.8:
            elems.append([STAR, STAR])
        elif r < 0.9:
            elems.append([rng.randint(1, top), STAR])
        else:
            elems.append([1, STAR])
    return elems


def gen_scenario(seed, length=30, sessions=("A", "B"), mboxes=("inbox", "b"),
                 weights=None, with_restart=True, with_pack=False, prefill=None):
    rng = random.Random(seed)
    steps = [("create", "A0", m) for m in mboxes if m != "inbox"]
    if prefill:
        # some histories start from mailboxes that already hold a number of messages (UIDs and message
        # numbers beyond the first handful; after expunges: sparse sets of large values)
        prng = random.Random(seed * 7 + 1)
        for m in mboxes:
            k = prng.choice(prefill)
            if k:
                steps.append(("deliver", m, k, prng.random() < 0.5, True))
                steps.append(("poll",))
                if prng.random() < 0.6:
                    # ... of which only a few of the newest are left (sparse sets of large UIDs / numbers)
                    lo = prng.choice([1, 1, 2])
                    steps += [("select", sessions[0], m),
                              ("store", sessions[0], [[lo, k - prng.choice([1, 2, 3])]], "+", ["Deleted"], True, False),
                              ("expunge", sessions[0])]
        steps.append(("poll",))
    w = {"select": 6, "examine": 2, "append": 8, "deliver": 8, "poll": 5, "store": 12,
         "fetch": 6, "fetchbody": 3, "expunge": 6, "uidexpunge": 3, "copy": 5, "move": 4,
         "noop": 8, "check": 2, "idle": 3, "done": 3, "close": 2, "unselect": 1,
         "search": 3, "status": 2, "restart": 1 if with_restart else 0}
    w.update({"create": 0, "delete": 0, "rename": 0, "subscribe": 0, "uidprobe": 0})
    if weights:
        w.update(weights)
    # (two SPECIAL-USE names among them: start-up treats those mailboxes specially)
    extra = ["c", "b/x", "d e", "Junk", "Archive/old", "Archive"]
    names = list(w)
    ws = [w[n] for n in names]
    # commands come in bursts by one session while the others stay quiet (that is
    # when pend queues build up); the burst length is random
    burst_left, burst_s = 0, sessions[0]
    for _ in range(length):
        op = rng.choices(names, ws)[0]
        if burst_left <= 0:
            burst_s = rng.choice(sessions)
            burst_left = rng.choice([1, 1, 2, 3, 5, 8])
        burst_left -= 1
        s = burst_s
        mb = rng.choice(mboxes)
        uid = rng.random() < 0.4
        if op in ("select", "examine", "status"):
            steps.append((op, s, rng.choice(list(mboxes) + extra) if w["create"] and rng.random() < 0.3 else mb))
        elif op in ("create", "delete", "subscribe"):
            steps.append(("ns" + op, s, rng.choice(list(mboxes) + extra), rng.random() < 0.7))
        elif op == "rename":
            steps.append(("nsrename", s, rng.choice(list(mboxes) + extra), rng.choice(extra + ["r1", "r2/y"])))
        elif op == "uidprobe":
            steps.append(("fetch", s, [[1, STAR]], "peek", True))
        elif op == "append":
            fl = rng.sample(FLAGS, rng.choice([0, 0, 1, 2]))
            steps.append((op, s, mb, fl, rng.choice([0, 0, 946684800 + rng.randint(0, 10**8)])))
        elif op == "deliver":
            steps.append((op, mb, rng.choice([1, 1, 2]), rng.random() < 0.6, rng.random() < 0.8))
        elif op in ("poll", "restart"):
            steps.append((op,))
        elif op == "store":
            steps.append((op, s, rand_set(rng, 4, uid, hi=6 if uid else 4), rng.choice("+-="),
                          rng.sample(FLAGS, rng.choice([1, 1, 2, 2, 3])), rng.random() < 0.3, uid))
        elif op in ("fetch", "fetchbody"):
            steps.append((op, s, rand_set(rng, 4, uid, hi=6 if uid else 4),
                          rng.choice(["flags", "uidflags", "peek"]) if op == "fetch"
                          else rng.choice(["body", "flagsbody"]), uid))
        elif op == "expunge":
            steps.append((op, s))
        elif op == "uidexpunge":
            steps.append((op, s, rand_set(rng, 4, True, hi=7)))
        elif op in ("copy", "move"):
            steps.append((op, s, rand_set(rng, 4, uid, hi=6 if uid else 4), mb, uid))
        elif op == "search":
            steps.append((op, s, rng.choice(["ALL", "DELETED", "UNSEEN", "SEEN", "1:*", "NOT DELETED",
                                             "FLAGGED", "KEYWORD k1", "RECENT"]), uid))
        else:
            steps.append((op, s))
    return steps


async def run_steps(d: MailDriver, steps, sessions=("A", "B")):
    w = d.w
    idle = set()
    nstatus = 0
    for st in steps:
        op = st[0]
        if op == "create":
            if "A0" not in w.sessions:
                await w.open("A0")
            await d.create("A0", st[2])
            continue
        if op in ("deliver",):
            try:
                d.deliver(st[1], n=st[2], unseen=st[3], adv=st[4])
            except Exception:
                pass
            continue
        if op == "poll":
            await d.poll()
            continue
        if op == "restart":
            await d.restart()
            idle.clear()
            continue
        s = st[1]
        if s not in w.sessions or w.sessions[s].closed or w.sessions[s].task.done():
            await d.open(s)
            idle.discard(s)
        if s in idle and op != "done":
            await d.done(s)
            idle.discard(s)
        if op == "nscreate":
            await d.create(s, st[2])
        elif op == "nsdelete":
            await d.delete(s, st[2])
        elif op == "nssubscribe":
            await d.subscribe(s, st[2], on=st[3])
        elif op == "nsrename":
            await d.rename(s, st[2], st[3])
        elif op == "select":
            await d.select(s, st[2])
        elif op == "examine":
            await d.select(s, st[2], examine=True)
        elif op == "status":
            # every other STATUS goes through LIST-STATUS (same aggregates, other code path)
            nstatus += 1
            await d.status(s, st[2], via_list=(nstatus % 2 == 0))
        elif op == "append":
            await d.append(s, st[2], flags=st[3], date=st[4])
        elif op == "store":
            await d.store(s, st[2], st[3], st[4], silent=st[5], uid=st[6])
        elif op in ("fetch", "fetchbody"):
            await d.fetch(s, st[2], what=st[3], uid=st[4])
        elif op == "expunge":
            await d.expunge(s)
        elif op == "uidexpunge":
            await d.expunge(s, st[2])
        elif op == "copy":
            await d.copy(s, st[2], st[3], uid=st[4])
        elif op == "move":
            await d.copy(s, st[2], st[3], uid=st[4], move=True)
        elif op == "search":
            await d.search(s, st[2], uid=st[3])
        elif op == "noop":
            await d.noop(s)
        elif op == "check":
            await d.check(s)
        elif op == "idle":
            ev = await d.idle(s)
            if ev["status"] == "CONT":
                idle.add(s)
        elif op == "done":
            if s in idle:
                await d.done(s)
                idle.discard(s)
            else:
                await d.noop(s)
        elif op == "close":
            await d.close(s)
        elif op == "unselect":
            await d.unselect(s)
        elif op == "logout":
            await d.logout(s)
        else:
            raise ValueError(op)
    # final sync so that every session's view can be compared
    for s in list(w.sessions):
        ss = w.sessions[s]
        if ss.closed or ss.task.done() or ss.pop3:
            continue
        if s in idle:
            await d.done(s)
        await d.noop(s)


def execute(steps, seed=0, sessions=("A", "B"), chooser=None, track=None, **wkw):
    """Run a scenario on a fresh world; returns the trace."""
    w = World(seed=seed, **wkw)
    d = MailDriver(w, track=track)

    async def main(loop):
        await w.start()
        d.install()
        try:
            d.emit("Init")
            await run_steps(d, steps, sessions)
        finally:
            d.uninstall()
            try:
                await w.stop()
            except Exception:
                pass
        return d.events

    try:
        return simloop.run(main, chooser=chooser)
    finally:
        w.cleanup()
