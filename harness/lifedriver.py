"""
C06 driver: renders the command classes of spec/Lifecycle.tla to IMAP bytes,
runs them against the real server and records what the client saw of each
command's life (the fields of LifeProps.LifeBad).
"""

import math

from . import simloop, wire
from .world import World, make_msg

NOARG = "-"


def q(name):
    return wire.quote(name.encode()).decode()


def render(c, n, uids):
    """class record -> command text (without tag).  n: messages in the selected
    mailbox (0 if none), uids: its uid list."""
    k, uid, arg, mb, mb2 = c["k"], c["uid"], c["arg"], c["mb"], c["mb2"]
    top = max(uids) if uids else 0

    def aset():
        if uid:
            return {"inrange": str(uids[0]) if uids else "1", "beyond": str(top + 1),
                    "zero": "0", "star": "*", "rev": f"{top + 3}:1" if top else "3:1",
                    "uidmissing": "99999"}[arg]
        return {"inrange": "1", "beyond": str(n + 1), "zero": "0", "star": "*",
                "rev": f"{max(n, 2)}:1", "uidmissing": str(n + 7)}[arg]

    u = "UID " if uid else ""
    simple = {"NOOP": "NOOP", "CAPABILITY": "CAPABILITY", "NAMESPACE": "NAMESPACE",
              "ID": 'ID ("name" "verif")', "CHECK": "CHECK", "CLOSE": "CLOSE",
              "UNSELECT": "UNSELECT", "EXPUNGE": "EXPUNGE", "IDLE": "IDLE", "LOGOUT": "LOGOUT",
              "LIST": 'LIST "" "*"', "LSUB": 'LSUB "" "%"', "LOGIN": "LOGIN user pass",
              "AUTHENTICATE": "AUTHENTICATE PLAIN"}
    if k in simple:
        return simple[k]
    if k in ("SELECT", "EXAMINE", "CREATE", "DELETE", "SUBSCRIBE", "UNSUBSCRIBE"):
        return f"{k} {q(mb)}"
    if k == "STATUS":
        return f"STATUS {q(mb)} (MESSAGES UIDNEXT UNSEEN)"
    if k == "APPEND":
        m = make_msg(900, crlf=True)
        return (f"APPEND {q(mb)} (\\Seen) ".encode() + b"{%d}\r\n" % len(m) + m)
    if k == "RENAME":
        return f"RENAME {q(mb)} {q(mb2)}"
    if k == "FETCH":
        return f"{u}FETCH {aset()} (FLAGS)"
    if k == "FETCHBODY":
        return f"{u}FETCH {aset()} (BODY[])"
    if k == "STORE":
        return f"{u}STORE {aset()} +FLAGS (\\Seen)"
    if k == "SEARCHSET":
        return f"{u}SEARCH {aset()}"
    if k in ("COPY", "MOVE"):
        return f"{u}{k} {aset()} {q(mb)}"
    if k == "UIDEXPUNGE":
        return f"UID EXPUNGE {aset()}"
    garbage = {
        "UNKNOWNCMD": "FROBNICATE 1 2 3",
        "TRUNCATED": "FETCH 1 (FLAGS",
        "BADLITERAL": b"APPEND inbox {50}\r\nshort",
        "BADDATE": "SEARCH BEFORE 31-Feb-2020",
        "TRAILING": "NOOP and some trailing junk",
        "DEEPNEST": "SEARCH " + "NOT " * 3000 + "ALL",
        "BADSET": "FETCH 1::3,, (FLAGS)",
        "UIDONLY": "UID NOOP",
    }
    if k in garbage:
        return garbage[k]
    raise ValueError(k)


async def run_history(w: World, steps, sessions):
    """steps: list of {"s": sess, "c": class}.  Returns list of records."""
    recs = []
    idle_tag = {}
    for s in sessions:
        await w.open(s)

    async def record(s, kind, res, tag, cont=False):
        sess = w.sessions[s]
        items = res.items
        ntag = sum(1 for d in items if d["kind"] == "TAGGED" and d["tag"] == tag)
        others = sum(1 for d in items if d["kind"] == "TAGGED" and d["tag"] != tag)
        taglast = bool(items) and items[-1]["kind"] == "TAGGED" and items[-1].get("tag") == tag
        bye = any(d["kind"] == "UBYE" for d in items)
        ubad = any(d["kind"] == "UBAD" for d in items)
        garbled = any(d["kind"] == "UNPARSED" for d in items) or bool(sess.dangling())
        closed = sess.closed or sess.task.done()
        usable = True
        if not closed and not cont and kind != "LOGOUT":
            r2 = await w.cmd(s, "NOOP", settle=0)
            usable = r2.status == "OK"
            closed = closed or r2.closed
        elif closed:
            usable = False
        recs.append({"kind": kind, "ntag": ntag,
                     "status": "CONT" if (cont and res.status == "CONT") else
                     (res.status if res.status in ("OK", "NO", "BAD") else "NONE"),
                     "others": others, "taglast": taglast or ntag == 0, "bye": bye, "ubad": ubad,
                     "closed": closed, "usable": usable, "vt": int(math.ceil(max(res.vt, 0))),
                     "watchdog": bool(res.watchdog), "garbled": garbled,
                     "text": (res.tagged or {}).get("text", "")[:60], "sess": s})

    import asyncio

    for st in steps:
        if "par" in st:
            # several sessions issue their commands at the same moment
            async def one(x):
                sx = w.sessions.get(x["s"])
                if sx is None or sx.closed or sx.task.done():
                    return None
                hx = sx.handler
                nn = len(hx.mbox.uids) if hx.mbox is not None else 0
                uu = list(hx.mbox.uids) if hx.mbox is not None else []
                tag = w.new_tag()
                if x.get("delay"):
                    await asyncio.sleep(x["delay"])
                sx.stall = x.get("stall", 0)       # a slow client keeps its command executing
                try:
                    res = await w.cmd(x["s"], render(x["c"], nn, uu), tag=tag, settle=0)
                finally:
                    sx.stall = 0
                return x, res, tag
            outs = await asyncio.gather(*[one(x) for x in st["par"]])
            for o in outs:
                if o is not None:
                    await record(o[0]["s"], o[0]["c"]["k"], o[1], o[2])
            continue
        s, c = st["s"], st["c"]
        k = c["k"]
        if k == "RESTART":
            await w.restart()
            for x in sessions:
                await w.open(x)
            idle_tag.clear()
            continue
        sess = w.sessions.get(s)
        if sess is None or sess.closed or sess.task.done():
            continue
        h = sess.handler
        mbx = h.mbox
        n = len(mbx.uids) if mbx is not None else 0
        uids = list(mbx.uids) if mbx is not None else []
        if k == "DONE":
            if s in idle_tag:
                tag = idle_tag.pop(s)
                res = await w.done(s, tag, settle=0)
                await record(s, "DONE", res, tag)
            continue
        if s in idle_tag:
            # the model only sends DONE/NOOP while idling; a NOOP here is "other input while idling"
            items = await w.raw(s, b"X1 NOOP\r\n", settle=0)
            continue
        if k in ("NOTAG", "EMPTY"):
            items = await w.raw(s, b"NOOP\r\n" if k == "NOTAG" else b"\r\n", settle=0)

            class R:  # noqa
                pass
            res = R()
            res.items, res.status, res.tagged, res.vt, res.watchdog = items, "NONE", None, 0, False
            await record(s, k, res, "")
            # an untagged BAD is the right answer to a line without a tag
            if recs[-1]["ubad"]:
                recs[-1]["ntag"], recs[-1]["status"] = 1, "BAD"
            continue
        text = render(c, n, uids)
        cont = k == "IDLE"
        res = await w.cmd(s, text, wait="cont" if cont else "tagged", settle=0)
        tag = "T%04d" % w.next_tag
        if cont and res.status == "CONT":
            idle_tag[s] = tag
        await record(s, k, res, tag, cont=cont and res.status == "CONT")
        await w.advance(0.02)
    return recs


def execute(steps, sessions=("A", "B"), seed=0, prefill=True, sched_out=None):
    w = World(seed=seed)

    async def main(loop):
        rec = None
        if sched_out is not None:
            # step-level recording of the admission protocol (harness/schedsteps.py)
            from . import schedsteps
            schedsteps.install()
            rec = schedsteps.Recorder()
            schedsteps.ACTIVE[0] = rec
        await w.start()
        try:
            if prefill:
                await w.open("Z")
                for i in range(3):
                    m = make_msg(w.alloc_id(), crlf=True)
                    await w.cmd("Z", b"APPEND inbox {%d}\r\n" % len(m) + m)
                await w.cmd("Z", "LOGOUT")
            return await run_history(w, steps, sessions)
        finally:
            if rec is not None:
                schedsteps.ACTIVE[0] = None
                sched_out.append(rec.dump())
            try:
                await w.stop()
            except Exception:
                pass

    try:
        return simloop.run(main)
    finally:
        w.cleanup()
