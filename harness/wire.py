"""
Independent RFC 3501 response reader used by every harness.

  split_responses(data)  bytes -> [Resp]   (literals taken by octet count)
  parse_line(resp)       nested token list
  classify(resp)         dict describing the response in the spec's vocabulary

Strictness: this reader never guesses.  Anything it cannot read is returned as
kind "UNPARSED" with the reason; harnesses decide what that means (C07 treats it
as ill-formed output).
"""

import re

_LIT_AT_EOL = re.compile(rb"\{(\d+)\}\r\n$")


class Resp:
    __slots__ = ("raw", "parts", "crlf")

    def __init__(self, raw, parts, crlf):
        self.raw = raw  # complete bytes of the response
        self.parts = parts  # [line-bytes, literal-bytes, line-bytes, ...]
        self.crlf = crlf  # ended in CRLF?

    def __repr__(self):
        return f"Resp({self.raw[:80]!r})"


def split_responses(data: bytes):
    """Split a byte stream into responses.  Returns (responses, rest) where rest
    is an incomplete tail (no CRLF yet, or literal not fully present)."""
    out = []
    pos = 0
    n = len(data)
    while pos < n:
        start = pos
        parts = []
        ok = True
        while True:
            eol = data.find(b"\r\n", pos)
            if eol < 0:
                ok = False
                break
            line = data[pos : eol + 2]
            m = _LIT_AT_EOL.search(line)
            if m:
                cnt = int(m.group(1))
                if eol + 2 + cnt > n:
                    ok = False
                    break
                parts.append(line)
                parts.append(data[eol + 2 : eol + 2 + cnt])
                pos = eol + 2 + cnt
                continue
            parts.append(line)
            pos = eol + 2
            break
        if not ok:
            return out, data[start:]
        out.append(Resp(data[start:pos], parts, True))
    return out, b""


class ParseError(Exception):
    pass


def _tokenize(resp: Resp):
    """Flat token stream over the response: ('atom', b), ('q', b), ('lit', b),
    '(' , ')'."""
    toks = []
    parts = resp.parts
    for pi in range(0, len(parts), 2):
        line = parts[pi]
        has_lit = pi + 1 < len(parts)
        # strip CRLF or the {n}CRLF
        if has_lit:
            line = _LIT_AT_EOL.sub(b"", line)
        elif line.endswith(b"\r\n"):
            line = line[:-2]
        i = 0
        L = len(line)
        while i < L:
            c = line[i : i + 1]
            if c == b" ":
                i += 1
            elif c == b"(":
                toks.append("(")
                i += 1
            elif c == b")":
                toks.append(")")
                i += 1
            elif c == b'"':
                j = i + 1
                buf = bytearray()
                while True:
                    if j >= L:
                        raise ParseError("unterminated quoted string")
                    ch = line[j]
                    if ch == 0x5C:  # backslash
                        if j + 1 >= L:
                            raise ParseError("dangling backslash")
                        if line[j + 1] not in (0x22, 0x5C):
                            raise ParseError("bad escape in quoted string")
                        buf.append(line[j + 1])
                        j += 2
                    elif ch == 0x22:
                        break
                    elif ch in (0x0D, 0x0A):
                        raise ParseError("raw CR/LF in quoted string")
                    else:
                        buf.append(ch)
                        j += 1
                toks.append(("q", bytes(buf)))
                i = j + 1
            else:
                j = i
                depth = 0
                while j < L:
                    ch = line[j : j + 1]
                    if ch == b"[":
                        depth += 1
                    elif ch == b"]":
                        depth -= 1
                    elif depth == 0 and ch in b' ()"':
                        break
                    j += 1
                toks.append(("atom", line[i:j]))
                i = j
        if has_lit:
            toks.append(("lit", parts[pi + 1]))
    return toks


def parse_line(resp: Resp):
    """Nested list of tokens."""
    toks = _tokenize(resp)
    stack = [[]]
    for t in toks:
        if t == "(":
            new = []
            stack[-1].append(new)
            stack.append(new)
        elif t == ")":
            if len(stack) == 1:
                raise ParseError("unbalanced )")
            stack.pop()
        else:
            stack[-1].append(t)
    if len(stack) != 1:
        raise ParseError("unbalanced (")
    return stack[0]


def _txt(tok):
    if isinstance(tok, tuple):
        return tok[1].decode("latin-1")
    raise ParseError(f"expected string token, got {tok!r}")


def _is_atom(tok, val=None):
    return (
        isinstance(tok, tuple)
        and tok[0] == "atom"
        and (val is None or tok[1].upper() == val)
    )


_STATUS_LINE = re.compile(rb"^([^ \r\n(){%*\"\\\x00-\x1f\x7f+]+|\*) (OK|NO|BAD|BYE|PREAUTH)(?: (.*))?\r\n$", re.I | re.S)
_CODE = re.compile(rb"^\[([A-Za-z\-]+)(?: ([^\]]*))?\]")


def classify(resp: Resp):
    raw = resp.raw
    if not resp.crlf:
        return {"kind": "UNPARSED", "why": "no CRLF", "raw": raw[:200]}
    # status responses carry free text (resp-text: any CHAR but CR and LF, so
    # unbalanced quotes and parentheses are fine): read them without tokenizing
    m = _STATUS_LINE.match(bytes(raw)) if len(resp.parts) == 1 else None
    if m and b"\r" not in (m.group(3) or b"") and b"\n" not in (m.group(3) or b""):
        tag, status, rest = m.group(1), m.group(2).upper(), m.group(3) or b""
        if tag == b"*":
            d = {"kind": "U" + status.decode(), "text": rest.decode("latin-1")}
        elif status in (b"OK", b"NO", b"BAD"):
            d = {"kind": "TAGGED", "tag": tag.decode("latin-1"), "status": status.decode(),
                 "text": rest.decode("latin-1")}
        else:
            d = None
        if d is not None:
            mc = _CODE.match(rest)
            if mc:
                d["code"] = mc.group(1).decode().upper()
                d["codearg"] = (mc.group(2) or b"").decode("latin-1")
            return d
    try:
        toks = parse_line(resp)
    except ParseError as e:
        return {"kind": "UNPARSED", "why": str(e), "raw": raw[:200]}
    if not toks:
        return {"kind": "UNPARSED", "why": "empty line", "raw": raw[:200]}
    first = toks[0]
    if _is_atom(first, b"+"):
        return {"kind": "CONT", "text": raw[2:-2].decode("latin-1")}
    if first == ("atom", b"+"):
        return {"kind": "CONT", "text": ""}
    if not isinstance(first, tuple) or first[0] != "atom":
        return {"kind": "UNPARSED", "why": "bad first token", "raw": raw[:200]}
    if first[1] != b"*":
        # tagged
        if len(toks) < 2 or not _is_atom(toks[1]):
            return {"kind": "UNPARSED", "why": "tagged w/o status", "raw": raw[:200]}
        status = toks[1][1].upper().decode()
        if status not in ("OK", "NO", "BAD"):
            return {"kind": "UNPARSED", "why": "bad tagged status", "raw": raw[:200]}
        rest = raw[len(first[1]) + 1 + len(status) + 1 :]
        d = {"kind": "TAGGED", "tag": first[1].decode("latin-1"), "status": status,
             "text": rest[:-2].decode("latin-1")}
        m = _CODE.match(rest)
        if m:
            d["code"] = m.group(1).decode().upper()
            d["codearg"] = (m.group(2) or b"").decode("latin-1")
        return d
    if len(toks) < 2:
        return {"kind": "UNPARSED", "why": "lonely *", "raw": raw[:200]}
    t1 = toks[1]
    if _is_atom(t1) and t1[1].isdigit():
        n = int(t1[1])
        if len(toks) < 3 or not _is_atom(toks[2]):
            return {"kind": "UNPARSED", "why": "number w/o keyword", "raw": raw[:200]}
        kw = toks[2][1].upper()
        if kw == b"EXISTS":
            return {"kind": "EXISTS", "n": n}
        if kw == b"RECENT":
            return {"kind": "RECENT", "n": n}
        if kw == b"EXPUNGE":
            return {"kind": "EXPUNGE", "n": n}
        if kw == b"FETCH":
            if len(toks) != 4 or not isinstance(toks[3], list):
                return {"kind": "UNPARSED", "why": "FETCH w/o list", "raw": raw[:200]}
            items = toks[3]
            if len(items) % 2:
                return {"kind": "UNPARSED", "why": "odd FETCH items", "raw": raw[:200]}
            d = {"kind": "FETCH", "n": n, "items": {}}
            try:
                return _fetch_items(d, items, raw)
            except (ValueError, ParseError, TypeError) as e:
                return {"kind": "UNPARSED", "why": f"FETCH item value: {e}", "raw": raw[:200]}
        return {"kind": "UNPARSED", "why": "unknown numeric response", "raw": raw[:200]}
    return _classify_rest(resp, raw, toks)


def _fetch_items(d, items, raw):
    if True:
        if True:
            for k in range(0, len(items), 2):
                name = items[k]
                if not _is_atom(name):
                    return {"kind": "UNPARSED", "why": "FETCH item name", "raw": raw[:200]}
                key = name[1].decode("latin-1")
                val = items[k + 1]
                ku = key.upper()
                if ku == "UID":
                    d["uid"] = int(_txt(val))
                elif ku == "FLAGS":
                    d["flags"] = sorted(_txt(x) for x in val)
                elif ku == "RFC822.SIZE":
                    d["size"] = int(_txt(val))
                elif ku == "INTERNALDATE":
                    d["internaldate"] = _txt(val)
                d["items"][key] = val
            return d


def _classify_rest(resp, raw, toks):
    t1 = toks[1]
    if not _is_atom(t1):
        return {"kind": "UNPARSED", "why": "bad untagged keyword", "raw": raw[:200]}
    kw = t1[1].upper()
    if kw in (b"OK", b"NO", b"BAD", b"BYE", b"PREAUTH"):
        rest = raw[2 + len(kw) + 1 :]
        d = {"kind": "U" + kw.decode(), "text": rest[:-2].decode("latin-1")}
        m = _CODE.match(rest)
        if m:
            d["code"] = m.group(1).decode().upper()
            d["codearg"] = (m.group(2) or b"").decode("latin-1")
        return d
    if kw == b"SEARCH":
        try:
            return {"kind": "SEARCH", "nums": [int(_txt(x)) for x in toks[2:]]}
        except (ValueError, ParseError):
            return {"kind": "UNPARSED", "why": "SEARCH args", "raw": raw[:200]}
    if kw in (b"LIST", b"LSUB"):
        if len(toks) < 5 or not isinstance(toks[2], list):
            return {"kind": "UNPARSED", "why": "LIST shape", "raw": raw[:200]}
        try:
            d = {"kind": kw.decode(), "attrs": sorted(_txt(x) for x in toks[2]),
                 "delim": None if _is_atom(toks[3], b"NIL") else _txt(toks[3]),
                 "name": _txt(toks[4]), "name_tok": toks[4][0]}
            if len(toks) > 5:
                d["ext"] = toks[5:]
            return d
        except ParseError as e:
            return {"kind": "UNPARSED", "why": str(e), "raw": raw[:200]}
    if kw == b"STATUS":
        if len(toks) != 4 or not isinstance(toks[3], list) or len(toks[3]) % 2:
            return {"kind": "UNPARSED", "why": "STATUS shape", "raw": raw[:200]}
        try:
            items = {}
            for k in range(0, len(toks[3]), 2):
                items[_txt(toks[3][k]).upper()] = int(_txt(toks[3][k + 1]))
            return {"kind": "STATUS", "name": _txt(toks[2]), "items": items}
        except (ValueError, ParseError) as e:
            return {"kind": "UNPARSED", "why": str(e), "raw": raw[:200]}
    if kw == b"FLAGS":
        return {"kind": "FLAGS", "flags": sorted(_txt(x) for x in toks[2])
                if len(toks) > 2 and isinstance(toks[2], list) else []}
    if kw in (b"CAPABILITY", b"NAMESPACE", b"ID", b"ENABLED"):
        return {"kind": kw.decode(), "toks": toks[2:]}
    return {"kind": "UNPARSED", "why": "unknown untagged keyword", "raw": raw[:200]}


# --------------------------------------------------------------------------
# Rendering of command arguments
#
_ATOM_SPECIALS = set(b'(){ %*"\\]') | set(range(0, 32)) | {127}


def is_atom_safe(b: bytes) -> bool:
    return bool(b) and all(c not in _ATOM_SPECIALS and c < 128 for c in b)


def quote(b: bytes) -> bytes:
    return b'"' + b.replace(b"\\", b"\\\\").replace(b'"', b'\\"') + b'"'


def literal(b: bytes, plus=False) -> bytes:
    return b"{%d%s}\r\n" % (len(b), b"+" if plus else b"") + b


def astring(b: bytes, form="auto") -> bytes:
    if form == "auto":
        form = "atom" if is_atom_safe(b) else "quoted"
        if any(c in (13, 10) or c > 127 for c in b):
            form = "literal"
    if form == "atom":
        return b
    if form == "quoted":
        return quote(b)
    if form == "literal":
        return literal(b)
    if form == "literal+":
        return literal(b, plus=True)
    raise ValueError(form)


def render_set(elems) -> bytes:
    """elems: list of n | '*' | [a, b]  ->  b'1,3:5,*'"""
    out = []
    for e in elems:
        if isinstance(e, (list, tuple)):
            out.append(f"{e[0]}:{e[1]}")
        else:
            out.append(str(e))
    return ",".join(out).encode()
