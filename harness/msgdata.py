"""
C16 driver: message shapes (spec/MsgData.tla) -> octets -> the real server
(external MH delivery, APPEND, COPY) -> every data item, section and a grid of
partial ranges, twice -> observation records for spec/MsgDataTrace.tla.

Python renders, drives, records and parses; no verdict is formed here.
"""

import hashlib
import mailbox as stdmailbox
import os
import random
import re
from email.header import decode_header, make_header
from email.parser import BytesHeaderParser
from email import policy as email_policy

from . import simloop
from .world import World

SMALL = 2048          # literals below this size go to TLC as octets
FIXTURES = "asimap/test/fixtures/mhdir"


# ---------------------------------------------------------------------------
# shapes -> octets
#
def _hdr_lines(kind, tag):
    """Header lines (already unfolded into physical lines) as latin-1 str."""
    base = [f"Message-ID: <c16-{tag}@example.com>",
            "Date: Mon, 7 Feb 1994 21:52:25 -0800"]
    if kind == "plain":
        return ["From: Fred Foobar <foobar@example.com>", "To: mooch@example.org",
                f"Subject: shape {tag}"] + base
    if kind == "eightbit":      # raw 8-bit octets in a header field (ill-formed, but it exists)
        return ["From: J\xe9r\xf4me <jerome@example.com>", "To: mooch@example.org",
                "Subject: caf\xe9 cr\xe8me"] + base
    if kind == "encoded":
        return ["From: =?utf-8?q?J=C3=A9r=C3=B4me?= <jerome@example.com>",
                "To: =?iso-8859-1?b?SOlsbG8=?= <mooch@example.org>",
                "Subject: =?utf-8?b?w4TDpMOWw7bDnMO8?= and =?iso-8859-1?q?caf=E9?="] + base
    if kind == "folded":
        return ["From: Fred Foobar", " <foobar@example.com>", "To: mooch@example.org,", "\tother@example.org",
                "Subject: a subject that", " is folded", "\tover three lines",
                "Received: from x.example.com by y.example.org", "  with ESMTP id 12345;",
                " Mon, 7 Feb 1994 21:52:25 -0800"] + base
    if kind == "missing":       # none of the usual fields
        return [f"X-Verif-Only: {tag}"]
    if kind == "long":          # lines far beyond 78 characters, not folded
        return ["From: foobar@example.com", "Subject: " + " ".join(f"word{i}" for i in range(24)),
                "References: " + " ".join(f"<ref-{i}-abcdefghijklmnop@example.com>" for i in range(4))] + base
    raise ValueError(kind)


def _body_lines(kind, tag):
    if kind == "ascii":
        return [f"hello world {tag}", "", "second paragraph, last line"]
    if kind == "eightbit":
        return ["h\xe9llo w\xf6rld", "na\xefve r\xe9sum\xe9 \xa9 \xff"]
    return []


def _leaf(body, tag, extra=()):
    """(header lines, separator?, body lines) of a text/plain leaf."""
    h = list(extra)
    if body == "eightbit":
        h += ["Content-Type: text/plain; charset=iso-8859-1", "Content-Transfer-Encoding: 8bit"]
    else:
        h += ["Content-Type: text/plain; charset=us-ascii"]
    return h, body != "nosep", _body_lines(body, tag)


def _entity(h, sep, b):
    return h + ([""] if sep else []) + b


def shape_lines(sh, tag):
    """Logical lines of the message of shape sh."""
    top = _hdr_lines(sh["hdr"], tag)
    body, st = sh["body"], sh["struct"]
    html = ["Content-Type: text/html; charset=us-ascii", "", "<p>hello</p>"]
    if st == "plain":
        if sh["hdr"] == "missing" and body in ("ascii", "empty", "nosep"):
            return _entity(top, body != "nosep", _body_lines(body, tag))
        return _entity(*_leaf(body, tag, top))
    if st == "multi2":
        return (top + ["MIME-Version: 1.0", 'Content-Type: multipart/mixed; boundary="b-outer"', "",
                       "This is the preamble.", "--b-outer"] + _entity(*_leaf(body, tag))
                + ["--b-outer"] + html + ["--b-outer--"])
    if st == "nested":
        return (top + ["MIME-Version: 1.0", 'Content-Type: multipart/mixed; boundary="b-outer"', "",
                       "--b-outer", 'Content-Type: multipart/alternative; boundary="b-inner"', "",
                       "--b-inner"] + _entity(*_leaf(body, tag)) + ["--b-inner"] + html
                + ["--b-inner--", "--b-outer", "Content-Type: application/octet-stream",
                   "Content-Transfer-Encoding: base64", "", "AAECAwQFBgcICQ==", "--b-outer--", "the epilogue"])
    inner = _entity(*_leaf(body, tag, ["From: inner@example.com", f"Subject: inner {tag}",
                                         "Date: Tue, 8 Feb 1994 10:00:00 +0000"]))
    if st == "rfc822top":
        return top + ["MIME-Version: 1.0", "Content-Type: message/rfc822", ""] + inner
    if st == "rfc822nested":
        return (top + ["MIME-Version: 1.0", 'Content-Type: multipart/mixed; boundary="b-outer"', "",
                       "--b-outer", "Content-Type: text/plain", "", "see the attached message", "--b-outer",
                       "Content-Type: message/rfc822", ""] + inner + ["--b-outer--"])
    raise ValueError(st)


def join_lines(lines, eol, final):
    out = bytearray()
    for i, ln in enumerate(lines):
        out += ln.encode("latin-1")
        if i == len(lines) - 1 and not final:
            break
        nl = {"lf": b"\n", "crlf": b"\r\n"}.get(eol) or (b"\r\n" if i % 2 == 0 else b"\n")
        out += nl
    return bytes(out)


def materialise(sh, tag):
    return join_lines(shape_lines(sh, tag), sh["eol"], sh["final"] == "yes")


SECTIONS = {
    "plain": ["1"],
    "multi2": ["1", "2", "1.MIME", "2.MIME"],
    "nested": ["1", "2", "1.1", "1.2", "1.1.MIME", "2.MIME"],
    "rfc822top": ["1", "1.HEADER", "1.TEXT"],
    "rfc822nested": ["1", "2", "2.HEADER", "2.TEXT", "2.MIME"],
    "fixture": ["1"],
}
COMMON = ["", "HEADER", "TEXT", "HEADER.FIELDS (Subject From X-Verif-Only)", "HEADER.FIELDS.NOT (Subject Date)"]


_ADDRS = ["Fred Foobar <foobar@example.com>", '"Quoted, Name" <q@example.org>', "plain@example.com",
          "=?utf-8?q?=C3=89t=C3=A9?= <ete@example.net>", "Mooch <mooch@sub.domain.example.org>",
          "=?iso-8859-1?b?SOlsbG8=?= <hello@example.com>", "a.very.long.local.part.of.an.address@a.very.long.domain.example.com"]
_WORDS = ["alpha", "beta", "=?utf-8?q?=C3=A9t=C3=A9?=", "a,b;c", "(comment)", '"quoted str"', "1994", "<x@y.example>",
          "=?iso-8859-1?q?caf=E9?=", "Re:", "[list]"]


def random_message(rng, tag):
    """Seeded well-formed messages beyond the product: arbitrary header sets
    (structured fields get syntactically valid values, unstructured ones get
    arbitrary words incl. encoded words and very long tokens), folding, long
    lines, 8-bit text, sizes on both sides of the octet/digest threshold."""
    lines = []

    def fold(v):
        """optionally fold at some spaces"""
        words = v.split(" ")
        out, cur = [], words[0]
        for wd in words[1:]:
            if rng.random() < 0.12:
                out.append(cur)
                cur = rng.choice([" ", "\t", "   "]) + wd
            else:
                cur += " " + wd
        out.append(cur)
        return out
    for _ in range(rng.randint(0, 9)):
        nm = rng.choice(["From", "To", "Cc", "Reply-To", "Date", "References", "Subject", "Received", "X-Mailer",
                         "X-Spam", "Comments", "List-Id", "subject", "RECEIVED", "X-Very-Long-Header-Field-Name-Indeed"])
        low = nm.lower()
        if low in ("from", "to", "cc", "reply-to"):
            v = ", ".join(rng.choice(_ADDRS) for _ in range(rng.randint(1, 6)))
        elif low == "date":
            v = rng.choice(["Mon, 7 Feb 1994 21:52:25 -0800", "Tue, 29 Feb 2000 00:00:00 +0000",
                            "7 Feb 1994 21:52 +0100", "Sat, 24 Mar 2007 23:00:00 +0200 (EET)"])
        elif low == "references":
            v = " ".join(f"<ref-{rng.randint(0, 999)}-{'x' * rng.randint(1, 30)}@example.com>"
                         for _ in range(rng.randint(1, 6)))
        else:
            v = " ".join(rng.choice(_WORDS + ["x" * rng.randint(1, 90)]) for _ in range(rng.randint(1, 14)))
        fl = fold(f"{nm}: {v}")
        lines += fl
    lines.append(f"Message-ID: <c16-{tag}@example.com>")
    kind = rng.choice(["text", "text8", "multi", "rfc822", "big"])
    alphabet = "abcdefghij klmnop.,;:-=_'\"<>()[]{}!?\t"

    def text(n, eight=False):
        out = []
        for _ in range(n):
            ln = "".join(rng.choice(alphabet) for _ in range(rng.choice([0, 1, 5, 30, 76, 77, 78, 79, 200, 1100])))
            if eight:
                ln += "".join(chr(rng.randint(0xA0, 0xFF)) for _ in range(rng.randint(1, 8)))
            ln = ln.rstrip()
            if ln.startswith("--"):
                ln = "x" + ln
            out.append(ln)
        return out
    if kind == "text":
        lines += [""] + text(rng.randint(0, 8))
    elif kind == "text8":
        lines += ["Content-Type: text/plain; charset=iso-8859-15", "Content-Transfer-Encoding: 8bit", ""]
        lines += text(rng.randint(1, 8), True)
    elif kind == "big":
        lines += [""] + text(rng.randint(20, 60))
    elif kind == "multi":
        b = "bnd%d" % rng.randint(0, 999)
        lines += ["MIME-Version: 1.0", f"Content-Type: multipart/mixed; boundary={b}", ""]
        lines += text(rng.randint(0, 2))
        for _ in range(rng.randint(1, 3)):
            lines += [f"--{b}", "Content-Type: text/plain", ""] + text(rng.randint(0, 4))
        lines += [f"--{b}--"] + text(rng.randint(0, 1))
    else:
        lines += ["MIME-Version: 1.0", "Content-Type: message/rfc822", "", "From: in@example.com",
                  "Subject: inner", ""] + text(rng.randint(0, 4))
    eol = rng.choice(["lf", "crlf", "mixed"])
    struct = {"multi": "multi2", "rfc822": "rfc822top"}.get(kind, "plain")
    return join_lines(lines, eol, rng.random() < 0.7), struct, kind


def directed_cases():
    """Small hand-written messages for corners the product does not contain."""
    def c(tag, label, struct, text, **kw):
        return dict({"tag": tag, "label": label, "struct": struct, "data": text.encode("latin-1"),
                     "ways": ["deliver", "append", "copy"], "cls": "directed/" + tag, "wellformed": True,
                     "opaque": struct == "plain"}, **kw)
    return [
        c("multipart-without-parts", "multipart/alternative part without any sub-part (LF file)", "multi2",
          "From: a@example.com\nSubject: empty alternative\nMIME-Version: 1.0\n"
          "Content-Type: multipart/mixed; boundary=\"outer\"\n\n--outer\n"
          "Content-Type: multipart/alternative; boundary=\"inner\"\n\n\n--outer\nContent-Type: text/plain\n\nhello\n--outer--\n",
          sections=["1", "2"]),
        c("only-separator", "a message that is only an empty line", "plain", "\n", sections=[]),
        c("body-without-header", "no header fields at all, only a body", "plain", "\nbody line\n", sections=["1"]),
        c("single-line-no-newline", "one header field, no newline at all", "plain", "Subject: x", sections=["1"]),
        c("long-lines", "body lines of 998 and 5000 octets", "plain",
          "From: a@example.com\nSubject: long\n\n" + "y" * 998 + "\n" + "z" * 5000 + "\nend\n", sections=["1"]),
        c("encoded-word-before-long-token", "an encoded word followed by an unbroken token of 80 characters", "plain",
          "Subject: " + "x" * 71 + " =?utf-8?q?caf=C3=A9?= " + "y" * 80 + "\n\nhello\n", sections=["1"]),
        c("dot-lines-and-from", "lines starting with '.', 'From ' and '>From '", "plain",
          "From: a@example.com\nSubject: dots\n\n.\n..\nFrom here on\n>From there\n.\n", sections=["1"]),
    ]


# ---------------------------------------------------------------------------
# recording
#
def item(b):
    """A literal as TLC gets it: octets when small, length + digest always."""
    b = bytes(b)
    small = len(b) < SMALL
    return {"n": len(b), "big": not small, "b": list(b) if small else [],
            "h": hashlib.sha256(b).hexdigest()}


_WS = re.compile(r"[ \t\r\n]+")


def fields_of(data):
    """Header fields of the top-level header of a message: [[name, value]] with
    the name in lower case and the value unfolded, RFC 2047-decoded and with
    white space runs collapsed (Python's header parser, both for what was
    stored and for what was fetched)."""
    msg = BytesHeaderParser(policy=email_policy.compat32).parsebytes(data)
    out = []
    for k, v in msg.raw_items():
        v = re.sub(r"\r?\n", "", str(v))      # unfold first: decode_header would eat the white space after a fold
        try:
            v = str(make_header(decode_header(v)))
        except Exception:       # undecodable: keep raw on both sides
            pass
        v = _WS.sub(" ", v).strip()
        out.append([k.lower(), v.encode("unicode_escape").decode("ascii")])
    return out


def leaves_of(data):
    """The leaf parts of a message as Python's parser sees them: [{"ct", "body"}],
    body = the part's payload octets exactly as they stand in the message (no
    transfer decoding).  Used on both sides of the "same body content" clause for
    MIME-structured messages, where a renderer may legitimately re-space the
    delimiters."""
    from email.parser import BytesParser
    msg = BytesParser(policy=email_policy.compat32).parsebytes(data)
    out = []
    for part in msg.walk():
        if part.is_multipart():
            continue
        pl = part._payload      # the raw text (8-bit octets as surrogate escapes); get_payload() would decode it
        if not isinstance(pl, str) or part.get_content_maintype() == "multipart":
            pl = ""             # a multipart without parts has no content of its own
        out.append({"ct": part.get_content_type(), "body": item(pl.encode("ascii", "surrogateescape"))})
    return out


def _lit(d, key):
    v = d["items"].get(key)
    if isinstance(v, tuple) and v[0] in ("lit", "q"):
        return v[1]
    if isinstance(v, tuple) and v[0] == "atom" and v[1].upper() == b"NIL":
        return b""          # NIL for an empty range is read as the empty string
    return None


async def _fetch(w, n, atts):
    """One FETCH of message n; returns (status, {response key: bytes})."""
    r = await w.cmd("A", f"FETCH {n} ({' '.join(atts)})", settle=0)
    got = {}
    size = None
    for d in r.items:
        if d["kind"] == "FETCH" and d["n"] == n:
            for k in d["items"]:
                if k.upper() in ("FLAGS", "UID"):
                    continue
                if k.upper() == "RFC822.SIZE":
                    size = d.get("size")
                else:
                    got[k] = _lit(d, k)
    return r.status, got, size


def grid(L, rng, nrand=2):
    """Partial ranges (origin, count) for a literal of L octets: around both ends,
    clipped at the end, beyond the end, and seeded random ones; origins distinct
    (the response names only the origin)."""
    cand = [(0, 1), (1, L), (2, 7), (L - 1, 2), (L - 2, 1), (L, 4), (L + 3, 2), (3, 2 * L + 10),
            (L // 2, 5), (L - 5, 100)]
    for _ in range(nrand):
        cand.append((rng.randint(0, L + 2), rng.randint(1, 12)))
    seen, out = set(), []
    for o, n in cand:
        if o < 0 or n < 1 or o in seen:
            continue
        seen.add(o)
        out.append((o, n))
    return out


async def _fetch_sections(w, n, secs):
    """BODY.PEEK[s] for every s in one command; one by one if that is refused."""
    st, got, _ = await _fetch(w, n, [f"BODY.PEEK[{s}]" for s in secs])
    if st == "OK":
        return {s: got.get(f"BODY[{s}]") for s in secs}
    out = {}
    for s in secs:
        st, got, _ = await _fetch(w, n, [f"BODY.PEEK[{s}]"])
        out[s] = got.get(f"BODY[{s}]") if st == "OK" else None
    return out


async def observe(w, n, struct, rng, sections=None, nparts=None):
    """Fetch everything about message n of the selected mailbox, twice."""
    secs = list(COMMON) + list(SECTIONS.get(struct, []) if sections is None else sections)
    obs = {"secs": [], "refused": []}
    first = {}
    for rnd in ("a", "b"):
        vals = await _fetch_sections(w, n, secs)
        for s in secs:
            val = vals.get(s)
            if val is None:
                if rnd == "a":
                    obs["refused"].append(s)
                continue
            if rnd == "a":
                first[s] = val
                obs["secs"].append({"name": s, "a": item(val), "b": item(b""), "twice": False, "parts": []})
            else:
                for e in obs["secs"]:
                    if e["name"] == s:
                        e["b"], e["twice"] = item(val), True
        st, got, size = await _fetch(w, n, ["RFC822.SIZE", "RFC822.HEADER", "RFC822.TEXT", "RFC822"])
        vals = [got.get("RFC822"), got.get("RFC822.HEADER"), got.get("RFC822.TEXT")]
        obs["rfc_" + rnd] = {"ok": st == "OK" and size is not None and None not in vals,
                             "size": size if size is not None else 0, "full": item(vals[0] or b""),
                             "header": item(vals[1] or b""), "text": item(vals[2] or b"")}
    # partial ranges of every section
    plan = []
    for e in obs["secs"]:
        s = e["name"]
        g = grid(len(first[s]), rng)
        if nparts is not None and s not in ("", "TEXT", "HEADER"):
            g = g[:nparts]
        plan.append((e, g))
    st, got, _ = await _fetch(w, n, [f"BODY.PEEK[{e['name']}]<{o}.{c}>" for e, g in plan for o, c in g])
    for e, g in plan:
        s, base = e["name"], first[e["name"]]
        if st != "OK":
            _, got, _ = await _fetch(w, n, [f"BODY.PEEK[{s}]<{o}.{c}>" for o, c in g])
        for o, c in g:
            val = got.get(f"BODY[{s}]<{o}>")
            big = len(base) >= SMALL
            # ref: the slice computed here, used by TLC only when the literal is too large to be sent as octets
            e["parts"].append({"o": o, "c": c, "present": val is not None, "got": item(val or b""),
                               "ref": item(base[o:o + c]) if big else item(b"")})
    # header o text, computed here only for the digest-level comparison of large literals
    if "HEADER" in first and "TEXT" in first and len(first.get("", b"")) >= SMALL:
        obs["cat"] = item(first["HEADER"] + first["TEXT"])
    else:
        obs["cat"] = item(b"")
    # for large literals only: how header+text misses the body (a diagnosis for the report, not a verdict)
    h, t, f = first.get("HEADER", b""), first.get("TEXT", b""), first.get("", b"")
    obs["catdiag"] = ("empty-text-as-CRLF" if h == f and t == b"\r\n" else
                      "text-not-the-rest" if f.startswith(h) else
                      "header-from-inside" if h in f else "header-not-the-start")
    obs["fields"] = fields_of(first[""]) if "" in first else []
    obs["fieldsNoWS"] = [[k, v.replace(" ", "")] for k, v in obs["fields"]]
    obs["leaves"] = leaves_of(first[""]) if "" in first else []
    obs["_body"] = first.get("")      # kept for the harness only (never sent to TLC)
    return obs


def deliver_raw(w, mb, data):
    """What an external MH agent does: write the file (octets untouched)."""
    mh = stdmailbox.MH(str(w.folder_path(mb)), create=False)
    mh.lock()
    try:
        keys = mh.keys()
        key = (max(keys) if keys else 0) + 1
        with open(os.path.join(str(w.folder_path(mb)), str(key)), "wb") as f:
            f.write(data)
    finally:
        mh.unlock()
        mh.close()
    w.set_mtime(mb, True)
    return key


async def _count(w):
    r = await w.cmd("A", "NOOP", settle=0)
    box = w.sessions["A"].handler.mbox
    return len(box.uids) if box is not None else 0


async def _reopen(w, mb):
    s = w.sessions.get("A")
    if s is None or s.closed or s.task.done():
        await w.open("A")
        await w.cmd("A", f"SELECT {mb}", settle=0)


async def run_cases(w, cases, seed, history=False):
    """cases: [{"tag", "struct", "data" (bytes), "ways": subset of deliver/append/copy,
    "domain": {...}}].  Returns the list of observation records."""
    rng = random.Random(seed)
    await w.open("A")
    await w.cmd("A", "CREATE src", settle=0)
    await w.cmd("A", "CREATE dst", settle=0)
    out = []
    kept = []     # history: (seq number in src, base, how, case) of everything stored in src
    in_src = []   # (seq number in src, record) for the partial fetch that names all messages at once
    for c in cases:
        data, struct = c["data"], c["struct"]
        sent = item(data)
        sent_fields = fields_of(data)
        base = {"tag": c["tag"], "struct": struct, "sent": sent, "sentFields": sent_fields,
                "sentFieldsNoWS": [[k, v.replace(" ", "")] for k, v in sent_fields],
                "sentLeaves": leaves_of(data), "opaque": bool(c.get("opaque", struct == "plain")),
                "wellformed": bool(c.get("wellformed", True)), "label": c.get("label", ""),
                "cls": c.get("cls", struct)}
        stored = []   # (how, seq number in src)
        await _reopen(w, "src")
        box = w.sessions["A"].handler.mbox
        if box is None or box.name != "src":       # (a client that keeps SELECTing its selected mailbox is dismissed)
            await w.cmd("A", "SELECT src", settle=0)
        if "deliver" in c["ways"]:
            deliver_raw(w, "src", data)
            await w.cmd("A", "NOOP", settle=0)
            await w.cmd("A", "CHECK", settle=0)
            stored.append(("deliver", await _count(w)))
        if "append" in c["ways"]:
            before = await _count(w)
            r = await w.cmd("A", b"APPEND src {%d}\r\n" % len(data) + data, settle=0)
            await _reopen(w, "src")
            after = await _count(w)
            if r.status == "OK" and after == before + 1:
                stored.append(("append", after))
            else:
                out.append(dict(base, how="append", stored=False, status=r.status,
                                text=(r.tagged or {}).get("text", "")[:100], closed=bool(r.closed)))
        recs = []
        for how, n in stored:
            o = await observe(w, n, struct, rng, sections=c.get("sections"), nparts=c.get("nparts"))
            recs.append(dict(base, how=how, stored=True, copyof=0, **o))
            kept.append((n, base, how, c))
            in_src.append((n, recs[-1]))
        if "copy" in c["ways"] and stored:
            how, n = stored[-1]
            r = await w.cmd("A", f"COPY {n} dst", settle=0)
            if r.status == "OK":
                await w.cmd("A", "SELECT dst", settle=0)
                m = await _count(w)
                o = await observe(w, m, struct, rng, sections=c.get("sections"), nparts=c.get("nparts"))
                recs.append(dict(base, how="copy", stored=True, copyof=1, **o))   # source = the record before
                await w.cmd("A", "SELECT src", settle=0)
            else:
                out.append(dict(base, how="copy", stored=False, status=r.status,
                                text=(r.tagged or {}).get("text", "")[:100], closed=bool(r.closed)))
        out.extend(recs)      # the records of one case are contiguous
    if in_src:
        # one FETCH naming every message of the folder with the same partial range: each message's
        # answer must be the slice of its own BODY[] (what was asked for one message must not leak
        # into the next); judged by the same clause as the single-message partials
        await _reopen(w, "src")
        box = w.sessions["A"].handler.mbox
        if box is None or box.name != "src":
            await w.cmd("A", "SELECT src", settle=0)
        in_src = [(n, rec) for n, rec in in_src if rec.get("_body") is not None]
        sizes = sorted(len(rec["_body"]) for _, rec in in_src) or [0]
        med = sizes[len(sizes) // 2]
        for o, c in ((0, max(8, med // 2)), (3, med + 17), (max(1, sizes[0] // 2), sizes[-1] + 5)):
            r = await w.cmd("A", f"FETCH 1:* (BODY.PEEK[]<{o}.{c}>)", settle=0)
            got = {}
            for d in r.items:
                if d["kind"] == "FETCH":
                    got[d["n"]] = _lit(d, f"BODY[]<{o}>")
            for n, rec in in_src:
                e0 = [e for e in rec["secs"] if e["name"] == ""]
                if not e0 or any(q["o"] == o for q in e0[0]["parts"]):
                    continue
                base_b = rec["_body"]
                val = got.get(n)
                e0[0]["parts"].append({"o": o, "c": c, "present": val is not None, "got": item(val or b""),
                                       "ref": item(base_b[o:o + c]) if len(base_b) >= SMALL else item(b"")})
    if history and kept:
        # the same messages later in the life of the folder: every other message
        # is expunged, the management task packs the folder at its idle poll
        # (files are renumbered), and everything is fetched again
        import asyncio
        await _reopen(w, "src")
        total = await _count(w)
        gone = [n for n in range(1, total + 1) if n % 2 == 1]
        await w.cmd("A", "STORE %s +FLAGS.SILENT (\\Deleted)" % ",".join(map(str, gone)), settle=0)
        await w.cmd("A", "EXPUNGE", settle=0)
        for _ in range(4):
            await asyncio.sleep(31)
            await w.cmd("A", "NOOP", settle=0)
        keys = sorted(int(x) for x in os.listdir(w.folder_path("src")) if x.isdigit())
        packed = keys == list(range(1, len(keys) + 1))
        for n, base, how, c in kept:
            if n % 2 == 1:
                continue
            o = await observe(w, n // 2, c["struct"], rng, sections=c.get("sections"), nparts=c.get("nparts"))
            out.append(dict(base, how=how, stored=True, copyof=0,
                            cls="history/after-pack" if packed else "history/after-expunge",
                            label=base["label"] + (" (after expunge of every other message%s)" % (" and pack" if packed else "")),
                            **o))
    return out


def execute(cases, seed=0, history=False):
    w = World(seed=seed, pack_limit=3, pack_ratio=0.8) if history else World(seed=seed)

    async def main(loop):
        await w.start()
        try:
            return await run_cases(w, cases, seed, history=history)
        finally:
            try:
                await w.stop()
            except Exception:
                pass

    try:
        return simloop.run(main)
    finally:
        w.cleanup()


def fixture_cases(repo):
    out = []
    for sub in ("one", "problems"):
        d = os.path.join(repo, FIXTURES, sub)
        if not os.path.isdir(d):
            continue
        for name in sorted(os.listdir(d), key=lambda x: (len(x), x)):
            p = os.path.join(d, name)
            if name.isdigit() and os.path.isfile(p):
                with open(p, "rb") as f:
                    data = f.read()
                out.append({"tag": f"fx-{sub}-{name}", "struct": "fixture", "data": data,
                            "ways": ["deliver", "copy"], "wellformed": False, "label": f"fixture {sub}/{name}",
                            "nparts": 4})
    return out
