"""
C19 driver: feeds octet streams, segment by segment, into the real front-ends
(asimap.server.IMAPClient.start, asimap.pop3_server.POP3Client.start) and the
real response relay (IMAPSubprocessInterface.msgs_to_client / POP3...), with the
real de-framer of the user process (IMAPClientProxy.run) at the other end of the
IMAP relay, and records what happened.  No judgement here: the recorded events
are validated by TLC against spec/Framing.tla.

Octet streams travel as the token sequences of spec/Framing.tla
(t >= 0: octet t; t < 0: a run of -t octets "Z").
"""

import asyncio
import itertools
import os
import random
import re
import sys

ROOT = os.path.dirname(os.path.dirname(os.path.abspath(__file__)))
if ROOT not in sys.path:
    sys.path.insert(0, ROOT)

from harness import world  # noqa: E402

_ZRUN = re.compile(rb"Z+")


def expand(tokens) -> bytes:
    out = bytearray()
    for t in tokens:
        if t < 0:
            out += b"Z" * (-t)
        else:
            out.append(t)
    return bytes(out)


def encode(data: bytes):
    toks = []
    pos = 0
    for m in _ZRUN.finditer(data):
        toks.extend(data[pos:m.start()])
        toks.append(-(m.end() - m.start()))
        pos = m.end()
    toks.extend(data[pos:])
    return toks


def _b(data):
    return b"".join(d if isinstance(d, (bytes, bytearray)) else str(d).encode("latin-1") for d in data)


class FakeWriter:
    def __init__(self, sink, kind="W"):
        self.sink = sink
        self.kind = kind
        self.closed = False

    def write(self, data):
        if self.kind:
            self.sink.append((self.kind, bytes(data)))

    async def drain(self):
        return None

    def is_closing(self):
        return self.closed

    def close(self):
        self.closed = True

    async def wait_closed(self):
        return None

    def get_extra_info(self, name, default=None):
        return ("127.0.0.1", 50000)


class _Srv:
    debug = False
    log_config = None
    trace = False
    trace_dir = None


class _USrv:
    def __init__(self):
        self.commands_in_progress = 0
        self.active_commands = []
        self.clients = {}


_mods = {}


def mods():
    if not _mods:
        world.import_asimap()
        import asimap.pop3_server as P
        import asimap.server as S
        import asimap.user_server as U

        _mods.update(S=S, U=U, P=P)
    return _mods["S"], _mods["U"], _mods["P"]


class _FakeAsyncioServer:
    async def __aenter__(self):
        return self

    async def __aexit__(self, *a):
        return False

    async def serve_forever(self):
        return None

    def close(self):
        pass

    async def wait_closed(self):
        return None


_servers = {}


async def _server(proto):
    """The real IMAPServer / POP3Server object, run() executed with
    asyncio.start_server replaced, so that connections are created through the
    code's own new_client callback and the reader gets the limit the code asks
    for.  Returns (server, limit, callback)."""
    if proto in _servers:
        return _servers[proto]
    S, _, P = mods()
    got = {}
    real = asyncio.start_server

    async def fake_start_server(cb, *a, **kw):
        got["cb"] = cb
        got["limit"] = kw.get("limit", 2 ** 16)
        return _FakeAsyncioServer()
    asyncio.start_server = fake_start_server
    try:
        srv = (S.IMAPServer if proto == "imap" else P.POP3Server)("127.0.0.1", 0, None)
        await srv.run()
    finally:
        asyncio.start_server = real
    _servers[proto] = (srv, got["limit"], got["cb"])
    return _servers[proto]


async def _accept(proto, writer):
    """Connection accepted the way asyncio.start_server would do it."""
    srv, limit, cb = await _server(proto)
    reader = asyncio.StreamReader(limit=limit)
    table = srv.imap_client_tasks if proto == "imap" else srv.pop3_client_tasks
    before = set(table)
    res = cb(reader, writer)
    if asyncio.iscoroutine(res):
        await res
    new = [t for t in table if t not in before]
    if len(new) != 1:
        raise RuntimeError("C19 driver: new_client did not register exactly one task")
    return reader, new[0], table[new[0]]


def _blocked(reader):
    return reader._waiter is not None


async def _settle(tasks_readers, limit=400):
    """Run until every (task, reader) is finished or blocked waiting for input."""
    for _ in range(limit):
        await asyncio.sleep(0)
        if all(t.done() or _blocked(r) for t, r in tasks_readers):
            return
    raise RuntimeError("C19 driver: tasks did not settle")


def _segments(data: bytes, cuts):
    pts = [0] + [c for c in sorted(set(cuts)) if 0 < c < len(data)] + [len(data)]
    return [data[a:b] for a, b in zip(pts, pts[1:]) if b > a]


async def _finish(tasks):
    for t in tasks:
        if not t.done():
            t.cancel()
    for t in tasks:
        try:
            await t
        except BaseException:  # noqa
            pass


# ---------------------------------------------------------------------------
async def run_imap(data: bytes, cuts, mx: int, e2e=True):
    """Command direction, IMAP.  Events: W (to client), R (pushed to the user
    process), P (delivered by IMAPClientProxy.run), X (closed before EOF)."""
    S, U, _ = mods()
    S.MAX_INPUT_SIZE = mx
    U.MAX_INPUT_SIZE = mx
    ev = []
    pev = []
    writer = FakeWriter(ev, "W")
    reader, ct, client = await _accept("imap", writer)
    client.subprocess_intf.client_handler.state = "authenticated"
    watch = []
    tasks = []
    preader = None
    if e2e:
        preader = asyncio.StreamReader()
        pw = FakeWriter(ev, None)
        proxy = U.IMAPClientProxy(_USrv(), "c19:1", 1, "127.0.0.1", 50000, preader, pw)

        def ptrace(typ, msg):
            if typ == "RECEIVED":
                pev.append(("P", msg["data"].encode("latin-1")))
        proxy.trace = ptrace

        async def command(cmd):
            return None
        proxy.cmd_processor.command = command
        pt = asyncio.ensure_future(proxy.run())
        tasks.append(pt)
        watch.append((pt, preader))

    async def push(*d):
        raw = _b(d)
        ev.append(("R", raw))
        if preader is not None:
            preader.feed_data(raw)
    client.subprocess_intf.push = push
    tasks.append(ct)
    watch.append((ct, reader))
    await _settle(watch)
    del ev[:]                                 # the greeting is not part of the property
    if e2e:
        ev.append(("PX", b""))
    for seg in _segments(data, cuts):
        reader.feed_data(seg)
        await _settle(watch)
    if ct.done() or writer.closed:
        ev.append(("X", b""))
    reader.feed_eof()
    if preader is not None:
        preader.feed_eof()
    await _settle([(t, r) for t, r in watch])
    await _finish(tasks)
    return ev + pev


async def run_pop3(data: bytes, cuts):
    _, _, P = mods()
    ev = []
    writer = FakeWriter(ev, "W")
    reader, ct, client = await _accept("pop3", writer)
    client.subprocess_intf.state = "transaction"

    async def push(*d):
        ev.append(("R", _b(d)))
    client.subprocess_intf.push_to_subprocess = push
    watch = [(ct, reader)]
    await _settle(watch)
    del ev[:]
    for seg in _segments(data, cuts):
        reader.feed_data(seg)
        await _settle(watch)
    if ct.done() or writer.closed:
        ev.append(("X", b""))
    reader.feed_eof()
    await _settle(watch)
    await _finish([ct])
    return ev


class _FakeSub:
    def __init__(self):
        self.is_alive = True
        self.port = 1
        self.has_port = asyncio.Event()
        self.has_port.set()


class _User:
    username = "c19user"


async def run_resp(data: bytes, cuts, pop3=False):
    """Response direction: the real connect path (with asyncio.open_connection
    replaced by fed streams, so that the reader gets the limit the code asks
    for) and the real msgs_to_client task.  Returns (events, limit)."""
    S, _, P = mods()
    ev = []
    got = {}
    real_open = asyncio.open_connection

    async def fake_open(host=None, port=None, **kw):
        lim = kw.get("limit", 2 ** 16)
        got["limit"] = lim
        got["reader"] = asyncio.StreamReader(limit=lim)
        got["writer"] = FakeWriter(ev, None)
        return got["reader"], got["writer"]

    cr = asyncio.StreamReader()
    writer = FakeWriter(ev, "W")
    S.USER_IMAP_SUBPROCESSES[_User.username] = _FakeSub()
    asyncio.open_connection = fake_open
    try:
        if pop3:
            client = P.POP3Client(_Srv(), "c19:1", "127.0.0.1", 50000, cr, writer)
        else:
            client = S.IMAPClient(_Srv(), "c19:1", "127.0.0.1", 50000, cr, writer)
        intf = client.subprocess_intf
        await intf.get_and_connect_subprocess(_User())
    finally:
        asyncio.open_connection = real_open
        S.USER_IMAP_SUBPROCESSES.pop(_User.username, None)
    rt = intf.wait_task
    rr = got["reader"]
    watch = [(rt, rr)]
    await _settle(watch)
    del ev[:]
    for seg in _segments(data, cuts):
        if rt.done():
            break
        rr.feed_data(seg)
        await _settle(watch)
    if rt.done() or writer.closed:
        ev.append(("X", b""))
    if not rt.done():
        rr.feed_eof()
        await _settle(watch)
    await _finish([rt])
    return ev, got["limit"]


# ---------------------------------------------------------------------------
def segmentations(total, cuts, k, rnd, nrand, every_octet=True):
    """All subsets of `cuts` with at most k elements, the full set, every octet
    (short streams), and nrand random subsets."""
    cuts = [c for c in cuts if 0 < c < total]
    seen = set()
    out = []

    def add(c):
        c = tuple(sorted(c))
        if c not in seen:
            seen.add(c)
            out.append(c)
    import math
    while k > 1 and math.comb(len(cuts), k) > 1500:
        k -= 1
    for r in range(0, min(k, len(cuts)) + 1):
        for c in itertools.combinations(cuts, r):
            add(c)
    add(cuts)
    if every_octet and total <= 400:
        add(range(1, total))
    for _ in range(nrand):
        add([c for c in cuts if rnd.random() < 0.5])
    return out


_loop = None


def _get_loop():
    global _loop
    if _loop is None:
        _loop = asyncio.new_event_loop()
        asyncio.set_event_loop(_loop)
    return _loop


def run_case(job):
    """job = (index, case, k, nrand, seed).  Returns (index, observations, runs)
    with observations = [{n, seg, ev, limit}] deduplicated by exact equality."""
    idx, case, k, nrand, seed = job
    loop = _get_loop()
    data = expand(case["s"])
    rnd = random.Random(seed * 1000003 + idx)
    segs = segmentations(len(data), case["cuts"], k, rnd, nrand)
    table = {}
    limit = 0
    for sg in segs:
        if case["proto"] == "imap":
            ev = loop.run_until_complete(run_imap(data, sg, case["mx"]))
        elif case["proto"] == "pop3":
            ev = loop.run_until_complete(run_pop3(data, sg))
        else:
            ev, limit = loop.run_until_complete(run_resp(data, sg, pop3=case["proto"] == "resp-pop3"))
        key = tuple(ev)
        if key in table:
            table[key]["n"] += 1
        else:
            table[key] = {"n": 1, "seg": list(sg)[:64], "ev": [[kd, encode(d)] for kd, d in ev]}
    return idx, list(table.values()), len(segs), limit


def render(tokens, limit=200):
    """Human-readable form of a token sequence (for reports only)."""
    out = []
    for t in tokens:
        if t < 0:
            out.append(f"<Z*{-t}>")
        elif t == 13:
            out.append("\\r")
        elif t == 10:
            out.append("\\n")
        elif 32 <= t < 127:
            out.append(chr(t))
        else:
            out.append(f"\\x{t:02x}")
    s = "".join(out)
    return s if len(s) <= limit else s[:limit] + "..."
