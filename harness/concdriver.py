"""
C10 driver: windows of commands issued concurrently by different sessions
under a seeded scheduler that permutes ready callbacks (all interleavings of
I/O completions are schedules of the SimLoop).  Each window records the state
before, every command with what its client observed, and the state after;
spec/LinStore.tla searches for a sequential explanation.
"""

import asyncio
import os
import math
import random

from . import simloop
from .maildriver import MailDriver, render_set
from .world import World, make_msg, norm_flag, wire_flag

STAR = -1
FLAGS = ["Seen", "Flagged", "Deleted", "k1"]


def gen_window_cmds(rng, sessions, sel, sizes, next_id):
    """One command per (some) session.  sel: sess -> mailbox; sizes: mailbox -> n."""
    cmds = []
    for s in sessions:
        if rng.random() < 0.15:
            continue
        m = sel[s]
        n = max(1, sizes.get(m, 1))
        other = "b" if m == "inbox" else "inbox"
        uid = rng.random() < 0.4
        top = n + 2 if uid else n

        def rset():
            r = rng.random()
            if r < 0.45:
                a = rng.randint(1, top)
                return [[a, a]]
            if r < 0.75:
                return [[rng.randint(1, top), rng.randint(1, top)]]
            if r < 0.9:
                return [[1, STAR]]
            return [[rng.randint(1, top), rng.randint(1, top)], [STAR, STAR]]
        k = rng.choices(["Store", "Fetch", "Expunge", "Copy", "Move", "Append", "Noop", "Search", "Select"],
                        [30, 18, 12, 14, 10, 8, 6, 9, 5])[0]
        c = {"sess": s, "act": k, "uid": uid, "set": [], "mode": "", "flags": [], "silent": False,
             "mbox": "", "msgid": 0, "peek": True, "key": "", "exists": 0}
        if k == "Select":
            # mostly a re-SELECT of the mailbox the session has selected already, while others change it
            c.update(uid=False, mbox=m if rng.random() < 0.7 else other)
        if k == "Search":
            c.update(key=rng.choice(["DELETED", "UNSEEN", "SEEN", "FLAGGED", "ANSWERED", "ALL", "NOT DELETED", "KEYWORD k1"]))
        if k == "Store":
            c.update(set=rset(), mode=rng.choice("+-="), flags=rng.sample(FLAGS, rng.choice([1, 1, 2])),
                     silent=rng.random() < 0.25)
        elif k == "Fetch":
            c.update(set=rset(), peek=rng.random() < 0.5)
        elif k == "Expunge":
            if uid:
                c.update(set=rset())
        elif k in ("Copy", "Move"):
            c.update(set=rset(), mbox=other)
        elif k == "Append":
            c.update(uid=False, mbox=rng.choice(["inbox", "b"]), flags=rng.sample(FLAGS, rng.choice([0, 1])),
                     msgid=next_id[0])
            next_id[0] += 1
        else:
            c.update(uid=False)
        if rng.random() < 0.2 and k in ("Fetch", "Store", "Copy", "Search"):
            c["stall"] = rng.choice([0.05, 0.2])
        cmds.append(c)
    return cmds


def gen_conflict_window(rng, sessions, sel, sizes, next_id):
    """Windows built to make commands that must exclude each other overlap: whole-mailbox
    COPY / MOVE / body FETCH against STORE / EXPUNGE on the same mailbox, opposite-direction
    COPY / MOVE between the two mailboxes."""
    def base(s, act, **kw):
        c = {"sess": s, "act": act, "uid": False, "set": [[1, STAR]], "mode": "", "flags": [], "silent": False,
             "mbox": "", "msgid": 0, "peek": True, "key": "", "exists": 0}
        c.update(kw)
        return c
    by_mb = {}
    for s in sessions:
        by_mb.setdefault(sel[s], []).append(s)
    other = lambda m: "b" if m == "inbox" else "inbox"  # noqa
    same = [ss for ss in by_mb.values() if len(ss) >= 2]
    kind = rng.choice(["copy_store", "fetch_store", "move_store", "opposite", "expunge_fetch", "copy_expunge",
                       "search_store", "search_fetch", "expunge_search", "three_way", "three_way", "disjoint", "disjoint",
                       "change_select", "change_select"] +
                      (["copy_late"] * 3 if len(sessions) >= 4 else []))
    cmds = []
    if kind == "copy_late" and same:
        # a COPY that has read its source and waits for a busy destination, while the source's
        # newest message is expunged and its file number is taken by a new message (timed window:
        # "delay" = start offset, "slow" = how long the APPEND holds the destination)
        ss = rng.choice(same)
        a, c = ss[0], ss[1]
        m = sel[a]
        b, dd = [s for s in sessions if s not in (a, c)][:2]
        if sizes[m] >= 1:
            act = rng.choice(["Copy", "Copy", "Move"])
            cmds = [dict(base(b, "Append", mbox=other(m), set=[], msgid=next_id[0], flags=[]), delay=0, slow=3.0),
                    dict(base(a, act, mbox=other(m), uid=rng.random() < 0.5), delay=0.2),
                    dict(base(c, "Expunge", set=[]), delay=0.5,
                         pre=[(c, f"STORE {sizes[m]} +FLAGS.SILENT (\\Deleted)")]),
                    dict(base(dd, "Append", mbox=m, set=[], msgid=next_id[0] + 1, flags=[]), delay=1.0)]
            next_id[0] += 2
            return cmds
    if kind == "opposite" and len(by_mb) == 2:
        (m1, s1), (m2, s2) = [(m, ss[0]) for m, ss in by_mb.items()]
        act = rng.choice(["Copy", "Move"])
        cmds = [base(s1, act, mbox=m2), base(s2, act, mbox=m1)]
    elif same:
        ss = rng.choice(same)
        a, b = ss[0], ss[1]
        m = sel[a]
        fl = rng.sample(FLAGS, 1)
        if kind == "copy_store":
            cmds = [base(a, "Copy", mbox=other(m)), base(b, "Store", mode=rng.choice("+-"), flags=fl)]
        elif kind == "fetch_store":
            cmds = [base(a, "Fetch", peek=False), base(b, "Store", mode="+", flags=fl, uid=True)]
        elif kind == "move_store":
            cmds = [base(a, "Move", mbox=other(m)), base(b, "Store", mode="+", flags=fl)]
        elif kind == "expunge_search":
            # a command that uses sequence numbers queued right behind an EXPUNGE that renumbers the mailbox
            follower = rng.choice([base(a, "Search", set=[], key=rng.choice(["ALL", "UNSEEN", "NOT DELETED"])),
                                   base(a, "Fetch", set=[[sizes[m], sizes[m]]]),
                                   base(a, "Store", set=[[sizes[m], sizes[m]]], mode="+", flags=["Flagged"])])
            cmds = [dict(base(b, "Expunge", set=[]), pre=[(b, "STORE 1 +FLAGS.SILENT (\\Deleted)")]),
                    dict(follower, delay=rng.choice([0, 0.001, 0.01]))]
            return cmds
        elif kind == "change_select":
            # a session (re-)SELECTs while a command of another session that changes the message list is
            # running or queued ahead of it: what the SELECT announces and what is queued for the session
            # afterwards must fit one point of the order
            changer = rng.choice([dict(base(b, "Expunge", set=[]), pre=[(b, f"STORE {rng.randint(1, max(1, sizes[m]))} +FLAGS.SILENT (\\Deleted)")]),
                                  base(b, "Move", set=[[1, 1]], mbox=other(m)),
                                  base(b, "Append", mbox=m, set=[], msgid=next_id[0], flags=[])])
            next_id[0] += 1
            sel_cmd = base(a, "Select", set=[], mbox=m if rng.random() < 0.75 else other(m))
            return [changer, dict(sel_cmd, delay=rng.choice([0, 0, 0.001, 0.01]))]
        elif kind == "three_way" and len(sessions) >= 3:
            # two commands that do not overlap each other run together; a third one overlaps only the second
            # (a session that has the other mailbox selected is moved over first)
            c3 = ss[2] if len(ss) >= 3 else [x for x in sessions if x not in (a, b)][0]
            pre3 = []
            if sel[c3] != m:
                pre3 = [(c3, f"SELECT {m}")]
                sel[c3] = m
            n = max(sizes[m], 2)
            first = base(a, "Fetch", set=[[1, 1]], peek=True)
            second = rng.choice([base(b, "Fetch", set=[[2, STAR]], peek=rng.random() < 0.5),
                                 base(b, "Copy", set=[[2, STAR]], mbox=other(m)),
                                 base(b, "Store", set=[[2, STAR]], mode="+", flags=["k1"])])
            third = rng.choice([base(c3, "Store", set=[[2, STAR]], mode=rng.choice("+-"), flags=rng.sample(["Flagged", "Seen"], 1)),
                                base(c3, "Fetch", set=[[2, STAR]], peek=False),
                                base(c3, "Copy", set=[[n, n]], mbox=other(m))])
            # the first two have slow clients, so they are still running when the third asks to run
            return [dict(first, pre=pre3, stall=0.2), dict(second, delay=0.0005, stall=0.2), dict(third, delay=0.05)]
        elif kind == "disjoint" and sizes[m] >= 2:
            # commands on different messages of one mailbox are let run together: a slow flag-changing FETCH of
            # message 1 while the flags of the others are changed (both write .mh_sequences)
            slowcmd = rng.choice([base(a, "Fetch", set=[[1, 1]], peek=False), base(a, "Store", set=[[1, 1]], mode="+", flags=["k1"])])
            othercmd = rng.choice([base(b, "Store", set=[[2, STAR]], mode=rng.choice("+-"), flags=rng.sample(["Flagged", "Seen", "Deleted"], 1),
                                        uid=rng.random() < 0.3),
                                   base(b, "Fetch", set=[[2, STAR]], peek=False)])
            return [dict(slowcmd, stall=0.2), dict(othercmd, delay=0.05)]
        elif kind == "search_store":
            cmds = [base(a, "Search", set=[], key=rng.choice(["SEEN", "UNSEEN", "FLAGGED", "KEYWORD k1"]), uid=rng.random() < 0.5),
                    base(b, "Store", mode=rng.choice("+-"), flags=rng.sample(["Seen", "Flagged", "k1"], 2))]
        elif kind == "search_fetch":
            cmds = [base(a, "Search", set=[], key=rng.choice(["SEEN", "UNSEEN"])), base(b, "Fetch", peek=False)]
        elif kind == "expunge_fetch":
            cmds = [base(a, "Expunge", set=[]), base(b, "Fetch", peek=rng.random() < 0.5, uid=rng.random() < 0.5)]
        else:
            cmds = [base(a, "Copy", mbox=other(m), uid=True), base(b, "Expunge", set=[])]
        rest = [s for s in sessions if s not in (a, b)]
        if rest and rng.random() < 0.5:
            cmds.append(base(rest[0], "Noop", set=[]))
    if not cmds:
        return gen_window_cmds(rng, sessions, sel, sizes, next_id)
    rng.shuffle(cmds)
    return cmds


def render(c):
    u = "UID " if c["uid"] else ""
    k = c["act"]
    if k == "Store":
        item = {"+": "+FLAGS", "-": "-FLAGS", "=": "FLAGS"}[c["mode"]] + (".SILENT" if c["silent"] else "")
        return f"{u}STORE {render_set(c['set'])} {item} ({' '.join(wire_flag(f) for f in c['flags'])})"
    if k == "Fetch":
        return f"{u}FETCH {render_set(c['set'])} ({'FLAGS' if c['peek'] else 'FLAGS BODY[]'})"
    if k == "Expunge":
        return f"UID EXPUNGE {render_set(c['set'])}" if c["uid"] else "EXPUNGE"
    if k in ("Copy", "Move"):
        return f"{u}{k.upper()} {render_set(c['set'])} {c['mbox']}"
    if k == "Append":
        data = make_msg(c["msgid"], crlf=True)
        return (f"APPEND {c['mbox']} ({' '.join(wire_flag(f) for f in c['flags'])}) ".encode()
                + b"{%d}\r\n" % len(data) + data)
    if k == "Search":
        return f"{u}SEARCH {c['key']}"
    if k == "PopQuit":
        return "POP3 QUIT"
    if k == "Select":
        return f"SELECT {c['mbox']}"
    return "NOOP"


def lin_state(d: MailDriver):
    st = d.state()
    w = d.w
    out = {"mb": {}, "ss": {}, "dirty": {}, "force": {}}
    dirty = d._dirty()
    for m in ("inbox", "b"):
        e = st["mb"][m]
        out["mb"][m] = {"msgs": e["msgs"], "files": e["files"], "fseq": e["fseq"], "next": e["next"]}
        out["dirty"][m] = bool(dirty.get(m, False))
        out["force"][m] = not w.server.active_mailboxes[m].optional_resync
    for s, x in st["ss"].items():
        out["ss"][s] = {"sel": x["sel"], "ro": x["ro"], "idle": x["idle"], "open": x["open"],
                        "pend": [p for p in x["pend"] if p[0] in ("EXISTS", "EXPUNGE", "FETCH")]}
    return out


async def run_windows(d: MailDriver, rng, sessions, nwin, stats, pop3=False, deliveries=None):
    w = d.w
    await w.open("Z")
    await w.cmd("Z", "CREATE b")
    next_id = [1]
    for m in ("inbox", "b"):
        for _ in range(rng.randint(2, 4)):
            fl = rng.sample(FLAGS, rng.choice([0, 1, 1]))
            data = make_msg(next_id[0], crlf=True)
            next_id[0] += 1
            await w.cmd("Z", (f"APPEND {m} ({' '.join(wire_flag(f) for f in fl)}) ".encode()
                              + b"{%d}\r\n" % len(data) + data))
    await w.cmd("Z", "LOGOUT")
    sel = {}
    for s in sessions:
        await w.open(s)
        sel[s] = rng.choice(["inbox", "b"])
        await w.cmd(s, f"SELECT {sel[s]}")
    windows = []
    for wi in range(nwin):
        # quiesce: everybody synchronises so that the window starts from a settled state
        for s in sessions:
            await w.cmd(s, "NOOP")
        if windows and windows[-1].get("delivered"):
            # a sync point of every session has passed since the external delivery of the last window
            windows[-1]["settled"] = lin_state(d)
        if rng.random() < 0.3:
            s = rng.choice(sessions)
            sel[s] = rng.choice(["inbox", "b"])
            await w.cmd(s, f"{'EXAMINE' if rng.random() < 0.15 else 'SELECT'} {sel[s]}")
        sizes = {m: len(w.server.active_mailboxes[m].uids) for m in ("inbox", "b")}
        if rng.random() < 0.4:
            cmds = gen_conflict_window(rng, sessions, sel, sizes, next_id)
        else:
            cmds = gen_window_cmds(rng, sessions, sel, sizes, next_id)
        if not cmds:
            continue
        if pop3 and rng.random() < 0.6 and sizes["inbox"] >= 1:
            # a POP3 session that has marked messages and QUITs while the IMAP commands run
            snap = list(w.server.active_mailboxes["inbox"].uids)
            ps = await w.open("P", pop3=True)
            await w.raw("P", b"NOOP\r\n")
            ks = sorted(rng.sample(range(1, len(snap) + 1), rng.choice([1, 1, 2]) if len(snap) > 1 else 1))
            for k in ks:
                await w.raw("P", b"DELE %d\r\n" % k)
            if not (ps.closed or ps.task.done()):
                cmds = [c for c in cmds if c["sess"] != "P"]
                cmds.append({"sess": "P", "act": "PopQuit", "uid": True, "set": [], "mode": "", "flags": [], "silent": False,
                             "mbox": "inbox", "msgid": 0, "peek": True, "key": "", "uids": [snap[k - 1] for k in ks],
                             "delay": rng.choice([0, 0, 0.01, 0.02])})
        pre = [x for c in cmds for x in c.get("pre", [])]
        if pre:
            for s_, text in pre:
                await w.cmd(s_, text)
            for s in sessions:
                await w.cmd(s, "NOOP")
        init = lin_state(d)
        d.admits = []
        tags = [w.new_tag() for _ in cmds]

        async def pop_quit(c):
            from .world import Result
            if c.get("delay"):
                await asyncio.sleep(c["delay"])
            ps = w.sessions["P"]
            t0 = w.loop.time()
            n0 = len(ps.raw)
            w.feed(ps, b"QUIT\r\n")
            for _ in range(4000):
                if ps.closed or ps.task.done():
                    break
                await asyncio.sleep(0.05)
            r = Result()
            data = bytes(ps.raw[n0:])
            r.status = "OK" if data.startswith(b"+OK") else ("NO" if data.startswith(b"-ERR") else "NONE")
            r.vt = round(w.loop.time() - t0, 3)
            r.closed = True
            r.tagged = {"text": data[:60].decode("latin-1")}
            return r

        async def issue(c, t):
            if c["act"] == "PopQuit":
                return await pop_quit(c)
            if c.get("delay"):
                await asyncio.sleep(c["delay"])
            if c.get("slow"):
                d.slow[c["mbox"]] = c["slow"]
            if c.get("stall"):
                w.sessions[c["sess"]].stall = c["stall"]
            try:
                return await w.cmd(c["sess"], render(c), tag=t, kind=c["act"].upper(), uid=c["uid"], settle=0)
            finally:
                w.sessions[c["sess"]].stall = 0

        delivered = []

        async def agent():
            # an external MH agent delivers into a selected mailbox while the window's commands run
            # (own random stream: the windows themselves are the same with and without deliveries)
            await asyncio.sleep(deliveries.choice([0.0, 0.001, 0.02, 0.02, 0.1]))
            m = deliveries.choice(sorted(set(sel.values())))
            # (was the management task in the middle of a resync of that very folder? -> known finding C13)
            during = bool(getattr(d, "_resync_mb", {}).get(m))
            keys, ids = w.deliver(m, n=deliveries.choice([1, 1, 2]), unseen=deliveries.random() < 0.6, adv=True)
            delivered.extend([m, k, during] for k in keys)
        with_agent = deliveries is not None and deliveries.random() < 0.5
        results = (await asyncio.gather(*([issue(c, t) for c, t in zip(cmds, tags)] + ([agent()] if with_agent else []))))[:len(cmds)]
        d.slow.clear()
        await w.advance(0.05)
        final = lin_state(d)
        rec = {}
        for i, (c, r) in enumerate(zip(cmds, results)):
            stats["cmds"] += 1
            stats["maxvt"] = max(stats["maxvt"], r.vt)
            if r.watchdog or r.status not in ("OK", "NO", "BAD"):
                stats["stuck"].append({"cmd": render(c)[:80] if isinstance(render(c), str) else "APPEND",
                                       "status": r.status, "vt": r.vt, "window": wi})
            fetched = []
            for it in r.items:
                if it["kind"] == "FETCH" and "flags" in it and it.get("inflight") and \
                        it["inflight"][0] == tags[i] and not it.get("stamped"):
                    # position as sent, UID only if the response carried one (the
                    # push-time stamp is not meaningful when commands overlap)
                    fetched.append([it["n"], it.get("uid", 0),
                                    sorted(norm_flag(f) for f in it["flags"])])
            code = {"name": "", "src": [], "dst": []}
            cand = [r.tagged] + [x for x in r.items if x["kind"] == "UOK"]
            for x in cand:
                if x and x.get("code") in ("COPYUID", "APPENDUID"):
                    from .maildriver import parse_uidset
                    parts = x["codearg"].split()
                    if x["code"] == "APPENDUID":
                        code = {"name": "APPENDUID", "src": [], "dst": parse_uidset(parts[1])}
                    else:
                        code = {"name": "COPYUID", "src": parse_uidset(parts[1]), "dst": parse_uidset(parts[2])}
            c2 = dict(c)
            found = []
            for it in r.items:
                if it["kind"] == "SEARCH":
                    found = list(it["nums"])
            c2.update(found=found)
            c2.setdefault("exists", 0)
            if c["act"] == "Select":
                ex = [it["n"] for it in r.items if it["kind"] == "EXISTS"]
                # the count the SELECT itself announced: the last EXISTS before its tagged line
                c2["exists"] = ex[-1] if ex else -1
                if r.status == "OK":
                    sel[c["sess"]] = c["mbox"]
            c2.update(status=r.status if r.status in ("OK", "NO", "BAD") else "NONE", fetched=fetched,
                      code=code, vt=int(math.ceil(max(r.vt, 0))), text=(r.tagged or {}).get("text", "")[:70])
            rec[f"c{i + 1}"] = c2
        for c2 in rec.values():
            c2.pop("pre", None)
            c2.pop("delay", None)
            c2.pop("slow", None)
            c2.pop("stall", None)
        windows.append({"init": init, "cmds": rec, "final": final, "nsess": len(sessions), "delivered": delivered,
                        "admits": [a for a in d.admits if a["tag"] in tags]})
        # track what the sessions have selected (BYE/close would show in ss)
    if windows and windows[-1].get("delivered"):
        for s in sessions:
            await w.cmd(s, "NOOP")
        windows[-1]["settled"] = lin_state(d)
    return windows


def execute(seed, nwin=6, sessions=("A", "B", "C"), p_fifo=0.6, pop3=False, deliveries=False):
    rng = random.Random(seed)
    chooser = simloop.RandomChooser(seed * 7919 + 13, p_fifo=p_fifo)
    w = World(seed=seed)
    d = MailDriver(w, track=["inbox", "b"])
    stats = {"cmds": 0, "maxvt": 0.0, "stuck": [], "deadlock": False}

    async def main(loop):
        # step-level recording of the admission protocol (innermost wrappers: before d.install(), and
        # before the first management task blocks in Queue.get)
        from . import schedsteps
        schedsteps.install()
        d.steps = schedsteps.Recorder()
        schedsteps.ACTIVE[0] = d.steps if not os.environ.get("VERIF_NO_STEPS") else None
        await w.start()
        d.install()
        d.emit = lambda *a, **k: {"i": 0}     # observation points only stamp; no trace here
        d.admits = []

        import asimap.mbox as _mbx
        d.sched = []

        def sched_rec(c):
            return {"k": str(getattr(c.command, "name", c.command)).upper(),
                    "peek": bool(getattr(c, "fetch_peek", True)),
                    "nums": sorted(int(x) for x in (c.msg_set_as_set or []))}

        def on_admit(cmd, mbox):
            # what the command's message set was resolved to at the moment it starts running
            if cmd.msg_set is None or cmd.tag is None or not cmd.tag.startswith("T"):
                return
            elems = []
            for e in cmd.msg_set:
                if isinstance(e, tuple):
                    elems.append([STAR if e[0] == "*" else int(e[0]), STAR if e[1] == "*" else int(e[1])])
                else:
                    v = STAR if e == "*" else int(e)
                    elems.append([v, v])
            d.admits.append({"tag": cmd.tag, "uid": bool(cmd.uid_command), "set": elems,
                             "uids": list(mbox.uids),
                             "applied": sorted(cmd.msg_set_as_set) if cmd.msg_set_as_set else []})
        d._on_admit = on_admit
        # every decision of the management task (Mailbox.would_conflict): the command asking, what is
        # executing on the mailbox at that instant, whether it has \Deleted messages, and the answer
        orig_wc = _mbx.Mailbox.would_conflict

        def wc_wrapped(self, imap_cmd):
            ans = orig_wc(self, imap_cmd)
            try:
                rec = sched_rec(imap_cmd)
                if imap_cmd.msg_set:
                    # what the command's set denotes right now (not what the code stored for it)
                    try:
                        rec["nums"] = sorted(int(x) for x in self.msg_set_to_msg_seq_set(imap_cmd.msg_set,
                                                                                       imap_cmd.uid_command))
                    except Exception:
                        pass
                rec.update(hasdel=bool(self.sequences.get("Deleted")), mbox=self.name, tag=str(imap_cmd.tag or ""),
                           live=[sched_rec(x) for x in self.executing_tasks if x is not imap_cmd], ans=bool(ans))
                d.sched.append(rec)
            except Exception as e:          # an observation never disturbs the server
                d.sched.append({"error": repr(e)})
            return ans
        _mbx.Mailbox.would_conflict = wc_wrapped
        d._orig_wc = orig_wc
        # a slow disk: the APPEND named in d.slow holds its mailbox for that long (virtual time)
        d.slow = {}
        import asimap.mbox as _mb
        orig_append = _mb.Mailbox.append

        async def slow_append(self, *a, **k):
            t = d.slow.pop(self.name, None)
            if t:
                await asyncio.sleep(t)
            return await orig_append(self, *a, **k)
        _mb.Mailbox.append = slow_append
        d._orig_append = orig_append
        try:
            return await run_windows(d, rng, list(sessions), nwin, stats, pop3=pop3,
                                     deliveries=random.Random(seed * 13 + 5) if deliveries else None)
        finally:
            schedsteps.ACTIVE[0] = None
            _mb.Mailbox.append = d._orig_append
            _mbx.Mailbox.would_conflict = d._orig_wc
            d.uninstall()
            try:
                await w.stop()
            except Exception:
                pass

    try:
        try:
            wins = simloop.run(main, chooser=chooser)
        except simloop.Deadlock:
            stats["deadlock"] = True
            wins = []
        stats["sched"] = getattr(d, "sched", [])
        stats["steps"] = d.steps.dump() if getattr(d, "steps", None) else None
        stats["choices"] = chooser.choices
        stats["deviations"] = chooser.deviations
        return wins, stats
    finally:
        w.cleanup()
