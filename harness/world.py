"""
World: one user's IMAPUserServer running in-process on a SimLoop, with hand-fed
sessions, external MH deliveries, orderly restarts, and the projection function
from implementation state to the specification's abstract state.

Nothing here edits the repository; the code under test is imported from
$VERIF_REPO (default /repo).
"""

import asyncio
import logging
import mailbox as stdmailbox
import os
import random
import re
import shutil
import sqlite3
import sys
import tempfile
from pathlib import Path

from . import faults, sqlshim, wire

REPO = os.environ.get("VERIF_REPO", "/repo")


def import_asimap():
    """Import the code under test with the aiosqlite shim installed."""
    if "asimap" in sys.modules and getattr(sys.modules["asimap"], "_verif", False):
        return
    sqlshim.install()
    if REPO not in sys.path:
        sys.path.insert(0, REPO)
    logging.disable(logging.CRITICAL)
    import asimap  # noqa
    import asimap.user_server  # noqa
    import asimap.mbox  # noqa
    import asimap.client  # noqa
    import asimap.mh  # noqa

    asimap._verif = True
    # MH file locking uses fcntl/dot locks; keep it on (default) unless told.


# ---------------------------------------------------------------------------
# messages
#
_ID_RE = re.compile(rb"^X-Verif-Id: (\d+)\r?$", re.M)


def make_msg(mid: int, crlf=False, body=None, extra=None, date=None) -> bytes:
    date = date or "Mon, 7 Feb 1994 21:52:25 -0800"
    lines = [
        f"From: sender{mid}@example.com",
        f"To: rcpt{mid}@example.org",
        f"Subject: verif message {mid}",
        f"Date: {date}",
        f"Message-ID: <verif-{mid}@example.com>",
        f"X-Verif-Id: {mid}",
    ]
    if extra:
        lines.extend(extra)
    lines.append("")
    if body is None:
        lines.append(f"verif-body-{mid} lorem")
    else:
        lines.extend(body)
    nl = "\r\n" if crlf else "\n"
    return (nl.join(lines) + nl).encode("latin-1")


def msg_id_of_bytes(data: bytes) -> int:
    m = _ID_RE.search(data[:4096])
    return int(m.group(1)) if m else 0


def msg_id_of_file(path) -> int:
    try:
        with open(path, "rb") as f:
            return msg_id_of_bytes(f.read(4096))
    except OSError:
        return 0


SEQ2FLAG = {"replied": "Answered", "flagged": "Flagged", "Deleted": "Deleted",
            "Draft": "Draft", "Seen": "Seen", "Recent": "Recent"}
FLAG2SEQ = {v: k for k, v in SEQ2FLAG.items()}
WIRE2FLAG = {"\\Answered": "Answered", "\\Flagged": "Flagged", "\\Deleted": "Deleted",
             "\\Draft": "Draft", "\\Seen": "Seen", "\\Recent": "Recent"}


def norm_flag(f: str) -> str:
    """Wire flag or MH sequence name -> spec flag name."""
    if f in WIRE2FLAG:
        return WIRE2FLAG[f]
    if f in SEQ2FLAG:
        return SEQ2FLAG[f]
    return f


def wire_flag(f: str) -> str:
    return "\\" + f if f in FLAG2SEQ else f


# ---------------------------------------------------------------------------
class FakeWriter:
    def __init__(self, sess):
        self.sess = sess
        self.closed = False

    def write(self, data):
        if self.closed:
            return
        self.sess._on_write(bytes(data))

    async def drain(self):
        # a slow client: every write is acknowledged only after `stall` seconds of virtual time
        # (IMAPClientProxy.push gives up and closes the connection after 2 s)
        st = getattr(self.sess, "stall", 0)
        if st:
            await asyncio.sleep(st)
        return

    def is_closing(self):
        return self.closed

    def close(self):
        self.closed = True
        self.sess._on_close()

    async def wait_closed(self):
        return

    def get_extra_info(self, name, default=None):
        if name == "peername":
            return ("127.0.0.1", 40000 + self.sess.num)
        return default


class Session:
    def __init__(self, world, name, num):
        self.world = world
        self.name = name  # spec-level name: "A", "B", ...
        self.num = num
        self.reader = asyncio.StreamReader()
        self.writer = FakeWriter(self)
        self.proxy = None
        self.task = None
        self.raw = bytearray()  # everything ever written to this client
        self._buf = b""
        self.items = []  # classified responses not yet taken
        self.current = None  # (tag, kind, uid) while a command is in flight
        self.waiters = []
        self.closed = False
        self.tagged_count = {}
        self.pop3 = False
        self.select_hint = None  # mailbox being SELECTed (for stamping its EXISTS)
        self.next_stamp = None  # uid list as of generation of the next pushed item

    @property
    def handler(self):
        return self.proxy.cmd_processor

    # -- output ----------------------------------------------------------------
    def _on_write(self, data: bytes):
        w = self.world
        self.raw += data
        w.gseq += 1
        self._buf += data
        resps, rest = wire.split_responses(self._buf)
        self._buf = rest
        items = [(r, wire.classify(r)) for r in resps]
        # A chunk that does not end in CRLF: the code wrote an unterminated
        # line.  Keep it as its own item so that later writes are not glued to
        # it silently.
        if rest and b"\r\n" not in rest and not re.search(rb"\{\d+\}$", rest):
            pass  # stays in _buf; flushed by take() as UNPARSED if still there
        mbox = None
        try:
            mbox = self.proxy.cmd_processor.mbox if not self.pop3 else None
        except AttributeError:
            mbox = None
        if mbox is None and self.select_hint and w.server is not None:
            mbox = w.server.active_mailboxes.get(self.select_hint)
        srv = list(mbox.uids) if mbox is not None else None
        if self.next_stamp is not None:
            srv = list(self.next_stamp)
        for r, d in items:
            d["stamped"] = self.next_stamp is not None   # came through a notification queue
            d["g"] = w.gseq
            d["vt"] = round(w.loop.time(), 3)
            if d["kind"] in ("EXISTS", "EXPUNGE", "FETCH"):
                d["srv"] = srv
                d["inflight"] = self.current
                if d["kind"] == "FETCH" and srv is not None:
                    n = d["n"]
                    d["suid"] = srv[n - 1] if 1 <= n <= len(srv) else 0
            if d["kind"] == "TAGGED":
                self.tagged_count[d["tag"]] = self.tagged_count.get(d["tag"], 0) + 1
            d["rawlen"] = len(r.raw)
            self.items.append(d)
            w.all_out.append((self.name, d))
        for ev, pred in list(self.waiters):
            if any(pred(d) for _, d in items):
                ev.set()

    def _on_close(self):
        self.closed = True
        for ev, _ in list(self.waiters):
            ev.set()

    def take(self):
        items, self.items = self.items, []
        if self._buf and self.closed:
            items.append({"kind": "UNPARSED", "why": "trailing bytes without CRLF",
                          "raw": self._buf[:200]})
            self._buf = b""
        return items

    def dangling(self) -> bytes:
        return self._buf


class Result:
    def __init__(self):
        self.status = "NONE"  # OK | NO | BAD | BYE | NONE | CONT
        self.tagged = None
        self.items = []
        self.vt = 0.0
        self.watchdog = False
        self.closed = False

    def __repr__(self):
        return f"<Result {self.status} {self.tagged and self.tagged.get('text')!r} n={len(self.items)}>"


class World:
    def __init__(self, seed=0, pack_limit=None, pack_ratio=None, root=None,
                 keep=False, special_use=True):
        import_asimap()
        self.seed = seed
        self.keep = keep
        self.tmp = Path(root) if root else Path(tempfile.mkdtemp(prefix="verif-w-"))
        self.own_tmp = root is None
        self.jail = self.tmp
        self.maildir = self.tmp / "user" / "Mail"
        self.maildir.mkdir(parents=True, exist_ok=True)
        self.pack_limit = pack_limit
        self.pack_ratio = pack_ratio
        self.server = None
        self.sessions = {}
        self.loop = None
        self.gseq = 0
        self.all_out = []
        self.next_tag = 0
        self.next_msg_id = 1
        self.nsess = 0
        self.generation = 0
        self.lm = None  # logical folder mtimes (replay mode only)
        random.seed(seed)

    # -- lifecycle ---------------------------------------------------------------
    async def start(self, initial_scan=True):
        import asimap.mbox
        import asimap.user_server as us

        self.loop = asyncio.get_running_loop()
        if self.pack_limit is not None:
            asimap.mbox.Mailbox.FOLDER_SIZE_PACK_LIMIT = self.pack_limit
        if self.pack_ratio is not None:
            asimap.mbox.Mailbox.FOLDER_RATIO_PACK_LIMIT = self.pack_ratio
        (self.maildir / "inbox").mkdir(exist_ok=True)
        self.server = await us.IMAPUserServer.new(self.maildir, debug=False)
        await self.server.find_all_folders()
        if initial_scan:
            self.server.initial_folder_scan = True
            await self.server.check_all_folders()
            self.server.initial_folder_scan = False
        self.generation += 1
        return self

    async def stop(self):
        if self.server is not None:
            try:
                await self.server.shutdown()
            finally:
                self.server = None
        for s in self.sessions.values():
            s.closed = True

    async def restart(self):
        await self.stop()
        self.sessions = {}
        await self.start()

    def cleanup(self):
        if self.own_tmp and not self.keep:
            shutil.rmtree(self.tmp, ignore_errors=True)

    # -- sessions ----------------------------------------------------------------
    async def open(self, name, pop3=False):
        import asimap.user_server as us

        self.nsess += 1
        s = Session(self, name, self.nsess)
        s.pop3 = pop3
        proxy = us.IMAPClientProxy(
            self.server, f"client-{name}-{self.nsess:04d}", self.nsess,
            "127.0.0.1", 40000 + self.nsess, s.reader, s.writer,
        )
        s.proxy = proxy
        task = asyncio.create_task(proxy.run(), name=f"sess-{name}")
        task.add_done_callback(self.server.client_done)
        self.server.clients[task] = proxy
        self.server.expiry = None
        s.task = task
        self.sessions[name] = s
        if pop3:
            s.reader.feed_data(b"{4}\nPOP3")
        await asyncio.sleep(0)
        return s

    async def drop(self, name):
        """Abrupt disconnect of a session."""
        s = self.sessions[name]
        s.reader.feed_eof()
        await asyncio.sleep(0.05)

    def feed(self, s, data: bytes):
        s.reader.feed_data(b"{%d}\n" % len(data) + data)

    def new_tag(self):
        self.next_tag += 1
        return f"T{self.next_tag:04d}"

    async def cmd(self, name, text, *, kind=None, uid=False, tag=None,
                  wait="tagged", limit=300.0, settle=0.05):
        """Send one complete command (bytes or str, without tag, without final
        CRLF unless it contains literals and you pass the complete text) and
        wait for its tagged response.  Returns Result."""
        s = self.sessions[name]
        if isinstance(text, str):
            text = text.encode("latin-1")
        tag = tag or self.new_tag()
        line = tag.encode() + b" " + text
        if not line.endswith(b"\r\n"):
            line += b"\r\n"
        res = Result()
        if s.closed or s.task.done():
            res.closed = True
            res.status = "CLOSED"
            return res
        s.current = [tag, kind or text.split(b" ", 1)[0].decode().upper(), uid]
        ev = asyncio.Event()
        if wait == "tagged":
            pred = lambda d: d["kind"] == "TAGGED" and d["tag"] == tag  # noqa
        elif wait == "cont":
            pred = lambda d: d["kind"] in ("CONT",) or (  # noqa
                d["kind"] == "TAGGED" and d["tag"] == tag)
        else:
            pred = wait
        s.waiters.append((ev, pred))
        t0 = self.loop.time()
        self.feed(s, line)
        try:
            try:
                async with asyncio.timeout(limit):
                    await ev.wait()
            except TimeoutError:
                pass
        finally:
            s.waiters = [(e, p) for e, p in s.waiters if e is not ev]
        if settle:
            await asyncio.sleep(settle)
        res.vt = round(self.loop.time() - t0 - (settle or 0), 3)
        res.items = s.take()
        for d in res.items:
            if d["kind"] == "TAGGED" and d["tag"] == tag:
                res.tagged = d
                res.status = d["status"]
        if res.tagged is None:
            if any(d["kind"] == "UBYE" for d in res.items):
                res.status = "BYE"
            elif any(d["kind"] == "CONT" for d in res.items) and wait == "cont":
                res.status = "CONT"
            elif s.closed or s.task.done():
                res.status = "CLOSED"
        if res.tagged is not None and "timed out" in res.tagged.get("text", ""):
            res.watchdog = True
        res.closed = s.closed or s.task.done()
        if wait == "tagged" or res.tagged is not None:
            s.current = None
        return res

    async def raw(self, name, data: bytes, settle=0.05):
        """Feed raw bytes as one frame (no tag handling); used for DONE."""
        s = self.sessions[name]
        self.feed(s, data)
        # let the session task consume the frame (no virtual time passes)
        for _ in range(50):
            await asyncio.sleep(0)
        if settle:
            await asyncio.sleep(settle)
        return s.take()

    async def done(self, name, tag, settle=0.05):
        s = self.sessions[name]
        s.current = [tag, "DONE", False]
        items = await self.raw(name, b"DONE\r\n", settle)
        s.current = None
        res = Result()
        res.items = items
        for d in items:
            if d["kind"] == "TAGGED" and d["tag"] == tag:
                res.tagged = d
                res.status = d["status"]
        return res

    async def advance(self, secs):
        await asyncio.sleep(secs)

    def take_all(self):
        """Untaken output of every session: {name: [items]}"""
        return {n: s.take() for n, s in self.sessions.items()}

    # -- external MH agent ---------------------------------------------------------
    def folder_path(self, mb):
        return self.maildir / mb

    def deliver(self, mb, n=1, unseen=True, adv=True, ids=None):
        """An external MH agent (stdlib mailbox.MH) delivers n messages.
        adv: the folder's modification time moves past what the server has
        recorded (True) or stays within the same second (False)."""
        path = self.folder_path(mb)
        mh = stdmailbox.MH(str(path), create=False)
        keys = []
        got = []
        for k in range(n):
            mid = ids[k] if ids else self.alloc_id()
            key = mh.add(make_msg(mid))
            keys.append(int(key))
            got.append(mid)
        if unseen:
            seqs = mh.get_sequences()
            seqs.setdefault("unseen", [])
            seqs["unseen"] = sorted(set(seqs["unseen"]) | set(keys))
            mh.set_sequences(seqs)
        mh.close()
        self.set_mtime(mb, adv)
        return keys, got

    def known_mtime(self, mb):
        m = self.server.active_mailboxes.get(mb) if self.server else None
        if m is not None:
            return int(m.mtime)
        try:
            c = sqlite3.connect(str(self.maildir / "asimap.db"))
            row = c.execute("select mtime from mailboxes where name=?", (mb,)).fetchone()
            c.close()
            return int(row[0]) if row else 0
        except sqlite3.Error:
            return 0

    def set_mtime(self, mb, adv):
        path = self.folder_path(mb)
        seq = path / ".mh_sequences"
        known = self.known_mtime(mb)
        if adv and getattr(self, "lm", None) is not None:
            self.lm[mb] = self.lm.get(mb, 1) + 1
        if adv:
            cur = max(int(os.path.getmtime(path)),
                      int(os.path.getmtime(seq)) if seq.exists() else 0, known)
            t = cur + 1
        else:
            t = known
        os.utime(path, (t, t))
        if seq.exists():
            os.utime(seq, (t, t))

    def alloc_id(self):
        i = self.next_msg_id
        self.next_msg_id += 1
        return i

    # -- projection ------------------------------------------------------------------
    def read_mh_sequences(self, mb):
        """Parse .mh_sequences the way an MH tool would; returns {name: [keys]}"""
        p = self.folder_path(mb) / ".mh_sequences"
        out = {}
        try:
            txt = p.read_text("latin-1")
        except OSError:
            return out
        for line in txt.splitlines():
            if ":" not in line:
                continue
            name, rest = line.split(":", 1)
            keys = set()
            for part in rest.split():
                if "-" in part:
                    a, b = part.split("-", 1)
                    if a.isdigit() and b.isdigit():
                        keys.update(range(int(a), int(b) + 1))
                elif part.isdigit():
                    keys.add(int(part))
            out[name.strip()] = sorted(keys)
        return out

    def disk_files(self, mb):
        p = self.folder_path(mb)
        out = {}
        try:
            for e in os.listdir(p):
                if e.isdigit() and (p / e).is_file():
                    out[int(e)] = msg_id_of_file(p / e)
        except OSError:
            pass
        return dict(sorted(out.items()))

    def project_mbox(self, mb):
        """Abstract state of one mailbox: memory + folder."""
        m = self.server.active_mailboxes.get(mb) if self.server else None
        files = self.disk_files(mb)
        seqs = self.read_mh_sequences(mb)
        d = {"files": [[k, v] for k, v in files.items()],
             "fseq": sorted([k, norm_flag(nm)] for nm, ks in seqs.items() for k in ks)}
        if m is None:
            d["active"] = False
            return d
        d["active"] = True
        d["vv"] = int(m.uid_vv)
        d["next"] = int(m.next_uid)
        d["deleted"] = bool(m.deleted)
        d["attrs"] = sorted(a for a in m.attributes)
        d["sub"] = bool(m.subscribed)
        msgs = []
        n = max(len(m.msg_keys), len(m.uids))
        for i in range(n):
            key = m.msg_keys[i] if i < len(m.msg_keys) else 0
            uid = m.uids[i] if i < len(m.uids) else 0
            fl = sorted(norm_flag(s) for s, ks in m.sequences.items() if key in ks)
            msgs.append([key, uid, files.get(key, 0), fl])
        d["msgs"] = msgs
        d["num_msgs"] = int(m.num_msgs)
        d["clients"] = sorted(self.sess_name(c) for c in m.clients)
        d["executing"] = len(m.executing_tasks)
        d["mtask"] = bool(hasattr(m, "mgmt_task") and not m.mgmt_task.done())
        return d

    def sess_name(self, client_name):
        for n, s in self.sessions.items():
            if s.proxy.name == client_name:
                return n
        return client_name

    def project_sess(self, name):
        s = self.sessions[name]
        if s.pop3:
            return {"pop3": True, "closed": s.closed or s.task.done()}
        h = s.handler
        pend = []
        for p in h.pending_notifications:
            pb = p.encode("latin-1") if isinstance(p, str) else p
            rs, _ = wire.split_responses(pb)
            for r in rs:
                c = wire.classify(r)
                pend.append([c["kind"], c.get("n", 0)])
        return {"sel": h.mbox.name if h.mbox is not None else "",
                "state": str(h.state.value), "ro": bool(h.examine),
                "idle": bool(h.idling), "pend": pend,
                "closed": s.closed or s.task.done()}

    def mailbox_names(self):
        names = set()
        for root, dirs, _ in os.walk(self.maildir, followlinks=False):
            for dn in dirs:
                names.add(str(Path(root, dn).relative_to(self.maildir)))
        return sorted(names)

    def project(self, mboxes=None):
        mboxes = mboxes if mboxes is not None else self.mailbox_names()
        return {"mb": {mb: self.project_mbox(mb) for mb in mboxes},
                "ss": {n: self.project_sess(n) for n in self.sessions}}

    def db_rows(self):
        """Committed database content (separate connection)."""
        out = {"mb": {}, "uid_vv": None}
        try:
            c = sqlite3.connect(f"file:{self.maildir / 'asimap.db'}?mode=ro", uri=True)
        except sqlite3.Error:
            return out
        try:
            for row in c.execute(
                "select id,name,uid_vv,attributes,mtime,next_uid,num_msgs,num_recent,"
                "uids,msg_keys,subscribed from mailboxes"):
                (i, name, vv, attrs, mtime, nxt, nm, nr, uids, keys, sub) = row
                seqs = {nm_: sq for nm_, sq in c.execute(
                    "select name,sequence from sequences where mailbox_id=?", (i,))}
                out["mb"][name] = {"vv": vv, "attrs": sorted((attrs or "").split(",")),
                                   "mtime": mtime, "next": nxt, "num_msgs": nm,
                                   "uids": uids or "", "keys": keys or "",
                                   "sub": bool(sub), "seqs": seqs}
            r = c.execute("select uid_vv from user_server order by id desc limit 1").fetchone()
            out["uid_vv"] = r[0] if r else None
        except sqlite3.Error as e:
            out["error"] = str(e)
        finally:
            c.close()
        return out


def run_world(coro_fn, *, seed=0, chooser=None, **wkw):
    """Create a World on a fresh SimLoop, run coro_fn(world), tear down."""
    from . import simloop

    w = World(seed=seed, **wkw)

    async def main(loop):
        await w.start()
        try:
            return await coro_fn(w)
        finally:
            try:
                await w.stop()
            except Exception:
                pass

    try:
        return simloop.run(main, chooser=chooser)
    finally:
        w.cleanup()
