"""
Running TLC and reading what it prints.
"""

import os
import re
import shutil
import subprocess
import tempfile
import time

JAR_CP = None
SPEC_DIR = os.path.join(os.path.dirname(os.path.dirname(os.path.abspath(__file__))), "spec")


class TLCResult:
    def __init__(self):
        self.rc = None
        self.out = ""
        self.generated = 0
        self.distinct = 0
        self.depth = 0
        self.error = None  # text of the first error, if any
        self.violated = None  # name of violated invariant / property
        self.prints = []  # parsed PrintT tuples (as python lists)
        self.wall = 0.0
        self.cmd = ""
        self.coverage = {}
        self.complete = False

    def ok(self):
        return self.rc == 0 and self.error is None


_RE_STATES = re.compile(r"(\d+) states generated, (\d+) distinct states found, (\d+) states left on queue")
_RE_DEPTH = re.compile(r"The depth of the complete state graph search is (\d+)")
_RE_INV = re.compile(r"Error: Invariant (\S+) is violated")
_RE_PROP = re.compile(r"Error: Action property (\S+) is violated|Error: Temporal properties were violated")
_RE_COV = re.compile(r"^<(\w+) line \d+, col \d+ to line \d+, col \d+ of module \w+>: (\d+):(\d+)", re.M)


def parse_tla_value(s):
    """Parse the printed form of a TLA+ value made of tuples, sets, strings,
    ints, booleans and records into Python (tuples/sets -> lists)."""
    pos = 0
    n = len(s)

    def ws():
        nonlocal pos
        while pos < n and s[pos] in " \n\t\r":
            pos += 1

    def val():
        nonlocal pos
        ws()
        if s.startswith("<<", pos):
            pos += 2
            items = []
            ws()
            while not s.startswith(">>", pos):
                items.append(val())
                ws()
                if pos < n and s[pos] == ",":
                    pos += 1
                ws()
            pos += 2
            return items
        if s[pos] == "{":
            pos += 1
            items = []
            ws()
            while s[pos] != "}":
                items.append(val())
                ws()
                if s[pos] == ",":
                    pos += 1
                ws()
            pos += 1
            return items
        if s[pos] == "(":
            # function printed as (k1 :> v1 @@ k2 :> v2)
            pos += 1
            d = {}
            ws()
            while s[pos] != ")":
                key = val()
                ws()
                assert s.startswith(":>", pos), s[pos:pos + 20]
                pos += 2
                v = val()
                d[key if isinstance(key, (str, int)) else repr(key)] = v
                ws()
                if s.startswith("@@", pos):
                    pos += 2
                ws()
            pos += 1
            return d
        if s[pos] == "[":
            pos += 1
            d = {}
            ws()
            while s[pos] != "]":
                m = re.compile(r"\s*([A-Za-z_0-9 ]+?)\s*\|->").match(s, pos)
                key = m.group(1)
                pos = m.end()
                d[key] = val()
                ws()
                if s[pos] == ",":
                    pos += 1
                ws()
            pos += 1
            return d
        if s[pos] == '"':
            pos += 1
            buf = []
            while s[pos] != '"':
                if s[pos] == "\\":
                    pos += 1
                buf.append(s[pos])
                pos += 1
            pos += 1
            return "".join(buf)
        m = re.compile(r"-?\d+").match(s, pos)
        if m:
            pos = m.end()
            return int(m.group())
        m = re.compile(r"TRUE|FALSE").match(s, pos)
        if m:
            pos = m.end()
            return m.group() == "TRUE"
        m = re.compile(r"[A-Za-z_][A-Za-z_0-9]*").match(s, pos)
        if m:
            pos = m.end()
            return m.group()
        raise ValueError(f"cannot parse TLA value at {pos}: {s[pos:pos+40]!r}")

    return val()


def _depth_delta(line):
    """Net bracket depth of one output line, ignoring brackets inside strings."""
    d, i, n, instr = 0, 0, len(line), False
    while i < n:
        c = line[i]
        if instr:
            if c == "\\":
                i += 1
            elif c == '"':
                instr = False
        elif c == '"':
            instr = True
        elif line.startswith("<<", i):
            d += 1
            i += 1
        elif line.startswith(">>", i):
            d -= 1
            i += 1
        elif c in "([{":
            d += 1
        elif c in ")]}":
            d -= 1
        i += 1
    return d


PRINT_ERRORS = []


def extract_prints(out):
    """PrintT output starts with << at column 0.  TLC pretty-prints values wider
    than ~80 columns over several (indented) lines: collect lines until the
    brackets balance.  Tuples that can not be parsed are kept in PRINT_ERRORS
    (callers that count DONE/VIOL tuples notice the loss)."""
    res, buf, depth = [], None, 0
    for line in out.splitlines():
        if buf is None:
            if not line.startswith("<<"):
                continue
            buf, depth = [], 0
        elif not (line.startswith(" ") or line.startswith("\t")):
            # a continuation line is indented; anything else ends a broken tuple
            PRINT_ERRORS.append("\n".join(buf)[:300])
            buf = None
            if not line.startswith("<<"):
                continue
            buf, depth = [], 0
        buf.append(line.strip())
        depth += _depth_delta(line)
        if depth <= 0:
            text = " ".join(buf)
            buf = None
            try:
                res.append(parse_tla_value(text))
            except (ValueError, IndexError, AttributeError):
                PRINT_ERRORS.append(text[:300])
    if buf:
        PRINT_ERRORS.append("\n".join(buf)[:300])
    return res


def run(module, cfg, *, env=None, workers=1, extra=(), timeout=3600, spec_dir=None,
        simulate=None, depth=None, seed=None, coverage=False, deadlock=False, dfs=False):
    """Run TLC on spec/<module>.tla with config text/file `cfg` (a path relative to
    spec/cfg or literal cfg text containing a newline)."""
    spec_dir = spec_dir or SPEC_DIR
    r = TLCResult()
    meta = tempfile.mkdtemp(prefix="verif-tlc-")
    try:
        if "\n" in cfg:
            cfgpath = os.path.join(meta, "model.cfg")
            with open(cfgpath, "w") as f:
                f.write(cfg)
        else:
            cfgpath = cfg if os.path.isabs(cfg) else os.path.join(spec_dir, "cfg", cfg)
        cmd = ["tlc", "-workers", str(workers), "-metadir", os.path.join(meta, "md"),
               "-noGenerateSpecTE", "-checkpoint", "0", "-config", cfgpath]
        if not deadlock:
            cmd.append("-deadlock")
        if simulate:
            cmd += ["-simulate", simulate]
        if depth:
            cmd += ["-depth", str(depth)]
        if seed is not None:
            cmd += ["-seed", str(seed)]
        if coverage:
            cmd += ["-coverage", "1"]
        cmd += list(extra)
        cmd.append(os.path.join(spec_dir, module + ".tla"))
        e = dict(os.environ)
        if env:
            e.update(env)
        if dfs:
            e["JAVA_TOOL_OPTIONS"] = (e.get("JAVA_TOOL_OPTIONS", "") +
                                      " -Dtlc2.tool.queue.IStateQueue=StateDeque").strip()
        r.cmd = " ".join(cmd)
        t0 = time.time()
        try:
            p = subprocess.run(cmd, cwd=spec_dir, env=e, capture_output=True, text=True,
                               timeout=timeout)
            r.rc = p.returncode
            r.out = p.stdout + p.stderr
        except subprocess.TimeoutExpired as ex:
            r.rc = -9
            r.out = (ex.stdout or b"").decode("utf8", "replace") if isinstance(ex.stdout, bytes) else (ex.stdout or "")
            r.error = "timeout"
            subprocess.run(["pkill", "-f", meta], capture_output=True)
        r.wall = time.time() - t0
    finally:
        shutil.rmtree(meta, ignore_errors=True)
    m = None
    for m in _RE_STATES.finditer(r.out):
        pass
    if m:
        r.generated, r.distinct = int(m.group(1)), int(m.group(2))
        r.complete = int(m.group(3)) == 0
    m = _RE_DEPTH.search(r.out)
    if m:
        r.depth = int(m.group(1))
    m = _RE_INV.search(r.out)
    if m:
        r.violated = m.group(1)
    m = _RE_PROP.search(r.out)
    if m and not r.violated:
        r.violated = m.group(1) or "temporal"
    if r.error is None:
        i = r.out.find("Error:")
        if i >= 0:
            r.error = r.out[i:i + 1500]
    for m in _RE_COV.finditer(r.out):
        r.coverage[m.group(1)] = r.coverage.get(m.group(1), 0) + int(m.group(2))
    r.prints = extract_prints(r.out)
    return r
