"""
C18 drivers: the real throttle functions and the real IMAP / POP3 front ends of
asimap under a controlled clock, with a stub in place of the user process that
records whether it was ever contacted.

Nothing here decides anything: it executes plans, records what the
implementation answered, and renders that as JSON for TLC
(spec/ThrottleTrace.tla).

  * unit level  -- `run_unit`: a pre-state is installed into
    BAD_USER_AUTHS / BAD_IP_AUTHS, the clock is set, check_allow (and, as the
    login path does, login_failed after a let-through bad attempt) is called.
  * end to end -- `run_plans`: timed sequences of LOGIN / USER+PASS attempts and
    of every other pre-authentication command through
    IMAPSubprocessInterface.message / POP3SubprocessInterface.message.

The clock of asimap.throttle is replaced by `Clock` (integer seconds; it stands
still during an attempt).  The event loop is the virtual-time SimLoop, so the
10 s penalty sleep of a refused LOGIN costs nothing.
"""

import asyncio
import hashlib
import os
import random
import re
import shutil
import sys
import tempfile
import types

from . import simloop
from .world import REPO, import_asimap

NOW0 = 1_000_000

ACCOUNTS = {  # name -> (kind, password that is / would be right)
    "alice": ("normal", "sesame-alice"),
    "bob": ("normal", "sesame-bob"),
    "dis": ("disabled", "sesame-dis"),
    "ghost": ("unknown", "sesame-ghost"),
}
WRONG = "not-the-password"

IMAP_CMDS = [
    "NOOP", "CAPABILITY", "NAMESPACE", "ID NIL", "SELECT INBOX", "EXAMINE INBOX",
    "CREATE foo", "DELETE inbox", "RENAME inbox foo", "SUBSCRIBE inbox",
    "UNSUBSCRIBE inbox", 'LIST "" "*"', 'LSUB "" "*"', "STATUS inbox (MESSAGES UNSEEN)",
    "APPEND inbox {5}\r\nhello", "CHECK", "CLOSE", "EXPUNGE", "SEARCH ALL",
    "FETCH 1 (FLAGS BODY[])", "STORE 1 +FLAGS (\\Deleted)", "COPY 1 foo", "MOVE 1 foo",
    "UID FETCH 1:* (FLAGS)", "UID STORE 1 +FLAGS (\\Deleted)", "UID EXPUNGE 1",
    "UID COPY 1 foo", "UID SEARCH ALL", "UNSELECT", "AUTHENTICATE PLAIN", "IDLE", "DONE",
    "LOGIN", "LOGIN alice", "XYZZY", "LOGOUT",
]
POP3_CMDS = [
    "STAT", "LIST", "LIST 1", "RETR 1", "DELE 1", "NOOP", "RSET", "TOP 1 0", "UIDL",
    "UIDL 1", "CAPA", "PASS sesame-alice", "PASS", "USER", "XYZZY", "QUIT",
]
NCMDS = max(len(IMAP_CMDS), len(POP3_CMDS))


class Clock:
    def __init__(self):
        self.now = NOW0

    def time(self):
        return float(self.now)


class H:
    """Process-wide harness state."""
    loaded = False
    clock = Clock()
    contacts = []
    tmp = None
    mods = None


# ---------------------------------------------------------------------------
# stub user process
#
class FakeSubprocess:
    def __init__(self, user, **kw):
        H.contacts.append(("spawn", str(user)))
        self.user = user
        self.is_alive = False
        self.port = None
        self.has_port = asyncio.Event()

    async def start(self):
        H.contacts.append(("start", str(self.user)))
        self.is_alive = True
        self.port = 9
        self.has_port.set()

    def terminate(self):
        pass

    def __str__(self):
        return f"FakeSubprocess({self.user})"


class SubWriter:
    def __init__(self):
        self.closed = False

    def write(self, data):
        H.contacts.append(("write", bytes(data)[:40]))

    async def drain(self):
        return

    def close(self):
        self.closed = True

    def is_closing(self):
        return self.closed

    async def wait_closed(self):
        return

    def get_extra_info(self, name, default=None):
        return default


async def _fake_open_connection(host=None, port=None, **kw):
    H.contacts.append(("connect", port))
    return asyncio.StreamReader(), SubWriter()


async def _fake_subprocess_exec(*a, **kw):
    H.contacts.append(("exec", str(a[:2])))
    raise OSError("verif: no subprocesses here")


class ClientWriter:
    def __init__(self, addr, port):
        self.addr, self.port = addr, port
        self.buf = []
        self.closed = False

    def write(self, data):
        self.buf.append(bytes(data))

    async def drain(self):
        return

    def close(self):
        self.closed = True

    def is_closing(self):
        return self.closed

    async def wait_closed(self):
        return

    def get_extra_info(self, name, default=None):
        if name == "peername":
            return (self.addr, self.port)
        return default

    def take(self):
        data = b"".join(self.buf)
        self.buf = []
        return data.decode("latin-1")


class SrvStub:
    debug = False
    log_config = None
    trace = False
    trace_dir = None


# ---------------------------------------------------------------------------
def md5_hash(pw, salt="verifsalt"):
    return "md5$%s$%s" % (salt, hashlib.md5((salt + pw).encode()).hexdigest())


def load():
    """Import the code under test, install the clock and the stubs."""
    if H.loaded:
        return H.mods
    import_asimap()
    import asimap.auth
    import asimap.hashers
    import asimap.pop3_server
    import asimap.server
    import asimap.throttle

    th = asimap.throttle
    th.time = types.SimpleNamespace(time=H.clock.time)
    # cheap password hashing for thousands of attempts: a deployment setting
    hs = asimap.hashers
    if "asimap.hashers.MD5PasswordHasher" not in hs.PASSWORD_HASHERS:
        hs.PASSWORD_HASHERS.append("asimap.hashers.MD5PasswordHasher")
    hs.get_hashers.cache_clear()
    hs.get_hashers_by_algorithm.cache_clear()
    asimap.server.IMAPSubprocess = FakeSubprocess
    asimap.pop3_server.IMAPSubprocess = FakeSubprocess
    asyncio.open_connection = _fake_open_connection
    asyncio.create_subprocess_exec = _fake_subprocess_exec
    H.mods = types.SimpleNamespace(th=th, auth=asimap.auth, server=asimap.server,
                                   pop3=asimap.pop3_server)
    H.loaded = True
    return H.mods


def _entry(tab, key, now):
    try:
        v = tab.get(key)
        if v is None:
            return [0, 0]
        return [int(v[0]), int(now - v[1])]
    except Exception:  # noqa
        return [0, 0]


# ---------------------------------------------------------------------------
# unit level
#
DECOYS_U = {"decoy-hot": (9, 0), "decoy-cold": (2, 1000)}
DECOYS_A = {"10.9.9.9": (9, 0), "10.9.9.8": (2, 1000)}


def run_unit(cases):
    """cases: list of dicts {gu:[s,l,age], ga:[s,l,age], tu:[c,age], ta:[c,age],
    good:bool}.  Returns the list of "Unit" events (the case plus what the
    implementation did)."""
    m = load()
    th = m.th
    out = []
    u, a = "alice", "10.0.0.1"
    now = NOW0
    for c in cases:
        H.clock.now = now
        th.BAD_USER_AUTHS.clear()
        th.BAD_IP_AUTHS.clear()
        for k, (n, age) in DECOYS_U.items():
            th.BAD_USER_AUTHS[k] = (n, float(now - age))
        for k, (n, age) in DECOYS_A.items():
            th.BAD_IP_AUTHS[k] = (n, float(now - age))
        if c["tu"][0] > 0:
            th.BAD_USER_AUTHS[u] = (c["tu"][0], float(now - c["tu"][1]))
        if c["ta"][0] > 0:
            th.BAD_IP_AUTHS[a] = (c["ta"][0], float(now - c["ta"][1]))
        allowed = bool(th.check_allow(u, a))
        if allowed and not c["good"]:
            th.login_failed(u, a)
        others = all(_entry(th.BAD_USER_AUTHS, k, now) == [n, age] for k, (n, age) in DECOYS_U.items()) \
            and all(_entry(th.BAD_IP_AUTHS, k, now) == [n, age] for k, (n, age) in DECOYS_A.items()) \
            and len(th.BAD_USER_AUTHS) <= len(DECOYS_U) + 1 and len(th.BAD_IP_AUTHS) <= len(DECOYS_A) + 1
        ev = dict(c)
        ev.update(act="Unit", allowed=allowed, ptu=_entry(th.BAD_USER_AUTHS, u, now),
                  pta=_entry(th.BAD_IP_AUTHS, a, now), others=bool(others))
        out.append(ev)
    th.BAD_USER_AUTHS.clear()
    th.BAD_IP_AUTHS.clear()
    return out


# ---------------------------------------------------------------------------
# end to end
#
class Front:
    """The accounts, and the not-yet-authenticated connections by (proto, addr)."""

    def __init__(self, seed=0):
        self.m = load()
        self.rng = random.Random(seed)
        self.conns = {}
        self.nconn = 0
        self.ntag = 0
        self.events = [{"act": "Init"}]
        self.dir = tempfile.mkdtemp(prefix="verif-c18-")
        self.accounts = {k: list(v) for k, v in ACCOUNTS.items()}
        self.old = {}
        self.pwfile = pw = os.path.join(self.dir, "pwfile")
        self.pw_mtime = 1_600_000_000
        for name, (kind, secret) in ACCOUNTS.items():
            md = os.path.join(self.dir, "mail-" + name)
            os.makedirs(os.path.join(md, "inbox"))
            with open(os.path.join(md, "inbox", "1"), "w") as g:
                g.write(f"From: x@example.com\nSubject: for {name}\n\nprivate {name}\n")
            with open(os.path.join(md, "inbox", ".mh_sequences"), "w") as g:
                g.write("unseen: 1\n")
        self.write_pwfile()
        self.m.auth.PW_FILE_LOCATION = pw
        self.m.auth.PW_FILE_LAST_TIMESTAMP = 0.0
        self.m.auth.USERS.clear()
        self.m.th.BAD_USER_AUTHS.clear()
        self.m.th.BAD_IP_AUTHS.clear()
        self.m.server.USER_IMAP_SUBPROCESSES.clear()
        H.clock.now = NOW0
        self.snap0 = self.snapshot()

    def write_pwfile(self):
        with open(self.pwfile, "w") as f:
            for name, (kind, secret) in self.accounts.items():
                if kind == "unknown":
                    continue
                md = os.path.join(self.dir, "mail-" + name)
                h = md5_hash(secret) if kind == "normal" else "!" + "x" * 40
                f.write(f"{name}:{h}:{md}\n")
        self.pw_mtime += 10
        os.utime(self.pwfile, (self.pw_mtime, self.pw_mtime))

    def setpw(self, user, what):
        """The administrator changes / disables / re-enables / creates an account."""
        kind, secret = self.accounts[user]
        if what == "new":
            self.old[user] = secret
            self.accounts[user] = ["normal", secret + "-next"]
        elif what == "disable":
            self.accounts[user] = ["disabled", secret]
        elif what == "enable":
            self.accounts[user] = ["normal", secret]
        elif what == "remove":
            self.accounts[user] = ["unknown", secret]
        self.write_pwfile()

    def close(self):
        shutil.rmtree(self.dir, ignore_errors=True)
        self.m.server.USER_IMAP_SUBPROCESSES.clear()

    def snapshot(self):
        res = []
        for root, dirs, files in sorted(os.walk(self.dir)):
            dirs.sort()
            for fn in sorted(files):
                p = os.path.join(root, fn)
                if fn == "pwfile":
                    continue
                with open(p, "rb") as f:
                    res.append((os.path.relpath(p, self.dir), f.read()))
            res.append((os.path.relpath(root, self.dir), tuple(dirs)))
        return res

    # -- connections -------------------------------------------------------------
    def conn(self, proto, addr):
        c = self.conns.get((proto, addr))
        if c is None:
            self.nconn += 1
            port = 30000 + self.nconn
            w = ClientWriter(addr, port)
            if proto == "imap":
                cl = self.m.server.IMAPClient(SrvStub(), f"{addr}:{port}", addr, port,
                                              asyncio.StreamReader(), w)
            else:
                cl = self.m.pop3.POP3Client(SrvStub(), f"{addr}:{port}", addr, port,
                                            asyncio.StreamReader(), w)
            c = types.SimpleNamespace(id=f"c{self.nconn}", proto=proto, addr=addr, cl=cl, w=w)
            self.conns[(proto, addr)] = c
        return c

    def drop(self, c):
        self.conns.pop((c.proto, c.addr), None)
        t = getattr(c.cl.subprocess_intf, "wait_task", None)
        if t is not None:
            t.cancel()

    def gate(self, c):
        intf = c.cl.subprocess_intf
        try:
            if c.proto == "imap":
                return str(intf.client_handler.state) in ("authenticated", "selected")
            return intf.state == "transaction"
        except Exception:  # noqa
            return False

    async def send(self, c, line):
        """One complete client message; returns (text the client received, alive)."""
        try:
            alive = await c.cl.subprocess_intf.message(line.encode("latin-1"))
        except (ConnectionError, asyncio.IncompleteReadError):
            alive = False
        return c.w.take(), bool(alive)

    def imap_arg(self, s):
        k = self.rng.randrange(3)
        if s == "" or k == 0:
            return '"' + s + '"'
        if k == 1:
            return "{%d}\r\n%s" % (len(s), s)
        return s

    # -- actions -------------------------------------------------------------------
    async def attempt(self, proto, user, addr, cred):
        kind, secret = self.accounts[user]
        pw = {"good": secret, "wrong": WRONG, "empty": "", "old": self.old.get(user, WRONG)}[cred]
        good = kind == "normal" and cred == "good"
        c = self.conn(proto, addr)
        n0 = len(H.contacts)
        now = H.clock.now
        if proto == "imap":
            self.ntag += 1
            tag = f"T{self.ntag}"
            text, alive = await self.send(c, f"{tag} LOGIN {self.imap_arg(user)} {self.imap_arg(pw)}")
            m = re.search(r"^%s (OK|NO|BAD)\b(.*)$" % tag, text, re.M)
            if m is None:
                out = "other"
            elif m.group(1) == "OK":
                out = "ok"
            elif m.group(1) == "NO":
                out = "failed"
            elif "too many" in m.group(2).lower():
                out = "refused"
            else:
                out = "other"
        else:
            c.user_given = True
            # a client that guesses again on the same connection need not repeat USER: every other
            # repeated attempt for the user name already on record is a bare PASS
            c.pass_only = (getattr(c, "pop_user", None) == user) and not getattr(c, "pass_only", False)
            alive = True
            if not c.pass_only:
                text, alive = await self.send(c, f"USER {user}")
                c.pop_user = user if alive else None
            if alive:
                text, alive = await self.send(c, f"PASS {pw}".rstrip())
            if not alive:
                c.pop_user = None
            low = text.lower()
            if text.startswith("+OK"):
                out = "ok"
            elif "too many" in low:
                out = "refused"
            elif "invalid username or password" in low:
                out = "failed"
            else:
                out = "other"
        gate = self.gate(c)
        contact = len(H.contacts) > n0
        th = self.m.th
        self.events.append({
            "act": "Attempt", "t": now, "conn": c.id, "proto": proto, "u": user, "a": addr,
            "cred": cred, "good": good, "out": out, "contact": contact, "gate": gate,
            "tu": _entry(th.BAD_USER_AUTHS, user, H.clock.now),
            "ta": _entry(th.BAD_IP_AUTHS, addr, H.clock.now),
            "reply": text.strip()[-80:]})
        if out == "ok" or gate or not alive:
            self.drop(c)
        return out

    async def cmd(self, proto, addr, idx):
        cmds = IMAP_CMDS if proto == "imap" else POP3_CMDS
        line = cmds[(idx - 1) % len(cmds)]
        c = self.conn(proto, addr)
        n0 = len(H.contacts)
        if proto == "pop3" and line.startswith("PASS ") and getattr(c, "user_given", False):
            line = "PASS"  # with a user name on record "PASS x" is an attempt, not a mere command
        if proto == "imap" and line != "DONE":
            self.ntag += 1
            line = f"T{self.ntag} {line}"
        text, alive = await self.send(c, line)
        gate = self.gate(c)
        self.events.append({
            "act": "Cmd", "t": H.clock.now, "conn": c.id, "proto": proto, "u": "", "a": addr,
            "cred": "", "good": False, "out": "other", "contact": len(H.contacts) > n0,
            "gate": gate, "tu": [0, 0], "ta": [0, 0], "cmd": line[:40],
            "reply": text.strip()[-80:]})
        if gate or not alive:
            self.drop(c)

    def final(self):
        """A last pseudo command: did anything in the mail directories change?"""
        changed = self.snapshot() != self.snap0
        self.events.append({
            "act": "Cmd", "t": H.clock.now, "conn": "fs", "proto": "fs", "u": "", "a": "",
            "cred": "", "good": False, "out": "other", "contact": bool(changed), "gate": False,
            "tu": [0, 0], "ta": [0, 0], "cmd": "(mail directories compared)", "reply": ""})


async def _run_plan(plan, seed):
    fr = Front(seed)
    try:
        for st in plan:
            if st[0] == "tick":
                H.clock.now += int(st[1])
            elif st[0] == "attempt":
                await fr.attempt(st[1], st[2], st[3], st[4])
            elif st[0] == "cmd":
                await fr.cmd(st[1], st[2], st[3])
            elif st[0] == "setpw":
                fr.setpw(st[1], st[2])
        fr.final()
        return fr.events
    finally:
        fr.close()


def run_plans(plans, seed=0):
    """Execute plans (lists of ("tick", d) | ("attempt", proto, user, addr, cred)
    | ("cmd", proto, addr, idx)); returns one trace per plan."""
    load()

    async def main(loop):
        res = []
        for i, p in enumerate(plans):
            res.append(await _run_plan(p, seed + i))
        return res

    return simloop.run(main)


# ---------------------------------------------------------------------------
# plans
#
USERS = ["alice", "bob", "dis", "ghost"]
ADDRS = ["10.0.0.1", "10.0.0.2", "10.0.0.3"]


def random_plan(seed, length=60):
    """Seeded random timed sequence, biased towards lock-outs and the purge
    boundary."""
    r = random.Random(seed)
    users = r.sample(USERS, r.choice([1, 2, 2, 3, 4]))
    addrs = r.sample(ADDRS, r.choice([1, 1, 2, 3]))
    p_good = r.choice([0.05, 0.15, 0.3])
    p_cmd = r.choice([0.05, 0.15])
    far = r.choice([[59, 60, 61], [59, 60, 61, 62, 120], [58, 59, 60, 61, 3600]])
    plan = []
    for _ in range(length):
        x = r.random()
        if x < 0.25:
            plan.append(("tick", r.choice([1, 1, 2, 5, 10, 29, 30]) if r.random() < 0.7 else r.choice(far)))
        elif x < 0.25 + p_cmd:
            plan.append(("cmd", r.choice(["imap", "pop3"]), r.choice(addrs), r.randrange(1, NCMDS + 1)))
        elif x < 0.27 + p_cmd:
            plan.append(("setpw", r.choice(users), r.choice(["new", "disable", "enable", "remove"])))
        else:
            y = r.random()
            cred = "good" if y < p_good else ("empty" if y < p_good + 0.08 else
                                              ("old" if y < p_good + 0.12 else "wrong"))
            plan.append(("attempt", r.choice(["imap", "pop3"]), r.choice(users), r.choice(addrs), cred))
    return plan


def directed_plans():
    """Short histories around the thresholds and the purge boundary."""
    A, B, C = ADDRS
    out = {}
    for proto in ("imap", "pop3"):
        other = "pop3" if proto == "imap" else "imap"
        # user ramp from changing addresses, then the right password, both protocols
        p = []
        for i in range(5):
            p += [("attempt", proto, "alice", ADDRS[i % 3], "wrong"), ("tick", 1)]
        p += [("attempt", proto, "alice", A, "good"), ("attempt", other, "alice", B, "good"),
              ("attempt", proto, "bob", C, "good"),
              ("tick", 58), ("attempt", proto, "alice", A, "good"),       # 59 s after the last failure
              ("tick", 1), ("attempt", other, "alice", A, "good"),        # 60 s: open
              ("tick", 1), ("attempt", proto, "alice", A, "good")]        # 61 s: released
        out[f"user-ramp-{proto}"] = p
        # address ramp with changing user names
        p = []
        for i in range(6):
            p += [("attempt", proto, USERS[i % 4], A, "wrong"), ("tick", 2)]
        p += [("attempt", proto, "bob", A, "good"), ("attempt", other, "bob", A, "good"),
              ("attempt", proto, "bob", B, "good"),
              ("tick", 57), ("attempt", proto, "alice", A, "good"),       # 59 s
              ("tick", 2), ("attempt", proto, "alice", A, "good")]        # 61 s
        out[f"addr-ramp-{proto}"] = p
        # failures 59 s apart stay one run; 61 s apart do not
        p = []
        for i in range(5):
            p += [("attempt", proto, "bob", ADDRS[i % 3], "wrong"), ("tick", 59)]
        p += [("attempt", other, "bob", A, "good"), ("tick", 2), ("attempt", other, "bob", A, "good")]
        out[f"slow-ramp-59-{proto}"] = p
        p = []
        for i in range(7):
            p += [("attempt", proto, "bob", A, "wrong"), ("tick", 61)]
        p += [("attempt", proto, "bob", A, "good")]
        out[f"slow-ramp-61-{proto}"] = p
        # disabled / unknown / empty never authenticate, and are throttled alike
        p = []
        for u in ("dis", "ghost"):
            for cred in ("good", "wrong", "empty", "good", "good", "good", "good"):
                p += [("attempt", proto, u, B, cred)]
            p += [("tick", 61)]
        out[f"no-account-{proto}"] = p
        # "the account's current password": change, disable, re-enable, remove
        out[f"password-changes-{proto}"] = [
            ("attempt", proto, "alice", C, "good"), ("setpw", "alice", "new"),
            ("attempt", proto, "alice", C, "old"), ("attempt", other, "alice", C, "good"),
            ("setpw", "bob", "disable"), ("attempt", proto, "bob", C, "good"),
            ("attempt", other, "bob", C, "empty"), ("setpw", "bob", "enable"),
            ("attempt", proto, "bob", C, "good"), ("setpw", "bob", "remove"),
            ("attempt", proto, "bob", C, "good"), ("tick", 61),
            ("setpw", "alice", "new"), ("attempt", proto, "alice", B, "old"),
            ("attempt", proto, "alice", B, "good")]
        # every other command before login, before and after a failed and a refused attempt
        p = [("cmd", proto, A, i) for i in range(1, NCMDS + 1)]
        p += [("attempt", proto, "alice", A, "wrong")] * 6
        p += [("cmd", proto, A, i) for i in range(1, NCMDS + 1)]
        p += [("tick", 61), ("attempt", proto, "alice", A, "good"), ("cmd", proto, A, 5)]
        out[f"preauth-cmds-{proto}"] = p
    return out


def plan_from_behaviour(states):
    """A behaviour of spec/Throttle.tla (list of states with `last`) as a plan,
    plus the outcomes the model predicts."""
    plan, pred = [], []
    amap = {}
    for st in states[1:]:
        e = st["last"]
        if e["act"] == "Tick":
            plan.append(("tick", e["d"]))
        elif e["act"] == "Attempt":
            a = amap.setdefault(e["a"], ADDRS[len(amap) % len(ADDRS)])
            plan.append(("attempt", e["proto"], e["u"], a, e["cred"]))
            pred.append(e["out"])
        elif e["act"] == "Cmd":
            a = amap.setdefault(e["a"], ADDRS[len(amap) % len(ADDRS)])
            plan.append(("cmd", e["proto"], a, e["cmd"]))
    return plan, pred


_STATE_RE = re.compile(r"^STATE_\d+ ==\s*$", re.M)


def parse_behaviour(path):
    from .tlc import parse_tla_value
    txt = open(path).read()
    parts = _STATE_RE.split(txt)[1:]
    states = []
    for p in parts:
        p = p.split("\n\\*")[0].split("=====")[0]
        st = {}
        for c in re.split(r"^/\\ ", p, flags=re.M)[1:]:
            name, val = c.split(" = ", 1)
            if name.strip() == "last":
                st["last"] = parse_tla_value(val.strip())
        states.append(st)
    return states
