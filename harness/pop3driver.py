"""
C20 driver: renders the steps of spec/Pop3.tla (POP3 commands, IMAP-side and
external steps) to bytes and files, runs them against the real user server
(POP3ClientProxy next to IMAP sessions, in-process, virtual time) and records
every step as an *event* of spec/Pop3Props.tla.

Python here only drives, renders, reads and records:
  * read_reply() is an independent RFC 1939 reply reader (status line,
    multi-line body up to the first lone ".", what follows it);
  * observe() reads INBOX through an IMAP session (UID + identity header);
no clause of the property is evaluated here -- that is done by TLC on the
recorded events (spec/Pop3Trace.tla).
"""

import os
import re

from . import simloop, wire
from .world import World

SHAPE = {"dot": ".", "dotdot": "..", "dotx": ".x", "x": "x", "empty": ""}
IDX = 6  # 1-based index of the X-Verif-Id line among the header lines
INT_MAX = 2 ** 31 - 1

BAD_VARIANTS = [b"FROB 1", b"RETR", b"RETR abc", b"DELE 1 2", b"TOP 1", b"TOP 1 -1",
                b"LIST 99999999999999999999", b"", b"UIDL x", b"RETR -1", b"DELE 1.0"]


# ---------------------------------------------------------------------------
# message texts
#
def header_lines(mid):
    return [f"From: sender{mid}@example.com", f"To: rcpt{mid}@example.org",
            f"Subject: verif message {mid}", "Date: Mon, 7 Feb 1994 21:52:25 -0800",
            f"Message-ID: <verif-{mid}@example.com>", f"X-Verif-Id: {mid}"]


def body_lines(b):
    return [SHAPE[s] for s in b.get("shapes", [])] + list(b.get("raw", []))


def render(mid, b, nl):
    """The octets of message `mid` with body b = {shapes, raw, fnl} and line
    ending nl; without the final line ending if not b["fnl"]."""
    lines = header_lines(mid) + [""] + body_lines(b)
    data = nl.join(lines) + nl
    if not b.get("fnl", True):
        assert lines[-1] != ""
        data = data[: -len(nl)]
    return data.encode("latin-1")


def cat_entry(mid, b):
    return {"hdr": [list(x.encode("latin-1")) for x in header_lines(mid)], "idx": IDX,
            "shapes": list(b.get("shapes", [])),
            "raw": [list(x.encode("latin-1")) for x in b.get("raw", [])]}


# ---------------------------------------------------------------------------
# the POP3 reply reader
#
def read_reply(data: bytes, multi_cmd: bool, want_pairs: bool):
    ev = {"st": "none", "nums": [], "lines": [], "term": False, "extra": 0, "pairs": []}
    if not data:
        return ev
    eol = data.find(b"\r\n")
    if eol < 0:
        ev["st"] = "other"
        ev["extra"] = len(data)
        return ev
    status = data[:eol]
    rest = data[eol + 2:]
    if status.startswith(b"+OK"):
        ev["st"] = "ok"
        tail = status[3:]
    elif status.startswith(b"-ERR"):
        ev["st"] = "err"
        tail = status[4:]
    else:
        ev["st"] = "other"
        tail = b""
    if b"\r" in status or b"\n" in status:
        ev["st"] = "other"
    ev["nums"] = [min(int(x), INT_MAX) for x in re.findall(rb"\d+", tail)]
    if not (multi_cmd and ev["st"] == "ok"):
        ev["extra"] = len(rest)
        return ev
    pos = 0
    while True:
        e = rest.find(b"\r\n", pos)
        if e < 0:
            ev["extra"] = len(rest) - pos        # an unterminated rest
            break
        line = rest[pos:e]
        pos = e + 2
        ev["lines"].append(list(line))
        if line == b".":
            ev["term"] = True
            ev["extra"] = len(rest) - pos
            break
    if want_pairs:
        body = ev["lines"][:-1] if ev["term"] else ev["lines"]
        for ln in body:
            parts = bytes(ln).split(b" ")
            if len(parts) == 2 and parts[0].isdigit() and parts[1].isdigit():
                ev["pairs"].append([min(int(parts[0]), INT_MAX), min(int(parts[1]), INT_MAX)])
            else:
                ev["pairs"].append([-1, -1])
    return ev


def pop3_bytes(step, idx, seed):
    a, n, k = step["act"], step.get("n", 0), step.get("k", 0)
    if a == "Bad":
        v = step.get("v")
        if v is None:
            v = (seed * 7 + idx * 3) % len(BAD_VARIANTS)
        return BAD_VARIANTS[v % len(BAD_VARIANTS)]
    return {"Stat": "STAT", "List": "LIST", "ListN": f"LIST {n}", "Uidl": "UIDL", "UidlN": f"UIDL {n}",
            "Retr": f"RETR {n}", "Top": f"TOP {n} {k}", "Dele": f"DELE {n}", "Rset": "RSET",
            "Noop": "NOOP", "Quit": "QUIT"}[a].encode()


# ---------------------------------------------------------------------------
_IDH = re.compile(rb"X-Verif-Id: (\d+)")


async def observe(w):
    """INBOX as an IMAP session sees it: [{uid, id}] in UID order."""
    s = w.sessions["O"]
    n0 = len(s.raw)
    await w.cmd("O", "UID FETCH 1:* (UID BODY.PEEK[HEADER.FIELDS (X-VERIF-ID)])", settle=0)
    resps, _ = wire.split_responses(bytes(s.raw[n0:]))
    out = {}
    for r in resps:
        d = wire.classify(r)
        if d.get("kind") == "FETCH" and "uid" in d and b"BODY[" in r.raw.upper():
            m = _IDH.search(r.raw)
            out[d["uid"]] = int(m.group(1)) if m else 0
    return [{"uid": u, "id": i} for u, i in sorted(out.items())]


def kmap(w):
    """<<uid, MH file number>> of the messages of INBOX (context for reports only)."""
    try:
        return [[int(u), int(k)] for k, u, _, _ in w.project_mbox("inbox").get("msgs", [])]
    except Exception:
        return []


def put_file(w, data: bytes):
    """The external MH agent stores a message under the next free number."""
    p = w.folder_path("inbox")
    keys = [int(e) for e in os.listdir(p) if e.isdigit()]
    key = (max(keys) + 1) if keys else 1
    fd = os.open(p / str(key), os.O_WRONLY | os.O_CREAT | os.O_EXCL, 0o600)
    with os.fdopen(fd, "wb") as f:
        f.write(data)
    w.set_mtime("inbox", True)
    return key


async def run_history(w, case, seed=0):
    """case: {count, gap, bod: {id: {shapes, raw, fnl}}, steps: [...]}.
    Returns {"cat": [...], "steps": [events]}."""
    count, gap = case["count"], case.get("gap", 0)
    bod = {int(k): v for k, v in case["bod"].items()}
    maxid = max(bod)
    junk = {maxid + 1 + j: {"shapes": ["x"], "fnl": True} for j in range(gap)}
    allb = dict(bod)
    allb.update(junk)
    cat = [cat_entry(i, allb[i]) for i in range(1, maxid + gap + 1)]
    await w.open("B")
    await w.open("O")
    for j in sorted(junk):
        put_file(w, render(j, junk[j], "\n"))
    for i in range(1, count + 1):
        put_file(w, render(i, bod[i], "\n"))
    await w.cmd("B", "SELECT inbox")
    await w.cmd("O", "SELECT inbox")
    box = await observe(w)
    for x in box:
        if x["id"] in junk:
            await w.cmd("B", f"UID STORE {x['uid']} +FLAGS.SILENT (\\Deleted)")
    if junk:
        await w.cmd("B", "EXPUNGE")
    box = await observe(w)
    km = kmap(w)
    events = []

    def base(step):
        return {"act": step["act"], "sub": step.get("sub", ""), "n": int(step.get("n", 0)),
                "k": int(step.get("k", 0)), "st": "none", "nums": [], "lines": [], "term": False,
                "extra": 0, "pairs": [], "closed": False, "pre": box, "post": box, "sent": "",
                "kmap": km, "kpost": km}

    for idx, step in enumerate(case["steps"]):
        a = step["act"]
        ev = base(step)
        ps = w.sessions.get("P")
        if a == "Open":
            if ps is not None:
                continue
            ps = await w.open("P", pop3=True)
            # the snapshot is taken when the session starts; a NOOP that has been
            # answered tells that it has been taken
            await w.raw("P", b"NOOP\r\n")
            for _ in range(100):
                if ps.raw or ps.closed or ps.task.done():
                    break
                await w.advance(0.05)
        elif a == "Imap":
            sub = step["sub"]
            if sub == "Append":
                m = render(step["n"], bod[step["n"]], "\r\n")
                await w.cmd("B", b"APPEND inbox {%d}\r\n" % len(m) + m)
            elif sub == "Deliver":
                put_file(w, render(step["n"], bod[step["n"]], "\n"))
                await w.cmd("B", "NOOP")
            elif sub == "Expunge":
                i = step["n"]
                if 1 <= i <= len(box):
                    await w.cmd("B", f"UID STORE {box[i - 1]['uid']} +FLAGS.SILENT (\\Deleted)")
                    await w.cmd("B", "EXPUNGE")
            else:
                raise ValueError(sub)
        elif a == "Tick":
            await w.advance(30)
        elif a == "Drop":
            if ps is None or ps.closed or ps.task.done():
                continue
            await w.drop("P")
            await w.advance(1)
            ev["closed"] = True
        else:
            if ps is None:
                continue
            if ps.closed or ps.task.done():
                continue
            cmd = pop3_bytes(step, idx, seed)
            ev["sent"] = cmd.decode("latin-1")
            n0 = len(ps.raw)
            await w.raw("P", cmd + b"\r\n")
            if a == "Quit":
                for _ in range(100):
                    if ps.closed or ps.task.done():
                        break
                    await w.advance(0.05)
            data = bytes(ps.raw[n0:])
            ev.update(read_reply(data, a in ("List", "Uidl", "Retr", "Top"), a in ("List", "Uidl")))
            ev["closed"] = bool(ps.closed or ps.task.done())
        box = await observe(w)
        km = kmap(w)
        ev["post"] = box
        ev["kpost"] = km
        events.append(ev)
    return {"cat": cat, "steps": events}


def execute(case, seed=0):
    """Run one case on a fresh world.  Pack thresholds are lowered so that a
    folder with a gap in its numbering is packed at the next idle poll, as a
    100-message folder would be."""
    w = World(seed=seed, pack_limit=1, pack_ratio=0.99)

    async def main(loop):
        await w.start()
        try:
            return await run_history(w, case, seed=seed)
        finally:
            try:
                await w.stop()
            except Exception:
                pass

    try:
        return simloop.run(main)
    finally:
        w.cleanup()


# ---------------------------------------------------------------------------
# TLC behaviours -> cases
#
def case_of_states(states, expect=True):
    """states: parsed TLC states (dicts with inbox, bod, last, ...) of one behaviour."""
    s0 = states[0]
    inbox0 = s0["inbox"]
    count = len(inbox0)
    gap = (inbox0[0]["uid"] - 1) if inbox0 else (s0["nextUid"] - 1)
    bod = {i + 1: {"shapes": list(b["shapes"]), "fnl": bool(b["fnl"])} for i, b in enumerate(s0["bod"])}
    steps = []
    for st in states[1:]:
        e = st["last"]
        st_ = {"act": e["act"], "sub": e["sub"], "n": e["n"], "k": e["k"]}
        if expect:
            st_["expect"] = {"st": e["st"], "nums": list(e["nums"]), "pairs": [list(p) for p in e["pairs"]]}
        steps.append(st_)
    return {"count": count, "gap": gap, "bod": bod, "steps": steps}
