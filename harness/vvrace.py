"""
Concurrent CREATEs, then names freed and taken again (C02: a (name, UIDVALIDITY) pair never identifies
two incarnations).  Two or three sessions CREATE different mailboxes at the same time under a seeded
schedule of the virtual-time loop (the UIDVALIDITY counter is written to the database between being
advanced and being handed out: a scheduling point); the names are then deleted / renamed / created
again in an order chosen by the seed, and every live mailbox's UIDVALIDITY is read with STATUS after
every step.  The observations are validated by TLC (spec/TraceVv.tla).
"""
import asyncio
import random

from . import simloop
from .world import World


def execute(seed):
    rng = random.Random(seed)
    w = World(seed=seed)
    obs, log = [], []
    inc = {}          # name -> [incarnation (kept by RENAME), made] of the live mailbox of that name
    counter = [0]

    async def look():
        for m in sorted(inc):
            r = await w.cmd("A", f"STATUS {m} (UIDVALIDITY)")
            for it in r.items:
                if it["kind"] == "STATUS" and "UIDVALIDITY" in it["items"]:
                    obs.append({"name": m, "vv": int(it["items"]["UIDVALIDITY"]), "inc": inc[m][0], "made": inc[m][1]})

    def made(name, how):
        counter[0] += 1
        inc[name] = [counter[0], how]

    async def main(loop):
        await w.start()
        try:
            sess = ["A", "B", "C"][:rng.choice([2, 3])]
            for s in sess:
                await w.open(s)
            names = ["x", "y", "z"][:len(sess)]
            for rounds in range(2):
                todo = [(s, n) for s, n in zip(sess, names) if n not in inc]
                res = await asyncio.gather(*[w.cmd(s, f"CREATE {n}") for s, n in todo])
                log.append(["CREATE||"] + [n for _, n in todo] + [r.status for r in res])
                for (s, n), r in zip(todo, res):
                    if r.status == "OK":
                        made(n, "create")
                await look()
                # free some names and take them again
                for _ in range(rng.choice([1, 2, 3])):
                    live = sorted(inc)
                    if not live:
                        break
                    op = rng.choice(["delete", "rename", "delete_create"])
                    a = rng.choice(live)
                    if op == "rename" and len(live) >= 2:
                        b = rng.choice([n for n in live if n != a])
                        r1 = await w.cmd("A", f"DELETE {a}")
                        if r1.status == "OK":
                            inc.pop(a)
                        r2 = await w.cmd("A", f"RENAME {b} {a}")
                        log.append(["DELETE", a, r1.status, "RENAME", b, a, r2.status])
                        if r2.status == "OK" and r1.status == "OK":
                            # the renamed mailbox is the same incarnation under another name (same messages,
                            # same UIDs, same UIDVALIDITY): renaming it away and back is not a reuse
                            inc[a] = [inc.pop(b)[0], "rename"]
                    else:
                        r1 = await w.cmd("A", f"DELETE {a}")
                        log.append(["DELETE", a, r1.status])
                        if r1.status == "OK":
                            inc.pop(a)
                            if op == "delete_create":
                                r2 = await w.cmd("B", f"CREATE {a}")
                                log.append(["CREATE", a, r2.status])
                                if r2.status == "OK":
                                    made(a, "create")
                    await look()
            return obs
        finally:
            try:
                await w.stop()
            except Exception:
                pass

    try:
        simloop.run(main, chooser=simloop.RandomChooser(seed * 31 + 7, p_fifo=0.6))
        return obs, log
    finally:
        w.cleanup()
