"""
Namespace driver (C17, C09): executes namespace histories and confinement
probes on the real server inside a jail directory and records, per step, the
projected mailbox tree (database + disk), what LIST/LSUB returned and whether
anything outside the user's mail directory changed or leaked.
"""

import hashlib
import os
import sqlite3

from . import simloop, wire
from .world import World, make_msg

DECOY = "DECOYTOKEN7731"


def chars(s):
    return list(s)


ALIAS_SPELLING = True


def unchars(c):
    return "".join(c)


def render_name(name, enc="quoted"):
    b = name.encode("latin-1")
    if enc == "atom" and wire.is_atom_safe(b):
        return b
    if enc == "literal":
        return wire.literal(b)
    return wire.quote(b)


def Escapes_py(nm):
    """Only used to decide whether LIST lines for an outside name count as a leak;
    the verdict about refusal comes from NsProps.Escapes."""
    if nm["slashes"] >= 2:
        return True
    depth = 0
    for c in nm["comps"]:
        if c == "..":
            depth -= 1
            if depth < 0:
                return True
        elif c not in (".", ""):
            depth += 1
    return False


def name_of(nm):
    """[slashes, comps] -> string"""
    return "/" * nm["slashes"] + "/".join(nm["comps"])


class NsWorld(World):
    """World with a decoy neighbour and a snapshot of everything outside the mail root."""

    def prepare_jail(self):
        other = self.tmp / "other" / "Mail" / "inbox"
        other.mkdir(parents=True, exist_ok=True)
        for i in range(1, 8):
            (other / str(i)).write_bytes(make_msg(500 + i, extra=[f"X-Decoy: {DECOY}"]))
        (other / ".mh_sequences").write_text("unseen: 1-7\n")
        # a sibling of the mail directory whose name starts with the mail
        # directory's name (a string-prefix test takes it for "inside")
        sib = self.maildir.parent / (self.maildir.name + ".old") / "inbox"
        sib.mkdir(parents=True, exist_ok=True)
        for i in range(1, 8):
            (sib / str(i)).write_bytes(make_msg(600 + i, extra=[f"X-Decoy: {DECOY}"]))
        (sib / ".mh_sequences").write_text("unseen: 1-7\n")
        (self.tmp / "elsewhere").mkdir(exist_ok=True)
        (self.tmp / "elsewhere" / "secret.txt").write_text(DECOY)

    def outside_snapshot(self):
        snap = {}
        root = str(self.maildir)
        for dp, dns, fns in os.walk(self.tmp, followlinks=False):
            if dp == root or dp.startswith(root + os.sep):
                dns[:] = []
                continue
            for n in dns + fns:
                p = os.path.join(dp, n)
                if p == root:
                    continue
                try:
                    st = os.lstat(p)
                    h = ""
                    if os.path.isfile(p) and not os.path.islink(p):
                        with open(p, "rb") as f:
                            h = hashlib.sha1(f.read()).hexdigest()[:12]
                    snap[os.path.relpath(p, self.tmp)] = (st.st_mode, st.st_size if h else 0, h,
                                                          os.readlink(p) if os.path.islink(p) else "")
                except OSError:
                    pass
        return snap

    def tree(self):
        """Projected namespace: database rows (what LIST reads) and directories on disk."""
        rows = []
        try:
            c = sqlite3.connect(f"file:{self.maildir / 'asimap.db'}?mode=ro", uri=True)
            for name, attrs, sub in c.execute("select name, attributes, subscribed from mailboxes"):
                rows.append({"name": chars(name), "nosel": "\\Noselect" in (attrs or "").split(","),
                             "sub": bool(sub)})
            c.close()
        except sqlite3.Error:
            pass
        disk = []
        for dp, dns, fns in os.walk(self.maildir, followlinks=False):
            for dn in dns:
                p = os.path.join(dp, dn)
                disk.append(chars(os.path.relpath(p, self.maildir)) + (["@"] if os.path.islink(p) else []))
        return {"db": sorted(rows, key=lambda r: r["name"]), "disk": sorted(disk)}


def _childinfo(ext):
    """("CHILDINFO" ("SUBSCRIBED")) among the extended data items of a LIST response"""
    flat = []

    def walk(x):
        if isinstance(x, list):
            for y in x:
                walk(y)
        elif isinstance(x, tuple) and len(x) >= 2 and isinstance(x[1], (bytes, bytearray)):
            flat.append(bytes(x[1]).upper())
    walk(ext)
    return b"CHILDINFO" in flat and b"SUBSCRIBED" in flat


def listed_of(items, kind):
    out, seen, dup = [], set(), False
    for d in items:
        if d["kind"] == kind:
            if d["name"] in seen:
                dup = True
            seen.add(d["name"])
            out.append({"name": chars(d["name"]), "nosel": "\\Noselect" in d["attrs"],
                        "subscribed": "\\Subscribed" in d["attrs"], "childinfo": _childinfo(d.get("ext", [])),
                        "haschildren": "\\HasChildren" in d["attrs"],
                        "hasnochildren": "\\HasNoChildren" in d["attrs"]})
    return out, dup


def blank(act):
    return {"act": act, "status": "OK", "name": [], "name2": [], "ref": [], "pat": [], "pats": [[]], "lsub": False,
            "listed": [], "dup": False, "sel": "", "ret": "", "probe": False, "nm": {"slashes": 0, "comps": []},
            "outside_changed": False, "leaked": False, "slot": "", "enc": "", "text": ""}


async def run_history(w: NsWorld, steps, events):
    """steps: dicts {act, name, name2, ref, pat, lsub} with char-sequence names."""
    await w.open("A")
    await w.open("B")
    events.append(dict(blank("Init"), tree=w.tree()))
    for st in steps:
        act = st["act"]
        ev = blank(act)
        for k in ("name", "name2", "ref", "pat", "pats", "lsub", "sel", "ret"):
            if k in st:
                ev[k] = st[k]
        if act in ("List", "Lsub"):
            ev["pats"] = st.get("pats") or [st["pat"]]
        else:
            ev["pats"] = [[]]
        if act == "Restart":
            await w.restart()
            await w.open("A")
            await w.open("B")
            ev["tree"] = w.tree()
            events.append(ev)
            continue
        nm1 = unchars(st.get("name", []))
        # every fourth namespace command (every second RENAME) spells its (first) mailbox name with the one leading "/" that the
        # server tolerates and ignores: the same mailbox, so the model's step is the same
        if ALIAS_SPELLING and act in ("Create", "Delete", "Rename", "Subscribe", "Unsubscribe") and nm1 \
                and not nm1.startswith("/") and (st.get("alias") or len(events) % (2 if act == "Rename" else 4) == 1):
            nm1 = "/" + nm1
        n1 = render_name(nm1, st.get("enc", "quoted"))
        n2 = render_name(unchars(st.get("name2", [])), st.get("enc", "quoted"))
        cmd = {"Create": b"CREATE " + n1, "Delete": b"DELETE " + n1, "Rename": b"RENAME " + n1 + b" " + n2,
               "Subscribe": b"SUBSCRIBE " + n1, "Unsubscribe": b"UNSUBSCRIBE " + n1}.get(act)
        if act in ("List", "Lsub"):
            pats = ev["pats"]
            if len(pats) > 1:
                ptxt = b"(" + b" ".join(render_name(unchars(p)) for p in pats) + b")"
            else:
                ptxt = render_name(unchars(pats[0]))
            cmd = (b"LSUB " if act == "Lsub" else b"LIST ") + ((b"(" + ev["sel"].encode() + b") ") if ev["sel"] else b"") + \
                render_name(unchars(st["ref"])) + b" " + ptxt + (b" RETURN (SUBSCRIBED)" if ev["ret"] == "SUBSCRIBED" else b"")
        res = await w.cmd("A", cmd, settle=0.02)
        ev["status"] = res.status if res.status in ("OK", "NO", "BAD") else "NONE"
        ev["text"] = (res.tagged or {}).get("text", "")[:80]
        if act in ("List", "Lsub"):
            ev["listed"], ev["dup"] = listed_of(res.items, "LSUB" if act == "Lsub" else "LIST")
        ev["tree"] = w.tree()
        events.append(ev)


def expand_env(nm, w):
    """Probe names may contain components that stand for places of the jail the
    run is in: "@sib" the sibling directory sharing the mail directory's name
    as a prefix, "@abs:<rel>" the components of the absolute path of
    <jail>/<rel>.  The expanded name is what is sent and what TLC classifies."""
    comps = []
    for c in nm["comps"]:
        if c == "@sib":
            comps.append(w.maildir.name + ".old")
        elif c.startswith("@abs:"):
            comps.extend(x for x in str(w.tmp / c[5:]).split("/") if x)
        else:
            comps.append(c)
    return {"slashes": nm["slashes"], "comps": comps}


# names that only mean something in the jail of the run (all slots, all encodings)
ENV_NAMES = [
    {"slashes": 1, "comps": ["@abs:elsewhere", "evil"]},
    {"slashes": 2, "comps": ["@abs:elsewhere", "evil"]},
    {"slashes": 1, "comps": ["@abs:other/Mail/inbox"]},
    {"slashes": 1, "comps": ["@abs:user", "@sib", "inbox"]},
    {"slashes": 0, "comps": ["..", "@sib", "inbox"]},
    {"slashes": 0, "comps": ["..", "@sib", "new"]},
    {"slashes": 0, "comps": ["a", "..", "..", "@sib", "inbox"]},
    {"slashes": 0, "comps": ["..", "..", "other", "Mail", "inbox"]},
    {"slashes": 0, "comps": ["..", "..", "elsewhere", "evil"]},
    # white space around the dots: an ordinary component name, unless somebody strips it after checking
    {"slashes": 0, "comps": [" ..", "@sib", "inbox"]},
    {"slashes": 0, "comps": [" ..", "..", "other", "Mail", "inbox"]},
    {"slashes": 0, "comps": ["..\t", "@sib", "inbox"]},
    {"slashes": 0, "comps": [" ", "..", "..", "@sib", "inbox"]},
    # `..` that is not at the front
    {"slashes": 0, "comps": ["a", "..", "..", "planted"]},
    {"slashes": 0, "comps": ["tmp", "x", "..", "..", "..", "planted"]},
    {"slashes": 0, "comps": ["a", ".", "..", "..", "@sib", "inbox"]},
]

SLOTS = ["SELECT", "EXAMINE", "CREATE", "DELETE", "RENAMESRC", "RENAMEDST", "SUBSCRIBE", "UNSUBSCRIBE",
         "STATUS", "APPEND", "COPY", "MOVE", "LISTREF", "LISTPAT", "LSUBREF"]


def probe_cmd(slot, nm, enc):
    n = render_name(name_of(nm), enc)
    msg = make_msg(990, crlf=True)
    return {
        "SELECT": b"SELECT " + n, "EXAMINE": b"EXAMINE " + n, "CREATE": b"CREATE " + n,
        "DELETE": b"DELETE " + n, "RENAMESRC": b"RENAME " + n + b" renamedprobe",
        "RENAMEDST": b"RENAME probesrc " + n, "SUBSCRIBE": b"SUBSCRIBE " + n,
        "UNSUBSCRIBE": b"UNSUBSCRIBE " + n, "STATUS": b"STATUS " + n + b" (MESSAGES UIDNEXT UIDVALIDITY)",
        "APPEND": b"APPEND " + n + b" {%d}\r\n" % len(msg) + msg,
        "COPY": b"COPY 1 " + n, "MOVE": b"MOVE 1 " + n,
        "LISTREF": b"LIST " + n + b' "*"', "LISTPAT": b'LIST "" ' + n, "LSUBREF": b"LSUB " + n + b' "%"',
    }[slot]


async def run_probes(w: NsWorld, probes, events):
    """probes: list of (slot, nm, enc).  The world has a/b, c (nosel), probesrc, inbox with mail."""
    await w.open("A")
    for c in (b"CREATE a/b", b"CREATE probesrc", b"CREATE other", b"CREATE tmp/x",):
        await w.cmd("A", c)
    m = make_msg(w.alloc_id(), crlf=True)
    await w.cmd("A", b"APPEND inbox {%d}\r\n" % len(m) + m)
    await w.cmd("A", b"APPEND inbox {%d}\r\n" % len(m) + m)
    await w.cmd("A", "SELECT inbox")
    events.append(dict(blank("Init"), tree=w.tree()))
    before = w.outside_snapshot()
    for slot, nm, enc in probes:
        nm = expand_env(nm, w)
        s = w.sessions["A"]
        if s.closed or s.task.done():
            await w.open("A")
            await w.cmd("A", "SELECT inbox")
        if slot in ("COPY", "MOVE"):
            h = w.sessions["A"].handler
            if h.mbox is None or not h.mbox.uids:
                m = make_msg(w.alloc_id(), crlf=True)
                await w.cmd("A", b"APPEND inbox {%d}\r\n" % len(m) + m)
                await w.cmd("A", "SELECT inbox")
        if slot == "RENAMEDST" and not (w.maildir / "probesrc").is_dir():
            await w.cmd("A", "CREATE probesrc")
        mark = len(w.sessions["A"].raw)
        res = await w.cmd("A", probe_cmd(slot, nm, enc), settle=0.01)
        raw = bytes(w.sessions["A"].raw[mark:])
        after = w.outside_snapshot()
        ev = blank("Probe")
        ev.update(probe=True, nm=nm, slot=slot, enc=enc,
                  status=res.status if res.status in ("OK", "NO", "BAD") else "NONE",
                  outside_changed=(after != before),
                  leaked=(DECOY.encode() in raw) or any(
                      d["kind"] in ("EXISTS", "STATUS") and
                      (d.get("n") == 7 or d.get("items", {}).get("MESSAGES") == 7) for d in res.items),
                  text=(res.tagged or {}).get("text", "")[:60], tree=w.tree())
        if after != before:
            diff = sorted(set(after.items()) ^ set(before.items()))[:4]
            ev["text"] += " DIFF " + str([d[0] for d in diff])
            before = after
        events.append(ev)
        # undo what a successful probe may have done inside the root
        if slot == "RENAMESRC" and res.status == "OK":
            await w.cmd("A", b"RENAME renamedprobe " + render_name(name_of(nm), enc))
        if slot in ("SELECT", "EXAMINE"):
            await w.cmd("A", "SELECT inbox")


def execute(kind, payload, seed=0):
    w = NsWorld(seed=seed)
    events = []

    async def main(loop):
        w.prepare_jail()
        await w.start()
        try:
            if kind == "history":
                await run_history(w, payload, events)
            else:
                await run_probes(w, payload, events)
        finally:
            try:
                await w.stop()
            except Exception:
                pass
        return events

    try:
        return simloop.run(main)
    finally:
        w.cleanup()
