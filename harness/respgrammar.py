"""
C07 harness: byte-class tokenizer for spec/RespGrammar.tla, case rendering
(value shapes enumerated by TLC -> headers, mailbox names, echoed arguments),
drivers that push the hard cases through the real server, and the extraction
of (decoded, expected) pairs with the independent reader of harness/wire.py.

Nothing here decides whether output is well-formed: that is RespGrammar!Step /
DecodeBad evaluated by TLC (spec/RespGrammarTrace.tla).
"""

import asyncio
import email.header
import os
import random
import re
import shutil

from . import simloop, wire
from .world import REPO, World

# ---------------------------------------------------------------------------
# octets -> byte-class tokens (by byte class only, run-length compressed)
#
_SINGLE = {b"(": "LP", b")": "RP", b'"': "DQ", b"\\": "BS", b"{": "LC", b"}": "RC",
           b"*": "STAR", b"+": "PLUS", b"\r": "CR", b"\n": "LF"}
_TOK = re.compile(
    rb"( +)|([A-Za-z]+)|([0-9]{1,9})|([\x80-\xff]+)|([\x00-\x09\x0b\x0c\x0e-\x1f\x7f]+)"
    rb'|([()"\\{}*+\r\n])|([!#$%&\',\-./:;<=>?@\[\]^_`|~]+)')


def tokens(data: bytes):
    """-> (tokens, offsets): tokens [k, n, v, u]; offsets[i] = first octet of token i"""
    toks, offs = [], []
    pos = 0
    for m in _TOK.finditer(data):
        assert m.start() == pos, (pos, data[pos:pos + 10])
        pos = m.end()
        g = m.lastindex
        s = m.group()
        n = len(s)
        if g == 1:
            t = ["SP", n, 0, ""]
        elif g == 2:
            t = ["AL", n, 0, s.decode("ascii").upper() if n <= 7 else ""]
        elif g == 3:
            t = ["D", n, int(s), ""]
        elif g == 4:
            t = ["HI", n, 0, ""]
        elif g == 5:
            t = ["CTL", n, 0, ""]
        elif g == 6:
            t = [_SINGLE[s], 1, 0, ""]
        else:
            t = ["O", n, 0, ""]
        toks.append(t)
        offs.append(m.start())
    assert pos == len(data)
    return toks, offs


# ---------------------------------------------------------------------------
# value shapes (sequences of pieces enumerated by TLC) -> strings
#
PIECES = {"w": "ab", "sp": " ", "dq": '"', "bs": "\\", "lp": "(", "rp": ")", "lit": "{3}",
          "l1": "\xe9", "u": "\u2713", "fold": " "}
NIL = "\x00NIL"


def shape_value(shape):
    return "".join(PIECES[p] for p in shape)


def usable_shape(shape):
    return shape[0] not in ("sp", "fold") and shape[-1] not in ("sp", "fold")


def is_ascii(s):
    return all(ord(c) < 128 for c in s)


def hdr_text(shape):
    """unstructured header text that means shape_value(shape)"""
    val = shape_value(shape)
    if is_ascii(val):
        return "".join("\r\n " if p == "fold" else PIECES[p] for p in shape)
    cs = "iso-8859-1" if all(ord(c) < 256 for c in val) and len(shape) % 2 else "utf-8"
    return email.header.Header(val, cs, maxlinelen=200).encode()


def qstr(val):
    return '"' + val.replace("\\", "\\\\").replace('"', '\\"') + '"'


def phrase(val):
    """display name / parameter value that means val"""
    if is_ascii(val):
        return qstr(val)
    return email.header.Header(val, "utf-8", maxlinelen=200).encode()


DATE = "Mon, 07 Feb 1994 21:52:25 -0800"


def shape_message(mid, shape):
    """A message all of whose interesting strings mean the shape's value.
    -> (bytes, expectations)"""
    val = shape_value(shape)
    h = [f"From: {phrase(val)} <sender{mid}@example.com>",
         f"To: {phrase(val)} <rcpt{mid}@example.org>, plain{mid}@example.net",
         f"Subject: {hdr_text(shape)}",
         f"Date: {DATE}",
         f"Message-ID: <verif-{mid}@example.com>",
         f"In-Reply-To: <parent-{mid}@example.com>",
         f"X-Verif-Id: {mid}",
         "MIME-Version: 1.0",
         f"Content-Description: {hdr_text(shape)}"]
    exp_bs = {"types": ["TEXT/PLAIN"], "desc": val}
    if is_ascii(val):
        h.append(f"Content-Type: text/plain; charset=\"us-ascii\"; name={qstr(val)}")
        h.append(f"Content-Disposition: attachment; filename={qstr(val)}")
        exp_bs["name"] = val
        exp_bs["filename"] = val
    else:
        h.append("Content-Type: text/plain; charset=\"utf-8\"")
    body = f"verif-body-{mid}\r\n".encode("ascii")
    data = ("\r\n".join(h) + "\r\n\r\n").encode("latin-1") + body
    env = {"date": DATE, "subject": val,
           "from": [[val, f"sender{mid}", "example.com"]],
           "to": [[val, f"rcpt{mid}", "example.org"], [NIL, f"plain{mid}", "example.net"]],
           "in-reply-to": f"<parent-{mid}@example.com>", "message-id": f"<verif-{mid}@example.com>"}
    return data, {"ENVELOPE": env, "BODYSTRUCTURE": exp_bs}


# ---------------------------------------------------------------------------
# MIME structures
#
def _part_text(mid, sub="plain", nl="\r\n", body=None, extra=()):
    h = [f"Content-Type: text/{sub}; charset=\"us-ascii\""] + list(extra)
    b = body if body is not None else f"part of {mid}{nl}second line{nl}"
    return nl.join(h) + nl + nl + b, [f"TEXT/{sub.upper()}"]


def _multipart(mid, sub, parts, bnd, nl="\r\n", top_headers=()):
    h = list(top_headers) + [f"Content-Type: multipart/{sub}; boundary=\"{bnd}\""]
    out = nl.join(h) + nl + nl + "preamble" + nl
    types = [f"MULTIPART/{sub.upper()}"]
    for txt, ty in parts:
        out += f"--{bnd}{nl}" + txt
        if not txt.endswith(nl):
            out += nl
        types += ty
    out += f"--{bnd}--{nl}"
    return out, types


def _rfc822(mid, inner, nl="\r\n"):
    txt, ty = inner
    return f"Content-Type: message/rfc822{nl}Content-Disposition: inline{nl}{nl}" + txt, ["MESSAGE/RFC822"] + ty


def _top(mid, nl="\r\n", subject=None):
    return [f"From: sender{mid}@example.com", f"To: rcpt{mid}@example.org",
            f"Subject: {subject or 'structure ' + str(mid)}", f"Date: {DATE}",
            f"Message-ID: <verif-{mid}@example.com>", f"X-Verif-Id: {mid}", "MIME-Version: 1.0"]


def _inner_msg(mid, payload, nl="\r\n", quote=False):
    txt, ty = payload
    name = f"\"Inner \\\"I\\\" {mid}\"" if quote else f"\"Inner, I. ({mid})\""
    h = [f"From: {name} <inner{mid}@example.com>", f"Subject: inner {mid}", f"Date: {DATE}"]
    return nl.join(h) + nl + txt, ty


def structure_messages(mid0, rng, count):
    """-> list of (name, bytes, expectations|None)"""
    out = []
    mid = mid0

    def add(name, head, payload, nl="\r\n", expect=True, tail=""):
        nonlocal mid
        txt, ty = payload
        data = (nl.join(head) + nl + txt + tail).encode("latin-1")
        out.append((name, data, {"BODYSTRUCTURE": {"types": ty}} if expect else None))
        mid += 1

    # directed structures
    add("plain", _top(mid), _part_text(mid))
    add("alt", _top(mid), _multipart(mid, "alternative", [_part_text(mid), _part_text(mid, "html")], "b1"))
    add("nested", _top(mid), _multipart(mid, "mixed", [
        _multipart(mid, "alternative", [_part_text(mid), _part_text(mid, "html")], "in1"),
        _part_text(mid, "x-diff", extra=['Content-Disposition: attachment; filename="a.diff"',
                                        "Content-ID: <cid-1@example.com>", "Content-Language: en, de"])], "out1"))
    add("rfc822-top", _top(mid)[:-1], _rfc822(mid, _inner_msg(mid, _part_text(mid))))
    add("rfc822-inner-quotes", _top(mid), _multipart(mid, "mixed", [
        _rfc822(mid, _inner_msg(mid, _part_text(mid), quote=True))], "iq"))
    add("rfc822-nested", _top(mid), _multipart(mid, "mixed", [
        _part_text(mid), _rfc822(mid, _inner_msg(mid, _multipart(mid, "mixed", [
            _part_text(mid), _rfc822(mid, _inner_msg(mid, _part_text(mid)))], "deep")))], "outer"))
    add("digest", _top(mid), _multipart(mid, "digest", [_part_text(mid), _part_text(mid)], "dg"))
    add("bare-lf", _top(mid, "\n"), _multipart(mid, "mixed", [_part_text(mid, nl="\n"), _part_text(mid, "html", nl="\n")],
                                              "lf1", nl="\n"), nl="\n")
    add("no-final-newline", _top(mid), _part_text(mid, body="no newline at the end"))
    add("mixed-eol", _top(mid), _part_text(mid, body="a\r\nb\nc\rd\r\n\r\n\n"), expect=True)
    add("lone-cr-end", _top(mid), _part_text(mid, body="ends in a lone CR\r"))
    add("empty-body", _top(mid), ("\r\n", ["TEXT/PLAIN"]))
    add("headers-only", _top(mid), ("", ["TEXT/PLAIN"]), expect=False)
    add("literal-lookalike", _top(mid, subject="{5}"), _part_text(mid, body="{3}\r\nabc)\r\n* 5 EXISTS\r\nT1 OK x\r\n"))
    add("no-boundary-end", _top(mid), (_multipart(mid, "mixed", [_part_text(mid)], "nb")[0].replace("--nb--\r\n", ""),
                                      []), expect=False)
    add("multipart-no-parts", _top(mid), ("Content-Type: multipart/mixed; boundary=\"zz\"\r\n\r\nnothing\r\n", []),
        expect=False)
    add("8bit-body", _top(mid), ("Content-Type: text/plain; charset=\"iso-8859-1\"\r\n"
                                 "Content-Transfer-Encoding: 8bit\r\n\r\nd\xe9j\xe0 vu \xff\x00\x01\r\n", ["TEXT/PLAIN"]))
    add("utf8-body", _top(mid), ("Content-Type: text/plain; charset=\"utf-8\"\r\nContent-Transfer-Encoding: 8bit\r\n\r\n"
                                 + "d\u00e9j\u00e0 vu \u2713\u2713\u2713 \u65e5\u672c\r\n".encode("utf-8").decode("latin-1"),
                                 ["TEXT/PLAIN"]))
    add("raw-8bit-headers", [f"From: J\xfcrgen \"J\" <j{mid}@example.com>", f"Subject: caf\xe9 \"x\" \\ \xc3\xa9",
                             f"Date: {DATE}", f"X-Verif-Id: {mid}"], ("\r\nbody\r\n", []), expect=False)
    add("missing-fields", [f"X-Verif-Id: {mid}", "X-Other: 1"], ("\r\nno date from subject\r\n", ["TEXT/PLAIN"]))
    add("groups", [f"From: a{mid}@example.com", "To: friends: x@example.com, \"Y (y)\" <y@example.com>;, z@example.com",
                   "Cc: undisclosed-recipients:;", f"Subject: groups {mid}", f"Date: {DATE}", f"X-Verif-Id: {mid}"],
        ("\r\nbody\r\n", ["TEXT/PLAIN"]))
    add("odd-ctype", _top(mid) + ["Content-Type: text/\"pl\\\"ain\"; x=\"a\\\\b\"; y=\"(\"; z=\"{1}\"",
                                  "Content-Transfer-Encoding: \"quoted\"", "Content-ID: <a\"b@c>",
                                  "Content-Location: http://example.com/a\"b", "Content-Language: \"en\", x\\y",
                                  "Content-MD5: \"abc\""], ("\r\nbody\r\n", []), expect=False)
    long_u = "long \u2713 subject " * 12
    add("long-nonlatin1-subject", [f"From: {email.header.Header(long_u, 'utf-8', maxlinelen=70).encode()} <s{mid}@example.com>",
                                   "Subject: " + email.header.Header(long_u, "utf-8", maxlinelen=70).encode().replace("\n", "\r\n"),
                                   f"Date: {DATE}", f"X-Verif-Id: {mid}"], ("\r\nbody\r\n", ["TEXT/PLAIN"]))
    add("long-folded", _top(mid) + ["References: " + "\r\n ".join(f"<ref-{i}@example.com>" for i in range(30)),
                                    "X-Long: " + "x" * 1200], _part_text(mid))
    # random nestings
    def rand_payload(depth):
        r = rng.random()
        if depth >= 3 or r < 0.35:
            return _part_text(mid, rng.choice(["plain", "html", "x-odd"]), nl="\r\n",
                              body=rng.choice(["a\r\n", "", "x", "a\r\nb\r\n", "\r\n\r\n"]))
        if r < 0.55:
            return _rfc822(mid, _inner_msg(mid, rand_payload(depth + 1)))
        n = rng.randint(1, 3)
        return _multipart(mid, rng.choice(["mixed", "alternative", "related"]),
                          [rand_payload(depth + 1) for _ in range(n)], f"r{depth}x{rng.randint(0, 999)}")

    for i in range(count):
        add(f"random-{i}", _top(mid), rand_payload(0))
    return out


# ---------------------------------------------------------------------------
# reading the strings back (independent reader: harness/wire.py)
#
def dec_str(tok):
    """string token of the independent reader -> what it means"""
    if isinstance(tok, tuple) and tok[0] == "atom" and tok[1].upper() == b"NIL":
        return NIL
    if not isinstance(tok, tuple) or tok[0] not in ("q", "lit"):
        raise wire.ParseError(f"string expected: {tok!r}")
    raw = tok[1]
    if b"=?" in raw:
        try:
            return str(email.header.make_header(email.header.decode_header(raw.decode("latin-1"))))
        except Exception:
            pass
    try:
        if any(c > 127 for c in raw):
            return raw.decode("utf-8")
    except UnicodeDecodeError:
        pass
    return raw.decode("latin-1")


def _addrs(tok):
    if isinstance(tok, tuple) and tok == ("atom", b"NIL"):
        return [NIL]
    if not isinstance(tok, list):
        raise wire.ParseError("address list expected")
    out = []
    for a in tok:
        if not isinstance(a, list) or len(a) != 4:
            raise wire.ParseError("address shape")
        out += [_ws(dec_str(a[0])), dec_str(a[2]), dec_str(a[3])]
    return out


def _ws(name):
    """a display name is a phrase: runs of white space between its words are not significant (RFC 5322)"""
    return re.sub(r"[ \t]+", " ", name)


def _flat(exp):
    out = []
    for a in exp:
        out += [_ws(a[0])] + a[1:]
    return out


def _walk_body(b, types, info):
    if not isinstance(b, list) or not b:
        raise wire.ParseError("body shape")
    if isinstance(b[0], list):
        i = 0
        while i < len(b) and isinstance(b[i], list):
            i += 1
        if i >= len(b):
            raise wire.ParseError("multipart without subtype")
        types.append("MULTIPART/" + dec_str(b[i]).upper())
        for k in range(i):
            _walk_body(b[k], types, info)
        return
    if len(b) < 7:
        raise wire.ParseError("body fields")
    mt, st = dec_str(b[0]).upper(), dec_str(b[1]).upper()
    types.append(f"{mt}/{st}")
    first = not info
    params = b[2]
    if isinstance(params, list):
        if len(params) % 2:
            raise wire.ParseError("odd parameter list")
        for k in range(0, len(params), 2):
            if first and dec_str(params[k]).upper() == "NAME":
                info["name"] = dec_str(params[k + 1])
    if first:
        info["desc"] = dec_str(b[4])
        info["seen"] = True
    dec_str(b[3]), dec_str(b[5])
    int(b[6][1])
    nxt = 7
    if mt == "MESSAGE" and st == "RFC822":
        if len(b) < 10:
            raise wire.ParseError("message/rfc822 fields")
        env = b[7]
        if not isinstance(env, list) or len(env) != 10:
            raise wire.ParseError("inner envelope shape")
        _walk_body(b[8], types, info)
        nxt = 10
    elif mt == "TEXT":
        nxt = 8
    # extension data: md5, disposition, language, location
    ext = b[nxt:]
    if len(ext) >= 2 and isinstance(ext[1], list) and first:
        dsp = ext[1]
        if len(dsp) == 2 and isinstance(dsp[1], list):
            for k in range(0, len(dsp[1]) - 1, 2):
                if dec_str(dsp[1][k]).upper() == "FILENAME":
                    info["filename"] = dec_str(dsp[1][k + 1])


def decode_records(raw: bytes, expect):
    """(decoded, expected) pairs for the responses in raw that `expect` talks about."""
    recs = []
    if not expect:
        return recs
    resps, rest = wire.split_responses(raw)
    items = [wire.classify(r) for r in resps]

    def rec(kind, ok, decoded, expected, mode="eq"):
        recs.append({"kind": kind, "ok": bool(ok), "mode": mode,
                     "decoded": [str(x) for x in decoded], "expected": [str(x) for x in expected]})

    if "ENVELOPE" in expect or "BODYSTRUCTURE" in expect:
        fetches = [d for d in items if d["kind"] == "FETCH" and
                   any(k.upper() in ("ENVELOPE", "BODYSTRUCTURE") for k in d["items"])]
        if not fetches:
            rec("FETCH", False, [], [])
        for d in fetches:
            it = {k.upper(): v for k, v in d["items"].items()}
            if "ENVELOPE" in expect and "ENVELOPE" in it:
                e, x = it["ENVELOPE"], expect["ENVELOPE"]
                if not isinstance(e, list) or len(e) != 10:
                    rec("ENVELOPE", False, [], [])
                else:
                    for name, idx in (("date", 0), ("subject", 1), ("in-reply-to", 8), ("message-id", 9)):
                        if name in x:
                            try:
                                rec("ENVELOPE." + name, True, [dec_str(e[idx])], [x[name]])
                            except (wire.ParseError, ValueError):
                                rec("ENVELOPE." + name, False, [], [])
                    for name, idx in (("from", 2), ("sender", 3), ("reply-to", 4), ("to", 5), ("cc", 6), ("bcc", 7)):
                        if name in x:
                            try:
                                rec("ENVELOPE." + name, True, _addrs(e[idx]), _flat(x[name]) if x[name] else [NIL])
                            except (wire.ParseError, ValueError):
                                rec("ENVELOPE." + name, False, [], [])
            if "BODYSTRUCTURE" in expect and "BODYSTRUCTURE" in it:
                x = expect["BODYSTRUCTURE"]
                types, info = [], {}
                try:
                    _walk_body(it["BODYSTRUCTURE"], types, info)
                    rec("BODYSTRUCTURE.types", True, types, x["types"])
                    for f in ("desc", "name", "filename"):
                        if f in x:
                            rec("BODYSTRUCTURE." + f, True, [info.get(f, NIL)], [x[f]])
                except (wire.ParseError, ValueError, TypeError, IndexError):
                    rec("BODYSTRUCTURE", False, [], [])
    for kind in ("LIST", "LSUB"):
        if kind in expect:
            bad = [d for d in items if d["kind"] == "UNPARSED"]
            names = [d["name"] for d in items if d["kind"] == kind]
            rec(kind + ".names", not bad, [_name(n) for n in names], expect[kind], mode="sub")
    if "STATUS" in expect:
        st = [d for d in items if d["kind"] == "STATUS"]
        bad = [d for d in items if d["kind"] == "UNPARSED"]
        rec("STATUS.name", bool(st) and not bad, [_name(d["name"]) for d in st], expect["STATUS"],
            mode="sub" if len(st) > 1 else "eq")
    return recs


def _name(n: str) -> str:
    """mailbox name as read (latin-1 str of the octets) -> what it means"""
    b = n.encode("latin-1")
    if any(c > 127 for c in b):
        try:
            return b.decode("utf-8")
        except UnicodeDecodeError:
            pass
    return n


# ---------------------------------------------------------------------------
# recording driver
#
class Recorder:
    """Cuts what a session was sent into one trace per command interval."""

    def __init__(self, w: World, scenario):
        self.w = w
        self.scenario = scenario
        self.traces = []
        self.mark = {}
        self.specials = False   # the input at hand contains a double quote or a backslash (descriptive only)

    def cut(self, sess, label, expect=None, sent=b""):
        s = self.w.sessions[sess]
        a = self.mark.get(sess, 0)
        raw = bytes(s.raw[a:])
        self.mark[sess] = len(s.raw)
        if not raw and not expect:
            return raw
        toks, offs = tokens(raw)
        self.traces.append({"scenario": self.scenario, "label": label, "sess": sess, "specials": self.specials,
                            "sent": sent[:300].decode("latin-1"), "raw": raw.decode("latin-1"),
                            "toks": toks, "offs": offs, "dec": decode_records(raw, expect)})
        return raw

    async def cmd(self, sess, text, label=None, expect=None, **kw):
        if isinstance(text, str):
            text = text.encode("latin-1")
        kw.setdefault("kind", text.split(b" ", 1)[0].decode("latin-1").upper())
        res = await self.w.cmd(sess, text, **kw)
        if res.status == "CLOSED" and not res.items:
            expect = None       # the session was gone before the command: nothing was asked
        self.cut(sess, label or text[:60].decode("latin-1"), expect, sent=text)
        return res

    async def raw(self, sess, data, label=None):
        await self.w.raw(sess, data)
        self.cut(sess, label or repr(data[:60]), None, sent=data)

    def cut_all(self, label):
        for n in list(self.w.sessions):
            self.cut(n, label)


def _append(m):
    return b"APPEND inbox {%d}\r\n" % len(m) + m


async def _open(rec, name="A"):
    await rec.w.open(name)
    await asyncio.sleep(0)
    rec.cut(name, "greeting")


FETCH_ALL = "(UID FLAGS INTERNALDATE RFC822.SIZE ENVELOPE BODYSTRUCTURE BODY)"


async def sc_shapes(rec, shapes, first_id):
    """messages whose strings are the TLC-enumerated value shapes"""
    await _open(rec)
    exps = []
    for i, sh in enumerate(shapes):
        data, exp = shape_message(first_id + i, sh)
        r = await rec.cmd("A", _append(data), label=f"APPEND shape {sh}")
        exps.append(exp if r.status == "OK" else None)
    await rec.cmd("A", "SELECT inbox")
    for i, sh in enumerate(shapes):
        if exps[i] is None:
            continue
        rec.specials = "dq" in sh or "bs" in sh
        await rec.cmd("A", f"FETCH {i + 1} (ENVELOPE)", label=f"ENVELOPE {sh}", expect={"ENVELOPE": exps[i]["ENVELOPE"]})
        await rec.cmd("A", f"FETCH {i + 1} (BODYSTRUCTURE)", label=f"BODYSTRUCTURE {sh}",
                      expect={"BODYSTRUCTURE": exps[i]["BODYSTRUCTURE"]})
        await rec.cmd("A", f"FETCH {i + 1} (BODY BODY[HEADER.FIELDS (Subject From)] BODY[]<0.2000>)",
                      label=f"BODY+sections {sh}")
    await rec.cmd("A", "LOGOUT")


SECTIONS = ["BODY[]", "BODY.PEEK[HEADER]", "BODY[TEXT]", "BODY[1]", "BODY[1.MIME]", "BODY[2]", "BODY[2.HEADER]",
            "BODY[2.TEXT]", "BODY[1.1]", "BODY[2.1.MIME]", "BODY[HEADER.FIELDS (From \"To\" X-None)]",
            "BODY[HEADER.FIELDS.NOT (Received)]", "RFC822", "RFC822.HEADER", "RFC822.TEXT",
            "BODY[]<0.10>", "BODY[]<5.100000>", "BODY[]<100000.512>", "BODY[TEXT]<0.1>", "BODY[1]<3.7>",
            "BODY[HEADER]<0.0>", "BODY[9]", "BODY[1.2.3.4]", "BODY[2.MIME]<1.1>"]


def install_messages(w: World, datas):
    """another MH tool files the messages into inbox (before the server starts)"""
    dst = w.maildir / "inbox"
    dst.mkdir(parents=True, exist_ok=True)
    for k, d in enumerate(datas, 1):
        with open(dst / str(k), "wb") as f:
            f.write(d)


async def sc_structures(rec, msgs, sections):
    await _open(rec)
    await rec.cmd("A", "SELECT inbox")
    n = 0
    for name, data, exp in msgs:
        if rec.w.sessions["A"].closed:
            await _open(rec)
            await rec.cmd("A", "EXAMINE inbox")
        n += 1
        rec.specials = name in ("rfc822-inner-quotes", "odd-ctype", "raw-8bit-headers")
        await rec.cmd("A", f"FETCH {n} {FETCH_ALL}", label=f"{name}: all", expect=exp)
        for sec in sections:
            await rec.cmd("A", f"FETCH {n} ({sec})", label=f"{name}: {sec}")
        await rec.cmd("A", f"UID FETCH {n} (BODY.PEEK[] BODY.PEEK[TEXT]<2.5> ENVELOPE)", label=f"{name}: uid fetch")
    await rec.cmd("A", "LOGOUT")


def install_fixtures(w: World, which, limit=None):
    src = os.path.join(REPO, "asimap", "test", "fixtures", "mhdir", which)
    dst = w.maildir / "inbox"
    dst.mkdir(parents=True, exist_ok=True)
    names = sorted((f for f in os.listdir(src) if f.isdigit()), key=int)
    if limit:
        names = names[:limit]
    for k, f in enumerate(names, 1):
        shutil.copyfile(os.path.join(src, f), dst / str(k))
    return len(names)


async def sc_fixtures(rec, n, sections):
    await _open(rec)
    await rec.cmd("A", "SELECT inbox")
    await rec.cmd("A", f"FETCH 1:* {FETCH_ALL}", label="fixtures: all")
    for i in range(1, n + 1):
        for sec in sections:
            await rec.cmd("A", f"FETCH {i} ({sec})", label=f"fixture {i}: {sec}")
    await rec.cmd("A", "LOGOUT")


def name_forms(shape):
    val = shape_value(shape)
    forms = []
    if all(ord(c) < 256 for c in val):
        b = val.encode("latin-1")
        if all(c < 128 for c in b):
            forms.append(("quoted", wire.quote(b)))
        forms.append(("literal", wire.literal(b)))
    return val, forms


async def sc_names(rec, shapes, disk_names):
    """mailbox names: created with quoted strings / literals / by another MH tool"""
    await _open(rec)
    k = 0
    for sh in shapes:
        val, forms = name_forms(sh)
        rec.specials = "dq" in sh or "bs" in sh
        for form, arg in forms:
            k += 1
            name = f"n{k}{val}"
            argb = wire.quote(name.encode("latin-1")) if form == "quoted" else wire.literal(name.encode("latin-1"))
            before = set(rec.w.mailbox_names())
            r = await rec.cmd("A", b"CREATE " + argb, label=f"CREATE {form} {name!r}")
            if r.status != "OK":
                continue
            # the mailbox the responses describe is the folder that now exists (a command parser that keeps
            # the escapes of a quoted string creates another folder than the client meant: not C07's business)
            made = sorted(set(rec.w.mailbox_names()) - before)
            if len(made) != 1:
                continue
            sent_name, name = name, made[0]
            await rec.cmd("A", b'LIST "" ' + wire.quote(f"n{k}".encode()) [:-1] + b'*"', label=f"LIST {form} {name!r}",
                          expect={"LIST": [name]})
            await rec.cmd("A", b"STATUS " + argb + b" (MESSAGES UIDNEXT)", label=f"STATUS {form} {name!r}",
                          expect={"STATUS": [name]})
            await rec.cmd("A", b"SUBSCRIBE " + argb, label=f"SUBSCRIBE {name!r}")
            await rec.cmd("A", b'LSUB "" "*"', label=f"LSUB {name!r}", expect={"LSUB": [name]})
            await rec.cmd("A", b'LIST "" ' + wire.quote(f"n{k}".encode())[:-1] + b'*" RETURN (STATUS (MESSAGES UNSEEN))',
                          label=f"LIST-STATUS {name!r}", expect={"LIST": [name], "STATUS": [name]})
            await rec.cmd("A", b"SELECT " + argb, label=f"SELECT {name!r}")
            await rec.cmd("A", b"RENAME " + argb + b" " + wire.quote(f"r{k}".encode()), label=f"RENAME {name!r}")
            await rec.cmd("A", b"SELECT " + argb, label=f"SELECT gone {name!r}")
            await rec.cmd("A", b"STATUS " + argb + b" (MESSAGES)", label=f"STATUS gone {name!r}")
            await rec.cmd("A", b"DELETE " + wire.quote(f"r{k}".encode()), label="DELETE")
            await rec.cmd("A", b"UNSUBSCRIBE " + wire.quote(f"r{k}".encode()), label="UNSUBSCRIBE")
    rec.specials = any('"' in n or "\\" in n for n in disk_names)
    if disk_names:
        await rec.cmd("A", b'LIST "" "*"', label="LIST of folders made by another tool", expect={"LIST": disk_names})
        await rec.cmd("A", b'LIST "" "d%" RETURN (CHILDREN STATUS (MESSAGES))', label="LIST-STATUS disk folders",
                      expect={"LIST": disk_names})
        await rec.cmd("A", b'LSUB "" "*"', label="LSUB all")
    await rec.cmd("A", "LOGOUT")


KEYWORDS = ["$Forwarded", "a.b", "x-y_z", "k[1", "semi;colon", "at@sign", "tilde~", "caret^", "hash#", "amp&and",
            "pipe|", "angle<>", "eq=", "bang!", "tick`", "apos'", "colon:", "slash/", "comma,", "q?", "\xe9t\xe9",
            "brace}", "brace{3}", "paren(", "star*", "pct%", 'quo"te', "back\\slash", "rbr]"]


async def sc_keywords(rec, kws, first_id):
    from .world import make_msg
    await _open(rec)
    for i in range(2):
        await rec.cmd("A", _append(make_msg(first_id + i, crlf=True)), label="APPEND")
    await rec.cmd("A", "SELECT inbox")
    for kw in kws:
        await rec.cmd("A", f"STORE 1 +FLAGS ({kw})", label=f"STORE keyword {kw!r}")
        await rec.cmd("A", "FETCH 1:2 (FLAGS)", label=f"FETCH FLAGS after {kw!r}")
        await rec.cmd("A", f"UID STORE 2 FLAGS.SILENT (\\Seen {kw})", label=f"UID STORE {kw!r}")
        await rec.cmd("A", f"SEARCH KEYWORD {kw}", label=f"SEARCH KEYWORD {kw!r}")
    await rec.cmd("A", "EXAMINE inbox", label="EXAMINE (FLAGS line with keywords)")
    await rec.cmd("A", "LOGOUT")


def error_commands(shapes):
    """commands whose answers echo client input"""
    out = []
    for sh in shapes:
        v = shape_value(sh)
        if not all(ord(c) < 256 for c in v):
            continue
        b = v.encode("latin-1")
        out += [(False, b"SELECT " + wire.literal(b"no/" + b)), (False, b"FROB" + b),
                (False, b"COPY 1 " + wire.literal(b"no" + b)), (False, b"STATUS " + wire.literal(b"no" + b) + b" (MESSAGES)"),
                (False, b"FETCH 1 (BODY[" + b + b"])"), (False, b"SEARCH HEADER " + wire.literal(b) + b" x " + b),
                (True, b + b" NOOP"), (True, b"T" + b + b" NOOP"), (False, b"SEARCH BEFORE " + b),
                (False, b"FETCH 1 (BODY[HEADER.FIELDS (" + wire.literal(b) + b")])"),
                (False, b"RENAME " + wire.literal(b"no" + b) + b" " + wire.literal(b"x" + b)),
                (False, b"DELETE " + wire.literal(b"no" + b)), (False, b"APPEND " + wire.literal(b"no" + b) + b" {1}\r\nx"),
                (False, b"ID (\"name\" " + wire.literal(b) + b")"), (False, b"LIST \"\" " + wire.literal(b"zz" + b)),
                (False, b"STORE 1 +FLAGS (" + b + b")")]
    out += [(False, c) for c in [
        b"SELECT {7}\r\nab\r\ncd\r\n", b"SELECT {5}\r\nab\ncd", b"SELECT {5}\r\nab\rcd", b"STATUS {4}\r\na\n\rb (MESSAGES)",
        b"COPY 1 {3}\r\n\n\n\n", b"FROB\rNICATE", b"SEARCH HEADER {3}\r\na\nb x", b"RENAME {3}\r\na\rb {3}\r\nc\nd",
        b"FETCH 1 (BODY[99])", b"FETCH 1:* (BODY[1.2.3])", b"FETCH 99 (FLAGS)",
        b"SEARCH BEFORE 31-Feb-2020", b"FETCH 1 (FLAGS", b"NOOP trailing junk {5}", b"UID NOOP", b"CHECK", b"CLOSE",
        b"UNSELECT", b"EXPUNGE", b"STORE 1 +FLAGS (\\Seen)", b"COPY 1 inbox", b"LOGIN a b", b"AUTHENTICATE PLAIN",
        b"STARTTLS", b"DONE", b"IDLE extra", b"SEARCH " + b"NOT " * 400 + b"ALL", b"FETCH 1::3,, (FLAGS)",
        b"STATUS inbox (BOGUS)", b"CREATE inbox", b"DELETE inbox", b"RENAME nosuch other", b"SUBSCRIBE nosuch",
        b"APPEND inbox {50}\r\nshort", b"SELECT \"unterminated", b"SELECT \"bad\\escape\"", b"LIST", b"X" * 5000,
        b"SEARCH CHARSET \"x\\\"y\" ALL", b"SEARCH CHARSET {4}\r\na\r\nb ALL", b"ENABLE \"x\"", b"NAMESPACE x",
        b"ID NIL", b"ID (\"a\" \"b\\\"c\")", b"CAPABILITY"]]
    out += [(True, c) for c in [b"\r\n", b"NOOP\r\n", b"* NOOP\r\n", b"+ NOOP\r\n", b"\"tag\" NOOP\r\n", b"(tag) NOOP\r\n",
                                b"{3}\r\nabc NOOP\r\n", b"T\x00x NOOP\r\n", b"t\xe9g NOOP\r\n", b" \r\n", b"tag\r\n",
                                b"tag \r\n", b"a\rb NOOP\r\n", b"a\nb NOOP\r\n"]]
    return out


async def sc_errors(rec, cmds, first_id):
    from .world import make_msg
    await _open(rec)
    w = rec.w

    async def leave_idle():
        s = w.sessions["A"]
        if not s.closed and not s.task.done() and s.handler.idling:
            await rec.raw("A", b"DONE\r\n", label="DONE (leave IDLE)")
    # not selected
    for raw_line, c in cmds:
        if raw_line:
            await rec.raw("A", c if c.endswith(b"\r\n") else c + b"\r\n", label=f"raw {c[:60]!r}")
        else:
            await rec.cmd("A", c, label=f"unselected: {c[:60]!r}", limit=30)
        await leave_idle()
    await rec.cmd("A", _append(make_msg(first_id, crlf=True)), label="APPEND")
    await rec.cmd("A", "SELECT inbox")
    for raw_line, c in cmds:
        if not raw_line:
            await rec.cmd("A", c, label=f"selected: {c[:60]!r}", limit=30)
            await leave_idle()
    await rec.cmd("A", "LOGOUT")


async def sc_idle_and_failures(rec, first_id):
    """IDLE (re-prompt, junk while idling, notifications), watchdog, unhandled exception,
    excessive SELECT, pending-EXPUNGE refusals, notifications to other sessions"""
    import asimap.client as ac
    from .world import make_msg
    w = rec.w
    await _open(rec, "A")
    await _open(rec, "B")
    for i in range(4):
        await rec.cmd("B", _append(make_msg(first_id + i, crlf=True)), label="APPEND")
    await rec.cmd("A", "SELECT inbox")
    await rec.cmd("B", "SELECT inbox")
    await rec.cmd("A", "IDLE", wait="cont")
    await rec.cmd("B", _append(make_msg(first_id + 5, crlf=True)), label="APPEND while A idles")
    await rec.cmd("B", "STORE 1:2 +FLAGS (\\Deleted $Kw)", label="STORE while A idles")
    await rec.cmd("B", "EXPUNGE", label="EXPUNGE while A idles")
    await asyncio.sleep(0.1)
    rec.cut("A", "notifications while idling")
    for junk in [b"X1 NOOP\r\n", b"x idle\r\n", b"\r\n", b"junk {3}\r\nabc\r\n", b"\"q\r\n", b"tag IDLE\r\n", b"done \r\n"]:
        if not w.sessions["A"].handler.idling:
            await rec.cmd("A", "IDLE", wait="cont")
        await rec.raw("A", junk, label=f"while idling: {junk!r}")
    if w.sessions["A"].handler.idling:
        await rec.raw("A", b"DONE\r\n", label="DONE")
    await rec.cmd("A", "NOOP")
    # pending EXPUNGEs: FETCH refused, then BYE after too many
    await rec.cmd("B", "STORE 1 +FLAGS (\\Deleted)")
    await rec.cmd("B", "EXPUNGE")
    for i in range(5):
        r = await rec.cmd("A", "FETCH 1 (FLAGS)", label="FETCH with pending EXPUNGE")
        if r.closed:
            break
    await _open(rec, "C")
    for i in range(13):
        r = await rec.cmd("C", "SELECT inbox", label="SELECT again and again")
        if r.closed:
            break
    # the command watchdog and the unhandled-exception path
    await _open(rec, "D")
    await rec.cmd("D", "SELECT inbox")
    h = w.sessions["D"].handler

    async def slow(cmd):
        await asyncio.sleep(ac.COMMAND_TIMEOUT + 5)

    h.do_check = slow
    await rec.cmd("D", "CHECK", label="CHECK that never finishes (watchdog)", limit=ac.COMMAND_TIMEOUT + 60)
    await rec.cmd("D", "NOOP", label="NOOP after the watchdog")

    async def boom(cmd):
        raise RuntimeError("boom \"quote\" (paren \\ \r\n* 99 EXISTS\r\n{5}")

    h.do_check = boom
    await rec.cmd("D", "CHECK", label="CHECK raising an unexpected exception")
    await asyncio.sleep(0.2)
    rec.cut_all("end")


def run_scenario(job):
    """job: dict(kind=..., seed=..., ...) -> list of traces (picklable)"""
    kind = job["kind"]
    w = World(seed=job.get("seed", 0))
    rec = Recorder(w, job["name"])
    n_fix = 0
    disk = []
    if kind == "fixtures":
        n_fix = install_fixtures(w, job["which"], job.get("limit"))
    msgs = None
    if kind == "structures":
        rng = random.Random(job["seed"])
        msgs = structure_messages(job["first_id"], rng, job["count"])
        msgs = [m for i, m in enumerate(msgs) if i % job["of"] == job["part"]]
        install_messages(w, [m[1] for m in msgs])
    if kind == "names":
        for i, sh in enumerate(job.get("disk_shapes", [])):
            nm = f"d{i}{shape_value(sh)}"
            if "/" in nm or "\x00" in nm:
                continue
            os.makedirs(os.path.join(str(w.maildir), nm), exist_ok=True)
            disk.append(nm)

    async def main(loop):
        await w.start()
        try:
            if kind == "shapes":
                await sc_shapes(rec, job["shapes"], job["first_id"])
            elif kind == "structures":
                await sc_structures(rec, msgs, job["sections"])
            elif kind == "fixtures":
                await sc_fixtures(rec, n_fix, job["sections"])
            elif kind == "names":
                await sc_names(rec, job["shapes"], disk)
            elif kind == "keywords":
                await sc_keywords(rec, job["keywords"], job["first_id"])
            elif kind == "errors":
                await sc_errors(rec, error_commands(job["shapes"]), job["first_id"])
            elif kind == "idle":
                await sc_idle_and_failures(rec, job["first_id"])
            else:
                raise ValueError(kind)
            await asyncio.sleep(0.2)
            rec.cut_all("tail")
        finally:
            try:
                await w.stop()
            except Exception:
                pass
        return rec.traces

    try:
        return simloop.run(main)
    finally:
        w.cleanup()
