"""
C14 harness: realise the abstract mailboxes that TLC enumerated (spec/SearchMC.tla,
written as JSON), run every search program through SEARCH and UID SEARCH on the
real server, and record the results together with what FETCH reports about the
very same messages.  No oracle lives here: this file builds messages, renders
programs as IMAP text, drives the server and parses its answers.  The verdicts
are TLC's (spec/SearchTrace.tla).

Abstract -> concrete
  * a mailbox is a sequence of <<palette index, uid>>; the folder is created
    with one file per uid 1..max (files get uids in order in a fresh folder);
    files whose uid is not wanted are "fillers", flagged \\Deleted and removed by
    a UID EXPUNGE of a set-up session, which leaves the gaps in the UID table;
  * flags come from .mh_sequences as an MH agent would write them; the
    set-up session FETCHes FLAGS of the messages that are not to be \\Recent
    (the server clears \\Recent once it has reported it);
  * INTERNALDATE is the file's mtime; RFC822.SIZE is reached by padding the
    body with a line of "0" (the number FETCH reports is what TLC uses, the
    intended one only steers coverage).
"""

import datetime
import os
import re

from . import simloop, wire, world

MONTHS = ["Jan", "Feb", "Mar", "Apr", "May", "Jun", "Jul", "Aug", "Sep", "Oct", "Nov", "Dec"]
DAYS = ["Mon", "Tue", "Wed", "Thu", "Fri", "Sat", "Sun"]
EPOCH = datetime.date(1970, 1, 1)
SEQ_OF_FLAG = {"Answered": "replied", "Flagged": "flagged", "Deleted": "Deleted",
               "Draft": "Draft"}
STAR = -1


def day_to_date(day):
    return EPOCH + datetime.timedelta(days=day)


def imap_date(day, form=0):
    d = day_to_date(day)
    s = f"{d.day}-{MONTHS[d.month - 1]}-{d.year}"
    if form % 3 == 1:
        s = f"{d.day:02d}-{MONTHS[d.month - 1]}-{d.year}"
    if form % 3 == 2:
        s = '"' + s + '"'
    return s


_IDATE = re.compile(r"^\s*(\d{1,2})-([A-Za-z]{3})-(\d{4}) ")


def internaldate_day(s):
    """'dd-Mon-yyyy hh:mm:ss +zzzz' -> day number of the date as written."""
    m = _IDATE.match(s)
    if not m:
        return -1
    mon = MONTHS.index(m.group(2).capitalize()) + 1
    return (datetime.date(int(m.group(3)), mon, int(m.group(1))) - EPOCH).days


# ---------------------------------------------------------------------------
# messages
#
def build_message(pal, mid, filler=False):
    """-> (file bytes, source record).  The source record is what the message
    says, in the shape spec/Search.tla wants: header fields in order and the
    body text."""
    hdrs = [[h[0], h[1]] for h in pal["hdrs"]]
    sday, stime, szone = pal["sent"]
    d = day_to_date(sday)
    hdrs.append(["Date", f"{DAYS[d.weekday()]}, {d.day} {MONTHS[d.month - 1]} {d.year} {stime} {szone}"])
    hdrs.append(["X-Verif-Id", str(mid)])
    body_lines = [pal["body"]]
    size = sum(len(n) + 2 + len(v) + 2 for n, v in hdrs) + 2 + sum(len(b) + 2 for b in body_lines)
    want = pal.get("size", 0)
    if want:
        pad = want - size - 2
        if pad < 1:
            raise ValueError(f"palette message cannot be padded to {want} (natural size {size})")
        body_lines.append("0" * pad)
    lines = [f"{n}: {v}" for n, v in hdrs] + [""] + body_lines
    data = ("\n".join(lines) + "\n").encode("latin-1")
    src = {"mid": mid, "hdrs": hdrs, "body": "\n".join(body_lines) + "\n", "sday": sday,
           "want_size": want, "want_iday": pal["its"][0],
           "want_flags": sorted(pal["flags"]), "filler": filler}
    return data, src


def realise_folder(w, name, slots, palette, top_filler=False):
    """Write the folder of one abstract mailbox (before the server starts).
    Returns the plan for the set-up session.  With top_filler one more file is
    written above the highest wanted uid and removed by the set-up session:
    the mailbox then has a history in which its newest message was expunged
    (UIDNEXT is more than one above the highest UID)."""
    path = w.maildir / name
    path.mkdir(parents=True, exist_ok=True)
    by_uid = {int(u): int(t) for t, u in slots}
    top = (max(by_uid) if by_uid else 0) + (1 if top_filler else 0)
    seqs = {}
    sources = {}
    fillers, not_recent = [], []
    for k in range(1, top + 1):
        filler = k not in by_uid
        pal = palette[(by_uid[k] if not filler else ((k % len(palette)) + 1)) - 1]
        data, src = build_message(pal, k, filler)
        (path / str(k)).write_bytes(data)
        t = pal["its"][0] * 86400 + pal["its"][1]
        os.utime(path / str(k), (t, t))
        sources[k] = src
        flags = set(pal["flags"])
        if filler:
            fillers.append(k)
            flags = {"Deleted"}
        for f in flags:
            if f in ("Seen", "Recent"):
                continue
            seqs.setdefault(SEQ_OF_FLAG.get(f, f), []).append(k)
        if "Seen" not in flags:
            seqs.setdefault("unseen", []).append(k)
        if "Recent" not in flags and not filler:
            not_recent.append(k)
    with open(path / ".mh_sequences", "w") as f:
        for nm, ks in sorted(seqs.items()):
            f.write(f"{nm}: {' '.join(str(k) for k in ks)}\n")
    return {"name": name, "top": top, "fillers": fillers, "not_recent": not_recent,
            "sources": sources, "slots": [[int(t), int(u)] for t, u in slots]}


# ---------------------------------------------------------------------------
# rendering programs (syntax only)
#
def render_set(s):
    out = []
    for a, b in s:
        sa = "*" if a == STAR else str(a)
        sb = "*" if b == STAR else str(b)
        out.append(sa if a == b else f"{sa}:{sb}")
    return ",".join(out)


def render_astring(s, form):
    b = s.encode("latin-1")
    if form % 4 == 3:
        return wire.literal(b)
    if form % 4 == 0 and wire.is_atom_safe(b):
        return b
    return wire.quote(b)


NULLARY = {"ALL", "ANSWERED", "DELETED", "DRAFT", "FLAGGED", "RECENT", "SEEN", "UNANSWERED",
           "UNDELETED", "UNDRAFT", "UNFLAGGED", "UNSEEN", "NEW", "OLD"}
DATEKEYS = {"BEFORE", "ON", "SINCE", "SENTBEFORE", "SENTON", "SENTSINCE"}
STRKEYS = {"BCC", "CC", "FROM", "SUBJECT", "TO", "BODY", "TEXT"}


def render(p, form=0, top=True):
    """Program (nested lists as TLC wrote them) -> bytes of the search program."""
    k = p[0]
    if k == "NOT":
        return b"NOT " + render(p[1], form + 1, False)
    if k == "OR":
        return b"OR " + render(p[1], form + 1, False) + b" " + render(p[2], form + 2, False)
    if k == "AND":
        inner = b" ".join(render(q, form + 1 + i, False) for i, q in enumerate(p[1]))
        return inner if top else b"(" + inner + b")"
    if k in NULLARY:
        return k.encode() if form % 2 == 0 else k.lower().encode()
    if k in ("KEYWORD", "UNKEYWORD"):
        return k.encode() + b" " + p[1].encode()
    if k in DATEKEYS:
        return k.encode() + b" " + imap_date(p[1], form).encode()
    if k in ("LARGER", "SMALLER"):
        return k.encode() + b" " + str(p[1]).encode()
    if k in STRKEYS:
        return k.encode() + b" " + render_astring(p[1], form)
    if k == "HEADER":
        return b"HEADER " + render_astring(p[1], form + 1) + b" " + render_astring(p[2], form)
    if k == "SEQ":
        return render_set(p[1]).encode()
    if k == "UID":
        return b"UID " + render_set(p[1]).encode()
    raise ValueError(f"cannot render {p!r}")


# ---------------------------------------------------------------------------
# driving the server
#
class Runner:
    def __init__(self, w):
        self.w = w
        self.nsess = 0
        self.commands = 0

    async def fresh(self, name, mode):
        self.nsess += 1
        s = f"T{self.nsess}"
        await self.w.open(s)
        r = await self.w.cmd(s, f"{mode} {name}", settle=0)
        exists = 0
        for d in r.items:
            if d["kind"] == "EXISTS":
                exists = d["n"]
        return s, r.status, exists

    async def setup(self, plan):
        """The set-up session: clear \\Recent where it is not wanted, make the
        UID gaps."""
        w = self.w
        self.nsess += 1
        s = f"R{self.nsess}"
        await w.open(s)
        r = await w.cmd(s, f"SELECT {plan['name']}", settle=0)
        if r.status != "OK":
            raise RuntimeError(f"set-up SELECT failed: {r.tagged}")
        if plan["not_recent"]:
            st = ",".join(str(k) for k in plan["not_recent"])
            r = await w.cmd(s, f"FETCH {st} (FLAGS)", settle=0)
            if r.status != "OK":
                raise RuntimeError(f"set-up FETCH failed: {r.tagged}")
        if plan["fillers"]:
            st = ",".join(str(k) for k in plan["fillers"])
            r = await w.cmd(s, f"UID EXPUNGE {st}", settle=0)
            if r.status != "OK":
                raise RuntimeError(f"set-up UID EXPUNGE failed: {r.tagged}")
        r = await w.cmd(s, "LOGOUT", settle=0.05)

    async def snapshot(self, s, n, with_flags):
        """What FETCH says about every message: [{seq, uid, flags?, size, iday, mid}]"""
        if n == 0:
            return []
        atts = "UID RFC822.SIZE INTERNALDATE BODY.PEEK[HEADER.FIELDS (X-Verif-Id)]"
        if with_flags:
            atts = "FLAGS " + atts
        r = await self.w.cmd(s, f"FETCH 1:* ({atts})", settle=0)
        if r.status != "OK":
            raise RuntimeError(f"snapshot FETCH failed: {r.tagged}")
        out = {}
        for d in r.items:
            if d["kind"] != "FETCH":
                continue
            mid = 0
            for key, val in d["items"].items():
                if key.upper().startswith("BODY[") and isinstance(val, tuple):
                    mid = world.msg_id_of_bytes(val[1])
            if "uid" not in d or "size" not in d or "internaldate" not in d:
                continue  # an unsolicited flag update, not the answer to this FETCH
            rec = out.setdefault(d["n"], {"seq": d["n"]})
            rec.update(uid=d["uid"], size=d["size"],
                       iday=internaldate_day(d["internaldate"]), mid=mid)
            if "flags" in d:
                rec["flags"] = sorted(world.norm_flag(f) for f in d["flags"])
        return [out[k] for k in sorted(out)]

    async def search(self, s, text, uid):
        cmd = (b"UID SEARCH " if uid else b"SEARCH ") + text
        r = await self.w.cmd(s, cmd, kind="SEARCH", uid=uid, settle=0, limit=30.0)
        self.commands += 1
        lines = [d["nums"] for d in r.items if d["kind"] == "SEARCH"]
        found = lines[0] if lines else []
        st = r.status if r.status in ("OK", "NO", "BAD") else "NONE"
        if len(lines) > 1:
            st = "MULTI"
        return st, found, r.closed

    async def run_mailbox(self, plan, programs, which, mode):
        """which: indices into programs.  Returns the group record."""
        name = plan["name"]
        await self.setup(plan)
        s, st, n = await self.fresh(name, mode)
        if st != "OK":
            raise RuntimeError(f"{mode} {name} failed")
        examine = mode == "EXAMINE"
        pre = await self.snapshot(s, n, with_flags=examine)
        cases = []
        reopened = 0
        for pi in which:
            text = render(programs[pi], form=pi)
            res = []
            for uid in (False, True):
                stc, found, closed = await self.search(s, text, uid)
                if closed:
                    reopened += 1
                    s, st2, n2 = await self.fresh(name, mode)
                    if st2 != "OK" or n2 != n:
                        raise RuntimeError(f"re-{mode} {name} failed")
                res += [stc, found]
            cases.append([pi] + res)
        post = await self.snapshot(s, n, with_flags=True)
        await self.w.cmd(s, "LOGOUT", settle=0.05)
        msgs = []
        for i, rec in enumerate(post):
            src = plan["sources"].get(rec["mid"], None)
            if src is None:
                raise RuntimeError(f"{name}: message {rec} has no source")
            msgs.append({"seq": rec["seq"], "uid": rec["uid"], "flags": rec.get("flags", []),
                         "size": rec["size"], "iday": rec["iday"], "sday": src["sday"],
                         "hdrs": src["hdrs"], "body": src["body"], "mid": rec["mid"],
                         "want_size": src["want_size"], "want_iday": src["want_iday"],
                         "want_flags": src["want_flags"]})
        strip = (lambda r: {k: v for k, v in r.items() if k != "flags"}) if not examine else (lambda r: r)
        stable = [strip(r) for r in pre] == [strip(r) for r in post]
        return {"name": name, "mode": mode, "slots": plan["slots"], "n": n, "msgs": msgs,
                "stable": stable, "cases": cases, "reopened": reopened}


def run_groups(job):
    """job = {palette, programs, groups: [{name, slots, which}], seed}.  One
    World; every mailbox is a folder of it.  Returns the group records."""
    palette, programs = job["palette"], job["programs"]
    w = world.World(seed=job.get("seed", 0))
    plans = []
    for g in job["groups"]:
        # every third mailbox has had its newest message expunged
        plans.append((realise_folder(w, g["name"], g["slots"], palette,
                                     top_filler=(len(plans) + job.get("seed", 0)) % 3 == 1), g))

    async def main(loop):
        await w.start()
        try:
            r = Runner(w)
            out = []
            for i, (plan, g) in enumerate(plans):
                mode = g.get("mode") or ("EXAMINE" if i % 2 == 0 else "SELECT")
                rec = await r.run_mailbox(plan, programs, g["which"], mode)
                rec["gid"] = g.get("gid", i)
                out.append(rec)
            return out
        finally:
            try:
                await w.stop()
            except Exception:
                pass

    try:
        return simloop.run(main)
    finally:
        w.cleanup()
