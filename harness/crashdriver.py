"""
C11 driver: kill the per-user server at every crash point of a step.

For a history h = s_1 .. s_n and a step index j:
  * the prefix s_1 .. s_{j-1} is executed normally on a fresh mail directory
    (unarmed) and the directory is snapshotted together with the *ledger*: what
    has been acknowledged to clients so far (projected state after the last
    acknowledged command) and every (mailbox, UIDVALIDITY, UID) -> message
    identity ever revealed in a response;
  * step s_j is executed once in recording mode to learn its crash points (every
    SQL statement / commit and every folder mutation, before and after);
  * for every k a forked child restores the snapshot, starts the server,
    arms crash point k and executes s_j; os._exit() at point k: no cleanup code
    runs.  What the client was told before the kill is appended to the ledger
    by the child, unbuffered;
  * a second child starts the server again on that directory, SELECTs every
    mailbox and records the observation.
spec/TraceDurable.tla validates (ledger, observation) pairs.
"""

import json
import mailbox as stdmailbox
import os
import shutil
import subprocess
import sys
import tempfile
import traceback

from . import faults, simloop
from .maildriver import MailDriver
from .world import World, msg_id_of_bytes, norm_flag


# ---------------------------------------------------------------------------
# crash points on folder mutations (SQL points come from the sqlshim)
#
_wrapped = False


def install_fs_points():
    global _wrapped
    if _wrapped:
        return
    _wrapped = True

    def wrap(obj, name, label):
        orig = getattr(obj, name)

        def w(*a, **k):
            faults.point(label, a[0] if a else "")
            r = orig(*a, **k)
            faults.point(label + "-done", a[0] if a else "")
            return r
        w.__wrapped__ = orig
        setattr(obj, name, w)

    for name in ("rename", "link", "unlink", "remove", "utime", "symlink", "rmdir", "mkdir", "replace"):
        wrap(os, name, "os." + name)
    wrap(shutil, "rmtree", "rmtree")
    for name in ("add", "remove", "set_sequences", "pack", "remove_folder"):
        wrap(stdmailbox.MH, name, "MH." + name)


# ---------------------------------------------------------------------------
def observe_state(d: MailDriver):
    st = d.state()
    out = {}
    for m, e in st["mb"].items():
        out[m] = {"vv": e["vv"], "next": e["next"], "active": e["active"], "nosel": e["nosel"],
                  "msgs": [[k, u, i, sorted(fl)] for k, u, i, dd, fl in e["msgs"]],
                  "files": e["files"]}
    return out


def revealed_from(items, mbname, vv, acc):
    """(mailbox, vv, uid) -> id pairs revealed by FETCH items with a UID"""
    for it in items:
        if it["kind"] == "FETCH" and it.get("uid"):
            bid = 0
            for key, val in it["items"].items():
                ku = key.upper()
                if (ku.startswith("BODY[]") or ku == "RFC822") and isinstance(val, tuple):
                    bid = msg_id_of_bytes(val[1])
            acc.append([mbname, vv, it["uid"], bid])


def _child_prefix(root, steps, out_path, world_kw):
    """Run the prefix unarmed; write ledger (acked state + reveals)."""
    w = World(seed=1, root=root, **world_kw)
    d = MailDriver(w)

    async def main(loop):
        await w.start()
        d.install()
        try:
            d.emit("Init")
            await run_steps_bare(d, steps)
            acked = observe_state(d)
            reveals = []
            for e in d.events:
                pass
            # reveal every live message: UID FETCH 1:* (UID BODY.PEEK[]) on every mailbox
            await w.open("R")
            for m in list(acked):
                if not acked[m]["active"] or acked[m]["nosel"]:
                    continue
                r = await w.cmd("R", f'EXAMINE "{m}"')
                if r.status != "OK":
                    continue
                r = await w.cmd("R", "UID FETCH 1:* (UID BODY.PEEK[])")
                revealed_from(r.items, m, acked[m]["vv"], reveals)
            nxt = {m: acked[m]["next"] for m in acked}
            json.dump({"acked": acked, "revealed": reveals, "told_next": nxt,
                       "next_msg_id": w.next_msg_id}, open(out_path, "w"))
        finally:
            d.uninstall()
            await w.stop()

    simloop.run(main)


def _child_step(root, step, mode, k, ledger_path, world_kw, next_msg_id):
    """Start on `root`, then execute the step recording points (mode='count') or
    armed at k (mode='kill').  Appends acknowledgements to ledger_path."""
    install_fs_points()
    w = World(seed=1, root=root, **world_kw)
    w.next_msg_id = next_msg_id
    d = MailDriver(w)
    points = []
    led = os.open(ledger_path, os.O_WRONLY | os.O_CREAT | os.O_APPEND)

    def note(obj):
        os.write(led, (json.dumps(obj) + "\n").encode())

    async def main(loop):
        if step.get("startup"):
            # the step under test is the start-up itself (first start: schema
            # creation and migrations, activation of every folder)
            if mode == "count":
                faults.record(points)
            else:
                faults.arm(k)
        await w.start()
        d.install()
        d.emit("Init")
        if step.get("startup"):
            faults.reset()
            note({"k": "completed"})
            if mode == "count":
                return len(points), points, observe_state(d)
            return None
        # sessions used by the step must exist and have their mailbox selected: the step
        # carries its own preamble (list of steps executed unarmed)
        pre, body = step["pre"], step["body"]
        await run_steps_bare(d, pre)
        before = len(d.events)
        # everything a client is told from now on goes to the ledger as it is written
        for s in w.sessions.values():
            orig = s._on_write

            def hooked(data, _orig=orig, _s=s):
                _orig(data)
                for it in _s.items[-8:]:
                    if it.get("_led"):
                        continue
                    it["_led"] = True
                    if it["kind"] == "TAGGED":
                        note({"k": "tagged", "sess": _s.name, "status": it["status"],
                              "code": it.get("code", ""), "codearg": it.get("codearg", "")})
                    elif it["kind"] == "FETCH" and it.get("uid"):
                        h = _s.handler
                        note({"k": "fetch", "mbox": h.mbox.name if h.mbox else "", "uid": it["uid"],
                              "vv": h.mbox.uid_vv if h.mbox else 0,
                              "flags": sorted(norm_flag(f) for f in it.get("flags", []))})
            s._on_write = hooked
        # what has been acknowledged up to here is the state right now
        note({"k": "prestate", "state": observe_state(d), "next_msg_id": w.next_msg_id})
        if mode == "count":
            faults.record(points)
        else:
            faults.arm(k)
        await run_steps_bare(d, body)
        faults.reset()
        note({"k": "completed"})
        if mode == "count":
            return len(points), points, observe_state(d)
        return None

    r = simloop.run(main)
    os.close(led)
    return r


async def run_steps_bare(d, steps):
    """Execute steps without the trailing synchronisation of mailgen.run_steps."""
    w = d.w
    for st in steps:
        op = st[0]
        if op == "deliver":
            d.deliver(st[1], n=st[2], unseen=st[3], adv=st[4])
        elif op == "poll":
            await d.poll()
        elif op == "open":
            await d.open(st[1])
        elif op == "create":
            await d.create(st[1], st[2])
        elif op == "delete":
            await d.delete(st[1], st[2])
        elif op == "rename":
            await d.rename(st[1], st[2], st[3])
        elif op == "select":
            await d.select(st[1], st[2])
        elif op == "append":
            await d.append(st[1], st[2], flags=st[3], date=st[4])
        elif op == "store":
            await d.store(st[1], st[2], st[3], st[4], silent=st[5], uid=st[6])
        elif op == "fetchbody":
            await d.fetch(st[1], st[2], what="flagsbody", uid=st[3])
        elif op == "expunge":
            await d.expunge(st[1])
        elif op == "close":
            await d.close(st[1])
        elif op == "copy":
            await d.copy(st[1], st[2], st[3], uid=st[4])
        elif op == "move":
            await d.copy(st[1], st[2], st[3], uid=st[4], move=True)
        elif op == "subscribe":
            await d.subscribe(st[1], st[2])
        elif op == "noop":
            await d.noop(st[1])
        else:
            raise ValueError(op)


def _child_observe(root, out_path, world_kw):
    """Start the server again on the directory and look."""
    res = {"started": False, "error": "", "mb": {}, "select": {}}
    try:
        w = World(seed=2, root=root, **world_kw)
        d = MailDriver(w)

        async def main(loop):
            await w.start()
            res["started"] = True
            try:
                st = observe_state(d)
                await w.open("O")
                for m in w.mailbox_names():
                    e = st.get(m)
                    if e is None or (e["active"] and e["nosel"]):
                        continue
                    r = await w.cmd("O", f'SELECT "{m}"')
                    res["select"][m] = r.status
                    told = {"next": 0, "vv": 0, "exists": -1}
                    for it in r.items:
                        if it["kind"] == "UOK" and it.get("code") == "UIDNEXT":
                            told["next"] = int(it["codearg"])
                        if it["kind"] == "UOK" and it.get("code") == "UIDVALIDITY":
                            told["vv"] = int(it["codearg"])
                        if it["kind"] == "EXISTS":
                            told["exists"] = it["n"]
                    seen = []
                    if r.status == "OK":
                        r2 = await w.cmd("O", "UID FETCH 1:* (UID FLAGS BODY.PEEK[])")
                        for it in r2.items:
                            if it["kind"] == "FETCH" and it.get("uid"):
                                bid = 0
                                for key, val in it["items"].items():
                                    if key.upper().startswith("BODY[]") and isinstance(val, tuple):
                                        bid = msg_id_of_bytes(val[1])
                                seen.append([it["uid"], bid, sorted(norm_flag(f) for f in it.get("flags", []))])
                    res["mb"][m] = {"told": told, "fetched": seen, "status": r.status}
                res["state"] = observe_state(d)
            finally:
                await w.stop()

        simloop.run(main)
    except BaseException:
        res["error"] = traceback.format_exc()[-1200:]
    json.dump(res, open(out_path, "w"))


def fork_run(fn, *args):
    """Run fn(*args) in a forked child; returns (exit status, result or None)."""
    r, wfd = os.pipe()
    pid = os.fork()
    if pid == 0:
        os.close(r)
        code = 0
        try:
            out = fn(*args)
            os.write(wfd, json.dumps(out, default=str).encode())
        except SystemExit:
            code = 3
        except BaseException:
            try:
                os.write(wfd, json.dumps({"__error__": traceback.format_exc()[-1500:]}).encode())
            except Exception:
                pass
            code = 4
        finally:
            os._exit(code)
    os.close(wfd)
    chunks = []
    while True:
        b = os.read(r, 65536)
        if not b:
            break
        chunks.append(b)
    os.close(r)
    _, status = os.waitpid(pid, 0)
    code = os.waitstatus_to_exitcode(status)
    data = b"".join(chunks)
    try:
        val = json.loads(data) if data else None
    except ValueError:
        val = None
    return code, val


def crash_experiments(prefix, step, world_kw=None, ks=None, keep_all=False):
    """All crash points of `step` after `prefix`.  Returns list of experiment records."""
    world_kw = world_kw or {}
    base = tempfile.mkdtemp(prefix="verif-crash-")
    out = []
    try:
        root0 = os.path.join(base, "snap")
        os.makedirs(root0)
        led0 = os.path.join(base, "ledger0.json")
        if step.get("startup") and not prefix:
            # first start-up ever: the snapshot is an empty mail directory
            os.makedirs(os.path.join(root0, "user", "Mail"))
            ledger0 = {"acked": {}, "revealed": [], "told_next": {}, "next_msg_id": 1}
        else:
            code, val = fork_run(_child_prefix, root0, prefix, led0, world_kw)
            if code != 0:
                raise RuntimeError(f"prefix failed: {code} {val}")
            ledger0 = json.load(open(led0))
        # learn the crash points
        rootc = os.path.join(base, "count")
        shutil.copytree(root0, rootc, symlinks=True)
        code, val = fork_run(_child_step, rootc, step, "count", 0, os.path.join(base, "ledc.jsonl"),
                             world_kw, ledger0["next_msg_id"])
        if code != 0 or not val:
            raise RuntimeError(f"counting run failed: {code} {val}")
        npoints, points, completed = val
        # the folder operation each crash point lies in ("MH.pack", "MH.add", ... or "")
        ctx, stack, after = [], [], ""
        for kind, _ in points:
            if kind.startswith("MH.") and not kind.endswith("-done"):
                stack.append(kind)
            ctx.append(stack[0] if stack else after)       # outermost folder operation
            if kind.startswith("MH.") and kind.endswith("-done") and stack:
                stack.pop()
                if kind == "MH.pack-done":
                    after = "MH.pack+"
        # k = npoints + 1: no point is armed, the step runs to its last acknowledgement and the
        # process ends there without any shutdown ("power off right after the OK")
        for k in (ks if ks is not None else range(1, npoints + 2)):
            rootk = os.path.join(base, f"k{k}")
            shutil.copytree(root0, rootk, symlinks=True)
            ledk = os.path.join(base, f"led{k}.jsonl")
            code, _ = fork_run(_child_step, rootk, step, "kill", k, ledk, world_kw, ledger0["next_msg_id"])
            acks = []
            if os.path.exists(ledk):
                for line in open(ledk):
                    try:
                        acks.append(json.loads(line))
                    except ValueError:
                        pass
            obsp = os.path.join(base, f"obs{k}.json")
            code2, _ = fork_run(_child_observe, rootk, obsp, world_kw)
            obs = json.load(open(obsp)) if os.path.exists(obsp) else {"started": False, "error": "observer died"}
            end = k == npoints + 1 and code == 0
            out.append({"k": k, "point": points[k - 1] if k - 1 < len(points) else
                        (["end", "after the last acknowledgement"] if end else ["?", ""]),
                        "killed": code == 97, "end": end, "exit": code, "ledger0": ledger0, "acks": acks, "obs": obs,
                        "completed": completed, "ctx": ctx[k - 1] if k - 1 < len(ctx) else ("end" if end else "")})
            shutil.rmtree(rootk, ignore_errors=True)
        return out, npoints
    finally:
        shutil.rmtree(base, ignore_errors=True)


def upgrade_experiments(prefix, world_kw=None, deliver=True):
    """A restart across a software upgrade: the prefix is run and the server stopped in an orderly way, the
    database is taken back to the schema of the previous release (no `mailboxes.msg_keys`, migrations >= 5
    not recorded), optionally an MH agent delivers one message to every folder meanwhile, and the server is
    started again (migrations run, msg_keys is rebuilt from the folder).  Returns experiment records in the
    shape of crash_experiments (judged by the same clauses)."""
    import sqlite3
    import time
    from .world import make_msg
    world_kw = world_kw or {}
    base = tempfile.mkdtemp(prefix="verif-upg-")
    try:
        root0 = os.path.join(base, "snap")
        os.makedirs(root0)
        led0 = os.path.join(base, "ledger0.json")
        code, val = fork_run(_child_prefix, root0, prefix, led0, world_kw)
        if code != 0:
            raise RuntimeError(f"prefix failed: {code} {val}")
        ledger0 = json.load(open(led0))
        maildir = os.path.join(root0, "user", "Mail")
        con = sqlite3.connect(os.path.join(maildir, "asimap.db"))
        con.execute("ALTER TABLE mailboxes DROP COLUMN msg_keys")
        con.execute("DELETE FROM versions WHERE version >= 5")
        con.commit()
        con.close()
        delivered = {}
        if deliver:
            nid = ledger0["next_msg_id"]
            for m, st in ledger0["acked"].items():
                fdir = os.path.join(maildir, m)
                if not os.path.isdir(fdir) or st.get("nosel"):
                    continue
                keys = [int(x) for x in os.listdir(fdir) if x.isdigit()]
                k = (max(keys) if keys else 0) + 1
                with open(os.path.join(fdir, str(k)), "wb") as f:
                    f.write(make_msg(nid))
                delivered.setdefault(m, []).append(nid)
                nid += 1
                seqf = os.path.join(fdir, ".mh_sequences")
                lines = open(seqf).read().splitlines() if os.path.exists(seqf) else []
                out, done = [], False
                for ln in lines:
                    if ln.startswith("unseen:"):
                        ln, done = ln + f" {k}", True
                    out.append(ln)
                if not done:
                    out.append(f"unseen: {k}")
                open(seqf, "w").write("\n".join(out) + "\n")
                t = time.time() + 5
                os.utime(fdir, (t, t))
        obsp = os.path.join(base, "obs.json")
        fork_run(_child_observe, root0, obsp, world_kw)
        obs = json.load(open(obsp)) if os.path.exists(obsp) else {"started": False, "error": "observer died"}
        return [{"k": 1, "point": ["upgrade", "start on a database at the previous schema" + (" after a delivery" if deliver else "")],
                 "killed": False, "end": True, "exit": 0, "ledger0": ledger0, "acks": [], "obs": obs,
                 "completed": None, "delivered": delivered, "ctx": "upgrade+delivery" if deliver else "upgrade"}], 1
    finally:
        shutil.rmtree(base, ignore_errors=True)

