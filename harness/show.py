"""Compact human-readable rendering of trace events."""


def ev_line(e, mboxes=None):
    out = []
    for s, items in e["out"].items():
        if items:
            out.append(s + ":" + ",".join(
                f"{it['k'][:3]}{it['n']}" + (f"u{it['uid']}" if it['uid'] else "") +
                (("{" + ",".join(it['fl']) + "}") if it['hasfl'] else "") for it in items))
    st = e["st"]
    mbs = []
    for m, b in st["mb"].items():
        if mboxes is not None and m not in mboxes:
            continue
        if not b["msgs"] and not b["files"] and mboxes is None:
            continue
        mbs.append(f"{m}[vv{b['vv']} n{b['next']}]=" + " ".join(
            f"{k}:{u}:{i}" + "{" + ",".join(f[:3] for f in fl) + "}" for k, u, i, d, fl in b["msgs"])
            + (" files=" + ",".join(f"{k}:{i}" for k, i in b["files"]) if True else "")
            + " fseq=" + ",".join(f"{k}{n[:3]}" for k, n in b["fseq"]))
    ss = " ".join(f"{s}({x['sel']}{'ro' if x['ro'] else ''}{'idle' if x['idle'] else ''}"
                  f"{' pend=' + ','.join(k[:3] + str(n) for k, n in x['pend']) if x['pend'] else ''})"
                  for s, x in st["ss"].items())
    args = ""
    if e["set"]:
        args += " set=" + str(e["set"])
    if e["mode"]:
        args += f" {e['mode']}{e['flags']}{' silent' if e['silent'] else ''}"
    if e["mbox"]:
        args += f" mbox={e['mbox']}"
    if e["applied"]:
        args += f" applied={e['applied']}"
    if e["code"]["name"]:
        args += f" code={e['code']}"
    if e["delivered"]:
        args += f" delivered={e['delivered']} {e['flags']}"
    return (f"{e['i']:3d} {'.' if e['internal'] else ' '}{e['act']:8s} {e['sess']:2s}"
            f"{' UID' if e['uid'] else ''} {e['status']:4s}{args} env={e['env']} pre={e['pre']}"
            f"\n       out: {' | '.join(out)}\n       {' ; '.join(mbs)}\n       {ss}"
            + (f"\n       text: {e['text']}" if e['status'] not in ('OK', 'CONT') else ""))


def show(trace, lo=1, hi=None, mboxes=None):
    hi = hi or len(trace)
    return "\n".join(ev_line(e, mboxes) for e in trace[lo - 1:hi])
