"""
C15 harness: drives the pieces of asimap that interpret an IMAP sequence set
with the sets enumerated by spec/SeqSetLaws.tla and records what each of them
returned / touched.  No verdicts here: the recorded results are validated by
TLC against spec/SeqSet.tla (spec/SeqSetTrace.tla).

Layer 1 (`layer1`): for every set of a group, on a real Mailbox object of a
running user server, the command parser, `sequence_set_to_list`,
`Mailbox.msg_set_to_msg_seq_set`, `Mailbox.search` (which builds the
SearchContext and runs `_match_message_set` / `_match_uid`) and, for the
covering subset, `Mailbox.copy` (its own expansion) are called directly with
what the real parser produced from the set text.

Layer 2 (`layer2`): the covering subset goes through complete commands on the
wire (FETCH, STORE, COPY, MOVE, SEARCH set / UID keys and their UID forms, UID
EXPUNGE); the UIDs returned, flagged, copied and removed are recorded together
with the tagged outcome.

A set is a list of elements [a] (single number) or [a, b] (range a:b) with -1
for "*".  A mailbox is its ascending list of UIDs.
"""

import mailbox as stdmailbox
import os

from .world import msg_id_of_file, run_world

STAR = -1


def render(elems):
    out = []
    for e in elems:
        out.append(":".join("*" if x == STAR else str(x) for x in e))
    return ",".join(out)


def norm_parsed(msg_set):
    """What the parser returned -> the spec's shape (no interpretation)."""
    def one(x):
        if isinstance(x, bool):
            return -99
        if isinstance(x, int):
            return x
        if x == "*":
            return STAR
        return -99

    out = []
    for e in msg_set:
        if isinstance(e, tuple):
            out.append([one(x) for x in e])
        else:
            out.append([one(e)])
    return out


def _ints(xs):
    out = []
    for x in xs:
        out.append(int(x) if isinstance(x, int) and not isinstance(x, bool) else -99)
    return out


def _status_of(exc):
    import asimap.exceptions as X

    import asimap.parse as XP

    # parse.BadCommand (BadSyntax, ...) is what every caller of the parser
    # answers with a tagged BAD
    if isinstance(exc, (X.Bad, XP.BadCommand)):
        return "BAD"
    if isinstance(exc, X.No):
        return "NO"
    return "ERR:" + type(exc).__name__


# ---------------------------------------------------------------------------
# building a mailbox with a given UID table (no sequence-set code involved:
# an external MH agent delivers and marks, plain EXPUNGE removes)
#
class Setup(RuntimeError):
    pass


async def build(w, sess, name, table, all_deleted=False, tail=0):
    """A mailbox whose messages have exactly the UIDs of `table`; `tail` more
    messages are delivered and expunged behind the last one, so that the next
    UID to be assigned is not the highest UID + 1."""
    r = await w.cmd(sess, f"CREATE {name}")
    if r.status != "OK":
        raise Setup(f"CREATE {name}: {r.status}")
    top = (table[-1] if table else 0) + tail
    path = w.folder_path(name)
    if top:
        keys, _ = w.deliver(name, n=top, unseen=False, adv=True)
        if keys != list(range(1, top + 1)):
            raise Setup(f"unexpected MH keys {keys}")
        drop = [k for k in keys if k not in table]
        if drop:
            mh = stdmailbox.MH(str(path), create=False)
            mh.set_sequences({"Deleted": drop})
            mh.close()
            w.set_mtime(name, True)
    r = await w.cmd(sess, f"SELECT {name}")
    if r.status != "OK":
        raise Setup(f"SELECT {name}: {r.status}")
    m = w.server.active_mailboxes[name]
    if top and len(m.uids) != top:
        raise Setup(f"{name}: resync found {m.uids}")
    if top and len(table) < top:
        r = await w.cmd(sess, "EXPUNGE")
        if r.status != "OK":
            raise Setup(f"EXPUNGE: {r.status}")
    if list(m.uids) != list(table) or m.next_uid != top + 1:
        raise Setup(f"{name}: wanted uids {table}, have {list(m.uids)} next {m.next_uid}")
    if all_deleted and table:
        # (the server does not re-read the flags of messages it knows from
        # .mh_sequences, so this has to go through STORE: one message at a
        # time, the plainest form of a set)
        for u in table:
            r = await w.cmd(sess, f"UID STORE {u} +FLAGS.SILENT (\\Deleted)")
            if r.status != "OK":
                raise Setup(f"{name}: UID STORE {u}: {r.status}")
        if set(m.sequences.get("Deleted", ())) != set(m.msg_keys):
            raise Setup(f"{name}: could not mark everything \\Deleted")
    return m


def ids_by_uid(w, m):
    path = w.folder_path(m.name)
    return {msg_id_of_file(path / str(k)): u for k, u in zip(m.msg_keys, m.uids)}


class Dst:
    """Destination mailbox of the COPY/MOVE tests; recreated now and then so
    that it stays small."""

    def __init__(self, w, sess, name="dst", limit=250):
        self.w, self.sess, self.name, self.limit = w, sess, name, limit
        self.n = 0

    async def make(self):
        r = await self.w.cmd(self.sess, f"CREATE {self.name}")
        if r.status != "OK":
            raise Setup(f"CREATE {self.name}: {r.status}")
        self.n = 0

    async def fresh(self):
        if self.n >= self.limit:
            r = await self.w.cmd(self.sess, f"DELETE {self.name}")
            if r.status != "OK":
                raise Setup(f"DELETE {self.name}: {r.status}")
            await self.make()

    def files(self):
        p = self.w.folder_path(self.name)
        try:
            return {e for e in os.listdir(p) if e.isdigit()}
        except OSError:
            return set()

    def arrived(self, before, idmap):
        """UIDs (in the source) of the messages that are new in dst."""
        p = self.w.folder_path(self.name)
        new = self.files() - before
        self.n += len(new)
        return sorted(idmap.get(msg_id_of_file(p / e), -99) for e in new)


# ---------------------------------------------------------------------------
# layer 1: the interpreters, called directly
#
async def layer1(w, group, cases):
    import asimap.parse as P
    from asimap.utils import sequence_set_to_list

    mode, table = group["mode"], list(group["uids"])
    uid = mode == "uid"
    cover = {render(s) for s in group.get("cover", [])}
    await w.open("A")
    dst = Dst(w, "A")
    await dst.make()
    m = await build(w, "A", "t1", table, tail=group.get("tail", 0))
    idmap = ids_by_uid(w, m)
    pre = "UID " if uid else ""
    out = []
    for s in cases:
        text = render(s)
        rec = {"set": s, "ops": []}
        # the command parser
        try:
            c = P.IMAPClientCommand(f"T1 {pre}FETCH {text} (UID)")
            c.parse()
            parsed = c.msg_set
            rec["pst"] = "OK"
            rec["parsed"] = norm_parsed(parsed)
            sk = P.IMAPClientCommand(
                f"T1 UID SEARCH UID {text}" if uid else f"T1 SEARCH {text}")
            sk.parse()
        except Exception as e:  # noqa
            rec["pst"] = _status_of(e)
            rec["parsed"] = []
            out.append(rec)
            continue
        # sequence_set_to_list
        if not uid or table:
            try:
                v = sequence_set_to_list(parsed, table[-1] if uid else len(table), uid)
                rec["ops"].append(["sequence_set_to_list", mode, "gate", "OK",
                                   [["list", "uidnum" if uid else "seq", _ints(v)]]])
            except Exception as e:  # noqa
                rec["ops"].append(["sequence_set_to_list", mode, "gate", _status_of(e), []])
        # Mailbox.msg_set_to_msg_seq_set
        try:
            v = m.msg_set_to_msg_seq_set(parsed, uid)
            rec["ops"].append(["msg_set_to_msg_seq_set", mode, "gate", "OK",
                               [["seqset", "seq", _ints(sorted(v))]]])
        except Exception as e:  # noqa
            rec["ops"].append(["msg_set_to_msg_seq_set", mode, "gate", _status_of(e), []])
        # Mailbox.search -> SearchContext -> _match_message_set / _match_uid
        try:
            v = await m.search(sk.search_key, sk.uid_command)
            rec["ops"].append(["Mailbox.search", mode, "search", "OK",
                               [["found", "uid" if uid else "seq", _ints(v)]]])
        except BaseException as e:  # noqa  (ExceptionGroup from the TaskGroup)
            if isinstance(e, (KeyboardInterrupt, SystemExit)):
                raise
            rec["ops"].append(["Mailbox.search", mode, "search", _status_of(e), []])
        # Mailbox.copy's own expansion
        if text in cover:
            await dst.fresh()
            dm = await w.server.get_mailbox(dst.name)
            before = dst.files()
            try:
                src, _ = await m.copy(parsed, dm, uid)
                st = "OK"
                got = [["src_uids", "uid", _ints(src)]]
            except Exception as e:  # noqa
                st, got = _status_of(e), []
            got.append(["arrived", "uid", dst.arrived(before, idmap)])
            rec["ops"].append(["Mailbox.copy", mode, "inner", st, got])
            if list(m.uids) != table:
                raise Setup(f"copy changed the source mailbox: {list(m.uids)}")
        out.append(rec)
    return out


# ---------------------------------------------------------------------------
# layer 2: complete commands
#
def _fetches(res):
    return [d for d in res.items if d["kind"] == "FETCH"]


class Cmds:
    def __init__(self, w, group):
        self.w = w
        self.mode = group["mode"]
        self.uid = self.mode == "uid"
        self.table = list(group["uids"])
        self.tail = group.get("tail", 0)
        self.sess = "A"
        self.kw = 0
        self.serial = 0
        self.dst = Dst(w, "A")
        self.cur = None  # name of the selected mailbox

    async def start(self):
        await self.w.open(self.sess)
        await self.dst.make()

    async def select(self, name):
        r = await self.w.cmd(self.sess, f"SELECT {name}")
        if r.status != "OK":
            raise Setup(f"SELECT {name}: {r.status}")
        self.cur = name

    async def run(self, text):
        """One command; if the server dropped the session, reconnect."""
        res = await self.w.cmd(self.sess, text)
        st = res.status
        if res.closed or st in ("CLOSED", "BYE", "NONE"):
            await self.w.open(self.sess)
            if self.cur:
                await self.select(self.cur)
        return st, res

    async def table_mailbox(self, prefix, all_deleted=False):
        """A fresh mailbox holding exactly the group's UID table; selected."""
        self.serial += 1
        old = self.cur if self.cur and self.cur.startswith(prefix) else None
        name = f"{prefix}{self.serial}"
        m = await build(self.w, self.sess, name, self.table, all_deleted=all_deleted,
                        tail=self.tail)
        self.cur = name
        if old:
            await self.w.cmd(self.sess, f"DELETE {old}")
        return m

    # -- the commands; each returns an op tuple [op, key, kind, st, got] ---------
    async def fetch(self, m, s):
        pre = "UID " if self.uid else ""
        st, res = await self.run(f"{pre}FETCH {render(s)} (UID)")
        fs = [d for d in _fetches(res) if d.get("uid")]
        return [pre + "FETCH", self.mode, "gate", st,
                [["responses", "seq", [d["n"] for d in fs]],
                 ["uid_items", "uid", [d["uid"] for d in fs]]]]

    async def store(self, m, s):
        pre = "UID " if self.uid else ""
        self.kw += 1
        kw = f"vk{self.kw}"
        st, res = await self.run(f"{pre}STORE {render(s)} FLAGS ({kw})")
        fs = [d for d in _fetches(res) if kw in d.get("flags", [])]
        keys = set(m.sequences.get(kw, ()))
        flagged = [u for k, u in zip(m.msg_keys, m.uids) if k in keys]
        return [pre + "STORE", self.mode, "gate", st,
                [["responses", "seq", [d["n"] for d in fs]],
                 ["flagged", "uid", flagged]]]

    @staticmethod
    def _copyuid(res):
        from .maildriver import parse_uidset

        for d in res.items:
            if d.get("code") == "COPYUID":
                parts = d["codearg"].split()
                try:
                    return parse_uidset(parts[1])
                except (ValueError, IndexError):
                    return [-99]
        return None

    async def copy(self, m, s, move=False):
        pre = "UID " if self.uid else ""
        verb = "MOVE" if move else "COPY"
        await self.dst.fresh()
        before = self.dst.files()
        idmap = ids_by_uid(self.w, m)
        was = list(m.uids)
        st, res = await self.run(f"{pre}{verb} {render(s)} {self.dst.name}")
        got = [["arrived", "uid", self.dst.arrived(before, idmap)]]
        cu = self._copyuid(res)
        if cu is not None or st != "OK":
            got.append(["copyuid", "uid", cu or []])
        if move:
            now = set(m.uids)
            got.append(["removed", "uid", [u for u in was if u not in now]])
        return [pre + verb, self.mode, "gate", st, got], was

    async def search(self, m, s, key, uidcmd):
        text = ("UID " if uidcmd else "") + "SEARCH " + ("UID " if key == "uid" else "") + render(s)
        st, res = await self.run(text)
        nums = []
        for d in res.items:
            if d["kind"] == "SEARCH":
                nums += d["nums"]
        name = ("UID " if uidcmd else "") + "SEARCH" + (" UID" if key == "uid" else "")
        return [name, key, "search", st, [["found", "uid" if uidcmd else "seq", nums]]]

    async def uid_expunge(self, m, s):
        was = list(m.uids)
        st, res = await self.run(f"UID EXPUNGE {render(s)}")
        now = set(m.uids)
        return ["UID EXPUNGE", "uid", "gate", st,
                [["removed", "uid", [u for u in was if u not in now]]]], was


async def layer2(w, group, cases, destructive):
    """cases: sets for the commands that leave the mailbox as it is;
    destructive: sets for MOVE and UID EXPUNGE."""
    c = Cmds(w, group)
    await c.start()
    out = []
    m = await c.table_mailbox("t")
    for s in cases:
        ops = [await c.fetch(m, s), await c.store(m, s)]
        op, _ = await c.copy(m, s)
        ops.append(op)
        if c.uid:
            ops.append(await c.search(m, s, "uid", False))
            ops.append(await c.search(m, s, "uid", True))
        else:
            ops.append(await c.search(m, s, "seq", False))
            ops.append(await c.search(m, s, "seq", True))
        if list(m.uids) != c.table:
            raise Setup(f"a non-destructive command changed the mailbox: {list(m.uids)}")
        out.append({"set": s, "uids": c.table, "ops": ops})
    if destructive:
        m = await c.table_mailbox("d")
        for s in destructive:
            if list(m.uids) != c.table:
                m = await c.table_mailbox("d")
            op, was = await c.copy(m, s, move=True)
            out.append({"set": s, "uids": was, "ops": [op]})
        if c.uid:
            m = await c.table_mailbox("x", all_deleted=True)
            for s in destructive:
                if list(m.uids) != c.table:
                    m = await c.table_mailbox("x", all_deleted=True)
                op, was = await c.uid_expunge(m, s)
                out.append({"set": s, "uids": was, "ops": [op]})
    return out


# ---------------------------------------------------------------------------
def run_job(job):
    """job = dict(layer, gid, group, cases, destructive, seed) -> result group"""
    group = job["group"]

    async def main(w):
        if job["layer"] == 1:
            return await layer1(w, group, job["cases"])
        return await layer2(w, group, job["cases"], job.get("destructive", []))

    cases = run_world(main, seed=job.get("seed", 0))
    return {"gid": job["gid"], "layer": job["layer"], "mode": group["mode"],
            "uids": list(group["uids"]), "cases": cases}
