"""
MailDriver: executes abstract mailbox-family actions (the vocabulary of
spec/MailStore.tla) against the real server through a World and records one
trace event per linearization point, with the full projected state.

Internal steps (resync inside a command or on the management task's poll,
admission of a command) are observed by wrapping the awaited primitives from
here -- the repository is not edited.
"""

import asyncio
import contextlib
import os
import re

from . import wire
from .world import World, make_msg, msg_id_of_bytes, norm_flag, wire_flag

STAR = -1


def _elem(e):
    if isinstance(e, (list, tuple)):
        return [int(e[0]), int(e[1])]
    return [int(e), int(e)]


def render_set(elems):
    out = []
    for a, b in (_elem(e) for e in elems):
        sa = "*" if a == STAR else str(a)
        sb = "*" if b == STAR else str(b)
        out.append(sa if a == b else f"{sa}:{sb}")
    return ",".join(out)


NO_TOLD = {"next": 0, "vv": 0, "exists": 0, "counts": False, "recent": 0, "unseen": 0, "first": 0}
EMPTY_CODE = {"name": "", "vv": 0, "src": [], "dst": []}


def parse_uidset(s):
    out = []
    for part in s.split(","):
        if ":" in part:
            a, b = part.split(":")
            out.extend(range(int(a), int(b) + 1))
        else:
            out.append(int(part))
    return out


class Stamped(str):
    """A notification string that remembers the server's uid list at the time
    it was generated."""
    srv = None

    @classmethod
    def make(cls, text, srv):
        if isinstance(text, Stamped):
            return text
        x = cls(text)
        x.srv = srv
        return x


class MailDriver:
    def __init__(self, world: World, names=("A", "B"), track=None):
        self.w = world
        self.events = []
        self.track = track  # mailbox names to project (None = all)
        self.agent = []
        self._installed = False
        self._admit = {}  # session-name -> (applied, pos)
        self._cmd_depth = 0
        self._resyncing = 0   # resyncs (Mailbox.check_new_msgs_and_flags) in progress right now
        self._env_start = None
        self.special = ["Archive", "Deleted Messages", "Drafts", "Junk", "Sent Messages"]

    # -- wrappers -------------------------------------------------------------------
    def install(self):
        """Wrap Mailbox.check_new_msgs_and_flags and
        IMAPClientCommand.ready_and_okay (harness-side observation points)."""
        import asimap.mbox as mbox_mod
        import asimap.parse as parse_mod

        drv = self
        if getattr(mbox_mod.Mailbox, "_verif_wrapped", False):
            mbox_mod.Mailbox._verif_driver[0] = drv
            return
        orig_check = mbox_mod.Mailbox.check_new_msgs_and_flags
        holder = [drv]

        async def check_wrapped(self, *a, **k):
            d0 = holder[0]
            if d0 is not None:
                d0._resyncing += 1
                rm = d0.__dict__.setdefault("_resync_mb", {})
                rm[self.name] = rm.get(self.name, 0) + 1
            try:
                changed = await orig_check(self, *a, **k)
            finally:
                if d0 is not None:
                    d0._resyncing -= 1
                    d0._resync_mb[self.name] -= 1
            d = holder[0]
            if changed:
                snap = list(self.uids)
                for c in self.clients.values():
                    c.pending_notifications[:] = [
                        x if isinstance(x, Stamped) else Stamped.make(x, snap)
                        for x in c.pending_notifications]
            if changed and d is not None and d.w.server is self.server:
                d.emit("Resync", mbox=self.name, internal=True)
            return changed

        mbox_mod.Mailbox.check_new_msgs_and_flags = check_wrapped
        orig_pack = mbox_mod.Mailbox._pack_if_necessary

        async def pack_wrapped(self, *a, **k):
            packed = await orig_pack(self, *a, **k)
            d = holder[0]
            if packed and d is not None and d.w.server is self.server:
                d.emit("Pack", mbox=self.name, internal=True)
            return packed

        mbox_mod.Mailbox._pack_if_necessary = pack_wrapped

        # Untagged data that is queued carries the server's uid list as of its
        # generation (a str subclass), so that the recorder can stamp a pended
        # "* n FETCH" / "* n EXISTS" with what n meant when it was produced.
        orig_dispatch = mbox_mod.Mailbox._dispatch_or_pend_notifications

        async def dispatch_wrapped(self, notifications, dont_notify=None):
            if isinstance(notifications, str):
                notifications = [notifications]
            snap = list(self.uids)
            notifications = [Stamped.make(n, snap) for n in notifications]
            return await orig_dispatch(self, notifications, dont_notify=dont_notify)

        mbox_mod.Mailbox._dispatch_or_pend_notifications = dispatch_wrapped

        import asimap.user_server as us_mod
        orig_push = us_mod.IMAPClientProxy.push

        async def push_wrapped(self, *data):
            w = holder[0].w if holder[0] is not None else None
            sess = None
            if w is not None:
                for s_ in w.sessions.values():
                    if s_.proxy is self:
                        sess = s_
                        break
            if sess is None or not any(isinstance(x, Stamped) for x in data):
                return await orig_push(self, *data)
            for x in data:
                sess.next_stamp = getattr(x, "srv", None)
                try:
                    await orig_push(self, x)
                finally:
                    sess.next_stamp = None

        us_mod.IMAPClientProxy.push = push_wrapped

        orig_rao = parse_mod.IMAPClientCommand.ready_and_okay

        @contextlib.asynccontextmanager
        async def rao_wrapped(self, mbox):
            async with orig_rao(self, mbox):
                d = holder[0]
                if d is not None:
                    # the admission state is a snapshot of every mailbox: let a resync that another
                    # mailbox's management task is in the middle of finish first
                    for _ in range(2000):
                        if d._resyncing <= 0:
                            break
                        await asyncio.sleep(0.001)
                    d._on_admit(self, mbox)
                yield

        parse_mod.IMAPClientCommand.ready_and_okay = rao_wrapped
        mbox_mod.Mailbox._verif_wrapped = True
        mbox_mod.Mailbox._verif_driver = holder
        self._installed = True

    def uninstall(self):
        import asimap.mbox as mbox_mod

        if getattr(mbox_mod.Mailbox, "_verif_wrapped", False):
            mbox_mod.Mailbox._verif_driver[0] = None

    def _on_admit(self, cmd, mbox):
        # find the session that is running this command
        for name, s in self.w.sessions.items():
            if s.current and cmd.tag == s.current[0] and not s.pop3:
                if name in self._admit:
                    return  # only the first admission (the command's own)
                applied = []
                if not cmd.uid_command and cmd.msg_set_as_set:
                    for n in sorted(cmd.msg_set_as_set):
                        if 1 <= n <= len(mbox.uids):
                            applied.append([n, mbox.uids[n - 1]])
                        else:
                            applied.append([n, 0])
                ev = self.emit("Admit", sess=name, internal=True, applied=applied,
                               src=mbox.name)
                self._admit[name] = ev["i"]
                return

    # -- state ------------------------------------------------------------------------
    def state(self):
        w = self.w
        names = self.track if self.track is not None else w.mailbox_names()
        mb = {}
        for m in names:
            if not (w.maildir / m).is_dir():
                continue
            p = w.project_mbox(m)
            ent = {"files": p["files"], "fseq": p["fseq"], "active": p["active"],
                   "vv": 0, "next": 0, "msgs": [], "nosel": False, "sub": False}
            if p["active"]:
                path = w.folder_path(m)
                msgs = []
                for key, uid, mid, fl in p["msgs"]:
                    try:
                        d = int(os.path.getmtime(path / str(key)))
                    except OSError:
                        d = 0
                    msgs.append([key, uid, mid, d, fl])
                ent.update(vv=p["vv"], next=p["next"], msgs=msgs,
                           nosel="\\Noselect" in p["attrs"], sub=p["sub"])
                ent["haschildren"] = "\\HasChildren" in p["attrs"]
                ent["mtask"] = p["mtask"]
            mb[m] = ent
        ss = {}
        for n in w.sessions:
            p = w.project_sess(n)
            if p.get("pop3"):
                ss[n] = {"sel": "", "ro": False, "idle": False, "pend": [],
                         "open": not p["closed"]}
            else:
                ss[n] = {"sel": p["sel"], "ro": p["ro"], "idle": p["idle"],
                         "pend": p["pend"], "open": not p["closed"]}
        return {"mb": mb, "ss": ss}

    def _items(self, raw_items):
        out = []
        for d in raw_items:
            k = d["kind"]
            if k not in ("EXISTS", "EXPUNGE", "FETCH"):
                continue
            infl = d.get("inflight")
            it = {"k": k, "n": d["n"], "uid": d.get("uid", 0), "suid": d.get("suid", 0),
                  "hasfl": "flags" in d,
                  "fl": sorted(norm_flag(f) for f in d.get("flags", [])),
                  "srv": d.get("srv") or [],
                  "infl": infl[1] if infl else "", "iuid": bool(infl[2]) if infl else False,
                  "bid": 0, "g": d["g"], "st": bool(d.get("stamped", False))}
            if k == "FETCH":
                for key, val in d["items"].items():
                    ku = key.upper()
                    if (ku.startswith("BODY[]") or ku == "RFC822") and isinstance(val, tuple):
                        it["bid"] = msg_id_of_bytes(val[1])
            out.append(it)
        return out

    def emit(self, act, *, sess="", internal=False, res=None, **f):
        w = self.w
        taken = w.take_all() if res is None else None
        out = {}
        for n in w.sessions:
            out[n] = []
        if res is not None:
            # res.items belong to `sess`; others from take_all
            others = w.take_all()
            others[sess] = res.items + others.get(sess, [])
            taken = others
        for n, items in taken.items():
            out[n] = self._items(items)
        ev = {
            "i": len(self.events) + 1, "act": act, "sess": sess,
            "uid": bool(f.get("uid", False)), "status": f.get("status", "OK"),
            "set": [_elem(e) for e in f.get("set", [])], "mode": f.get("mode", ""),
            "flags": list(f.get("flags", [])), "silent": bool(f.get("silent", False)),
            "mbox": f.get("mbox", ""), "src": f.get("src", ""),
            "msgid": f.get("msgid", 0), "date": f.get("date", 0),
            "peek": bool(f.get("peek", True)),
            "code": f.get("code", EMPTY_CODE), "told": f.get("told", dict(NO_TOLD)),
            "out0": {n: [] for n in out} if act != "Admit" else out,
            "out": out if act != "Admit" else {n: [] for n in out}, "applied": f.get("applied", []), "apos": f.get("apos", 0),
            "g0": f.get("g0", 0), "renames": f.get("renames", []),
            "special": self.special, "dirty": f.get("dirty", {"_": False}),
            "delivered": f.get("delivered", []),
            "internal": internal, "env": f.get("env", 0),
            "vt": f.get("vt", 0), "watchdog": bool(f.get("watchdog", False)),
            "text": f.get("text", ""),
            "found": f.get("found", []), "key": f.get("key", ""),
            "st": self.state(),
        }
        if not ev["env"]:
            ev["env"] = ev["i"]
        # index of the event whose state is this event's pre-state: the
        # admission point for admitted commands, else the previous event
        ev["pre"] = f.get("pre") or (ev["i"] - 1)
        self.events.append(ev)
        if self._cmd_depth and self._env_start is None and internal:
            self._env_start = ev["i"]
        return ev

    # -- generic command runner ----------------------------------------------------------
    def _dirty(self):
        w = self.w
        d = {"_": False}
        for m, mbx in (w.server.active_mailboxes.items() if w.server else []):
            if getattr(w, "lm", None) is not None:     # replay mode: logical mtimes
                d[m] = w.lm.get(m, 1) > int(mbx.mtime)
                continue
            try:
                path = w.folder_path(m)
                fm = max(int(os.path.getmtime(path)), int(os.path.getmtime(path / ".mh_sequences")))
                d[m] = fm > int(mbx.mtime)
            except OSError:
                d[m] = False
        return d

    async def run(self, act, sess, text, *, wait="tagged", kind=None, uid=False, **f):
        w = self.w
        s = w.sessions[sess]
        src = ""
        if not s.pop3:
            h = s.handler
            src = h.mbox.name if h.mbox is not None else ""
        self._admit.pop(sess, None)
        self._cmd_depth += 1
        self._env_start = None
        g0 = w.gseq + 1
        dirty = self._dirty()
        try:
            # no settling here: the command's event is recorded at the moment
            # its tagged line arrives, so that nothing that happens afterwards
            # (a management task poll) can be attributed to it
            res = await w.cmd(sess, text, kind=kind, uid=uid, wait=wait, settle=0)
            # a management task may be in the middle of a resync of some mailbox (a poll that fired
            # while this command ran): its half-updated lists are not a state; let it finish (it
            # records its own Resync event) before this command's event takes the snapshot
            for _ in range(2000):
                if self._resyncing <= 0:
                    break
                await asyncio.sleep(0.001)
            if act in ("Delete", "Create", "Rename", "Restart"):
                # objects of mailboxes that are gone are collected now, not whenever the collector
                # gets to them (Mailbox.__del__ touches the server's table: see repo fix 1df8425)
                import gc
                gc.collect()
        finally:
            self._cmd_depth -= 1
        adm = self._admit.pop(sess, 0)
        applied, apos = [], 0
        status = res.status
        code = EMPTY_CODE
        told = dict(NO_TOLD)
        if res.tagged is not None and res.tagged.get("code") in ("APPENDUID", "COPYUID"):
            parts = res.tagged["codearg"].split()
            try:
                if res.tagged["code"] == "APPENDUID":
                    code = {"name": "APPENDUID", "vv": int(parts[0]), "src": [],
                            "dst": parse_uidset(parts[1])}
                else:
                    code = {"name": "COPYUID", "vv": int(parts[0]),
                            "src": parse_uidset(parts[1]) if len(parts) > 1 else [],
                            "dst": parse_uidset(parts[2]) if len(parts) > 2 else []}
            except (ValueError, IndexError):
                code = {"name": "GARBLED", "vv": 0, "src": [], "dst": []}
        found = []
        seen_sel = set()
        for d in res.items:
            if d["kind"] == "UOK" and d.get("code") == "UIDNEXT":
                told["next"] = int(d["codearg"])
            if d["kind"] == "UOK" and d.get("code") == "UIDVALIDITY":
                told["vv"] = int(d["codearg"])
            if d["kind"] == "UOK" and d.get("code") == "COPYUID" and code["name"] == "":
                parts = d["codearg"].split()
                try:
                    code = {"name": "COPYUID", "vv": int(parts[0]),
                            "src": parse_uidset(parts[1]) if len(parts) > 1 else [],
                            "dst": parse_uidset(parts[2]) if len(parts) > 2 else []}
                except (ValueError, IndexError):
                    code = {"name": "GARBLED", "vv": 0, "src": [], "dst": []}
            if d["kind"] == "STATUS":
                told["next"] = d["items"].get("UIDNEXT", 0)
                told["vv"] = d["items"].get("UIDVALIDITY", 0)
                told["exists"] = d["items"].get("MESSAGES", 0)
                if all(k in d["items"] for k in ("MESSAGES", "RECENT", "UNSEEN")):
                    told.update(counts=True, recent=d["items"]["RECENT"], unseen=d["items"]["UNSEEN"])
            if act in ("Select", "Examine"):
                # aggregates of SELECT/EXAMINE: n EXISTS, n RECENT, OK [UNSEEN n] (absent: no unseen message)
                if d["kind"] == "EXISTS":
                    told["exists"] = d["n"]
                    seen_sel.add("e")
                if d["kind"] == "RECENT":
                    told["recent"] = d["n"]
                    seen_sel.add("r")
                if d["kind"] == "UOK" and d.get("code") == "UNSEEN":
                    try:
                        told["first"] = int(d["codearg"])
                    except ValueError:
                        told["first"] = -1
            if d["kind"] == "SEARCH":
                found = d["nums"]
        if act in ("Select", "Examine") and seen_sel == {"e", "r"}:
            told["counts"] = True
        env = self._env_start or 0
        ev = self.emit(act, sess=sess, res=res, status=status, uid=uid, src=f.pop("src", src),
                       code=code, told=told, applied=applied, apos=apos, g0=g0, dirty=dirty,
                       env=env, pre=adm, vt=res.vt, watchdog=res.watchdog, found=found,
                       text=(res.tagged or {}).get("text", "")[:80], **f)
        ev["cmdline"] = (text if isinstance(text, str) else text[:120].decode("latin-1"))[:120]
        await w.advance(0.05)
        return ev, res

    # -- actions -------------------------------------------------------------------------
    async def open(self, name, pop3=False):
        await self.w.open(name, pop3=pop3)
        return self.emit("Open", sess=name)

    async def select(self, s, mb, examine=False):
        self.w.sessions[s].select_hint = "inbox" if mb.lower() == "inbox" else mb
        try:
            return (await self.run("Examine" if examine else "Select", s,
                                   f"{'EXAMINE' if examine else 'SELECT'} {wire.quote(mb.encode()).decode()}",
                                   mbox=mb))[0]
        finally:
            self.w.sessions[s].select_hint = None

    async def noop(self, s):
        return (await self.run("Noop", s, "NOOP"))[0]

    async def check(self, s):
        return (await self.run("Check", s, "CHECK"))[0]

    async def close(self, s):
        return (await self.run("Close", s, "CLOSE"))[0]

    async def unselect(self, s):
        return (await self.run("Unselect", s, "UNSELECT"))[0]

    async def idle(self, s):
        ev, res = await self.run("Idle", s, "IDLE", wait="cont")
        self._idle_tag = getattr(self, "_idle_tag", {})
        self._idle_tag[s] = "T%04d" % self.w.next_tag
        return ev

    async def done(self, s):
        w = self.w
        tag = getattr(self, "_idle_tag", {}).get(s, "T0000")
        g0 = w.gseq + 1
        res = await w.done(s, tag, settle=0)
        ev = self.emit("Done", sess=s, res=res, status=res.status if res.tagged else "NONE",
                       src=w.project_sess(s)["sel"], g0=g0)
        await w.advance(0.05)
        return ev

    async def append(self, s, mb, flags=(), date=0, mid=None, body=None):
        mid = mid if mid is not None else self.w.alloc_id()
        data = make_msg(mid, crlf=True, body=body)
        fl = " ".join(wire_flag(f) for f in flags)
        dt = ""
        if date:
            import time as _t
            dt = _t.strftime(' "%d-%b-%Y %H:%M:%S +0000"', _t.gmtime(date))
        text = (f"APPEND {wire.quote(mb.encode()).decode()} ({fl}){dt} ".encode()
                + b"{%d}\r\n" % len(data) + data)
        return (await self.run("Append", s, text, mbox=mb, flags=list(flags), msgid=mid,
                               date=date))[0]

    async def store(self, s, elems, mode, flags, silent=False, uid=False):
        item = {"+": "+FLAGS", "-": "-FLAGS", "=": "FLAGS"}[mode] + (".SILENT" if silent else "")
        fl = " ".join(wire_flag(f) for f in flags)
        text = f"{'UID ' if uid else ''}STORE {render_set(elems)} {item} ({fl})"
        return (await self.run("Store", s, text, kind="STORE", uid=uid, set=elems, mode=mode,
                               flags=list(flags), silent=silent))[0]

    async def fetch(self, s, elems, what="flags", uid=False):
        atts = {"flags": "(FLAGS)", "uidflags": "(UID FLAGS)", "body": "(BODY[])",
                "peek": "(UID BODY.PEEK[] INTERNALDATE)", "flagsbody": "(FLAGS BODY[])",
                "fast": "FAST"}[what]
        peek = what not in ("body", "flagsbody")
        text = f"{'UID ' if uid else ''}FETCH {render_set(elems)} {atts}"
        return (await self.run("Fetch", s, text, kind="FETCH", uid=uid, set=elems, peek=peek))[0]

    async def search(self, s, key, uid=False):
        text = f"{'UID ' if uid else ''}SEARCH {key}"
        return (await self.run("Search", s, text, kind="SEARCH", uid=uid, key=key))[0]

    async def expunge(self, s, elems=None):
        if elems is not None:
            return (await self.run("Expunge", s, f"UID EXPUNGE {render_set(elems)}",
                                   kind="EXPUNGE", uid=True, set=elems))[0]
        return (await self.run("Expunge", s, "EXPUNGE", kind="EXPUNGE"))[0]

    async def copy(self, s, elems, mb, uid=False, move=False):
        verb = "MOVE" if move else "COPY"
        text = f"{'UID ' if uid else ''}{verb} {render_set(elems)} {wire.quote(mb.encode()).decode()}"
        return (await self.run("Move" if move else "Copy", s, text, kind=verb, uid=uid,
                               set=elems, mbox=mb))[0]

    async def status(self, s, mb, via_list=False):
        """STATUS, or the same aggregates through LIST ... RETURN (STATUS (...)) of RFC 5819."""
        q = wire.quote(mb.encode()).decode()
        if via_list:
            text = f'LIST "" {q} RETURN (STATUS (MESSAGES UIDNEXT UIDVALIDITY UNSEEN RECENT))'
        else:
            text = f"STATUS {q} (MESSAGES UIDNEXT UIDVALIDITY UNSEEN RECENT)"
        return (await self.run("Status", s, text, mbox=mb))[0]

    async def create(self, s, mb):
        return (await self.run("Create", s, f"CREATE {wire.quote(mb.encode()).decode()}", mbox=mb))[0]

    async def delete(self, s, mb):
        return (await self.run("Delete", s, f"DELETE {wire.quote(mb.encode()).decode()}", mbox=mb))[0]

    async def rename(self, s, old, new):
        before = self.w.mailbox_names()
        ren = [[m, new + m[len(old):]] for m in before if m == old or m.startswith(old + "/")]
        return (await self.run("Rename", s,
                               f"RENAME {wire.quote(old.encode()).decode()} {wire.quote(new.encode()).decode()}",
                               src=old, mbox=new, renames=ren))[0]

    async def subscribe(self, s, mb, on=True):
        return (await self.run("Subscribe" if on else "Unsubscribe", s,
                               f"{'SUBSCRIBE' if on else 'UNSUBSCRIBE'} {wire.quote(mb.encode()).decode()}",
                               mbox=mb))[0]

    async def logout(self, s):
        return (await self.run("Logout", s, "LOGOUT"))[0]

    # -- external actors -----------------------------------------------------------------
    def deliver(self, mb, n=1, unseen=True, adv=True):
        keys, ids = self.w.deliver(mb, n=n, unseen=unseen, adv=adv)
        return self.emit("Deliver", mbox=mb,
                         delivered=[[k, i, bool(unseen)] for k, i in zip(keys, ids)],
                         flags=["adv"] if adv else [])

    async def poll(self, secs=21.0):
        dirty = self._dirty()
        self._cmd_depth += 1
        self._env_start = None
        try:
            await self.w.advance(secs)
        finally:
            self._cmd_depth -= 1
        return self.emit("Poll", dirty=dirty, env=self._env_start or 0)

    async def resync(self, mb):
        """The management task's idle poll of mailbox mb fires now."""
        dirty = self._dirty()
        m = self.w.server.active_mailboxes[mb]
        self._cmd_depth += 1
        self._env_start = None
        try:
            async with m.mailbox.lock_folder():
                await m.check_new_msgs_and_flags()
        finally:
            self._cmd_depth -= 1
        return self.emit("Poll", dirty=dirty, env=self._env_start or 0, mbox=mb)

    async def restart(self):
        self.uninstall()
        await self.w.restart()
        self.install()
        return self.emit("Restart")
