"""
Deterministic virtual-time asyncio event loop.

* time() is a virtual clock; when nothing is runnable the clock jumps to the next
  timer.  "Nothing runnable and no timer" is a deadlock and raises `Deadlock`.
* run_in_executor runs the function inline (aiofiles becomes deterministic).
* A pluggable chooser decides which ready callback runs next (FIFO by default;
  seeded random / PCT-like priorities for schedule exploration).
"""

import asyncio
import asyncio.base_events
import collections
import heapq
import random


class Deadlock(RuntimeError):
    pass


class _FakeSelector:
    def __init__(self, loop):
        self.loop = loop

    def select(self, timeout):
        if timeout is None:
            raise Deadlock("no runnable callback and no timer")
        if timeout > 0:
            self.loop._vnow += timeout
        return []

    def close(self):
        pass


class SimLoop(asyncio.base_events.BaseEventLoop):
    def __init__(self, chooser=None):
        super().__init__()
        self._vnow = 1000.0
        self._selector = _FakeSelector(self)
        self._clock_resolution = 1e-9
        # chooser(ready: deque[Handle]) -> index of the handle to run next, or
        # None for plain FIFO batch semantics.
        self.chooser = chooser
        self.steps = 0

    # -- clock ---------------------------------------------------------------
    def time(self):
        return self._vnow

    # -- plumbing the base class expects ---------------------------------------
    def _process_events(self, event_list):
        pass

    def _write_to_self(self):
        pass

    def _make_self_pipe(self):
        pass

    def _close_self_pipe(self):
        pass

    def run_in_executor(self, executor, func, *args):
        fut = self.create_future()
        try:
            fut.set_result(func(*args))
        except BaseException as exc:  # noqa
            fut.set_exception(exc)
        return fut

    def add_signal_handler(self, *a, **k):
        pass

    def remove_signal_handler(self, *a, **k):
        return True

    def close(self):
        if self.is_running():
            raise RuntimeError("Cannot close a running event loop")
        if self.is_closed():
            return
        super().close()

    # -- scheduling --------------------------------------------------------------
    def _run_once(self):
        if self.chooser is None:
            self.steps += 1
            return super()._run_once()

        # One callback per iteration, picked by the chooser.
        while self._scheduled and self._scheduled[0]._cancelled:
            self._timer_cancelled_count -= 1
            h = heapq.heappop(self._scheduled)
            h._scheduled = False
        # drop cancelled ready handles
        if self._ready:
            live = [h for h in self._ready if not h._cancelled]
            if len(live) != len(self._ready):
                self._ready = collections.deque(live)
        timeout = None
        if self._ready or self._stopping:
            timeout = 0
        elif self._scheduled:
            timeout = max(0, self._scheduled[0]._when - self.time())
        self._selector.select(timeout)
        end_time = self.time() + self._clock_resolution
        while self._scheduled:
            h = self._scheduled[0]
            if h._when >= end_time:
                break
            h = heapq.heappop(self._scheduled)
            h._scheduled = False
            self._ready.append(h)
        if not self._ready:
            return
        idx = self.chooser(self._ready)
        if idx is None or idx <= 0 or idx >= len(self._ready):
            h = self._ready.popleft()
        else:
            self._ready.rotate(-idx)
            h = self._ready.popleft()
            self._ready.rotate(idx)
        self.steps += 1
        if not h._cancelled:
            h._run()
        h = None


class RandomChooser:
    """Seeded random choice among ready callbacks, with probability `p_fifo`
    of taking the head (keeps runs mostly natural, sometimes adversarial)."""

    def __init__(self, seed, p_fifo=0.5):
        self.rng = random.Random(seed)
        self.p_fifo = p_fifo
        self.choices = 0
        self.deviations = 0

    def __call__(self, ready):
        n = len(ready)
        if n <= 1:
            return 0
        self.choices += 1
        if self.rng.random() < self.p_fifo:
            return 0
        self.deviations += 1
        return self.rng.randrange(n)


def run(coro_fn, *, chooser=None, max_steps=2_000_000):
    """Run `coro_fn(loop)` to completion on a fresh SimLoop and return its
    result.  Pending tasks are cancelled afterwards."""
    loop = SimLoop(chooser)
    asyncio.set_event_loop(loop)
    try:
        return loop.run_until_complete(coro_fn(loop))
    finally:
        try:
            pending = [t for t in asyncio.all_tasks(loop) if not t.done()]
            for t in pending:
                t.cancel()
            if pending:
                try:
                    loop.run_until_complete(
                        asyncio.gather(*pending, return_exceptions=True)
                    )
                except (Deadlock, RuntimeError):
                    pass
            try:
                loop.run_until_complete(loop.shutdown_asyncgens())
            except (Deadlock, RuntimeError):
                pass
        finally:
            asyncio.set_event_loop(None)
            loop.close()
