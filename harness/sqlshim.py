"""
In-thread replacement for `aiosqlite`: the same sqlite3 library and the same
transaction semantics, but every statement executes on the event-loop thread
with one scheduling point per statement/commit.  Every statement and commit is
reported to `faults.point()` so that crash experiments can kill the process
before/after it.

Install with `install()` *before* asimap is imported.
"""

import asyncio
import sqlite3
import sys
import types

from . import faults

OperationalError = sqlite3.OperationalError
IntegrityError = sqlite3.IntegrityError
Error = sqlite3.Error
Row = sqlite3.Row


class _Cursor:
    def __init__(self, cur):
        self._cur = cur

    def __aiter__(self):
        return self

    async def __anext__(self):
        row = self._cur.fetchone()
        if row is None:
            raise StopAsyncIteration
        return row

    async def fetchone(self):
        return self._cur.fetchone()

    async def fetchall(self):
        return self._cur.fetchall()

    async def close(self):
        self._cur.close()

    @property
    def lastrowid(self):
        return self._cur.lastrowid

    @property
    def rowcount(self):
        return self._cur.rowcount


class _Exec:
    """Awaitable + async context manager, like aiosqlite's Result."""

    def __init__(self, conn, sql, params):
        self.conn, self.sql, self.params = conn, sql, params
        self._cursor = None

    async def _run(self):
        await asyncio.sleep(0)
        faults.point("sql", self.sql)
        cur = self.conn._conn.execute(self.sql, *self.params)
        faults.point("sql-done", self.sql)
        self._cursor = _Cursor(cur)
        return self._cursor

    def __await__(self):
        return self._run().__await__()

    async def __aenter__(self):
        return await self._run()

    async def __aexit__(self, *exc):
        if self._cursor is not None:
            await self._cursor.close()
        return False


class Connection:
    def __init__(self, conn):
        self._conn = conn

    def execute(self, sql, *params, **kw):
        return _Exec(self, sql, params)

    async def executescript(self, script):
        await asyncio.sleep(0)
        self._conn.executescript(script)

    async def create_function(self, name, n, fn, deterministic=False):
        self._conn.create_function(name, n, fn, deterministic=deterministic)

    async def commit(self):
        await asyncio.sleep(0)
        faults.point("commit", "")
        self._conn.commit()
        faults.point("commit-done", "")

    async def rollback(self):
        self._conn.rollback()

    async def close(self):
        self._conn.close()

    async def __aenter__(self):
        return self

    async def __aexit__(self, *exc):
        await self.close()
        return False


class _Connect:
    def __init__(self, database, kw):
        self.database, self.kw = database, kw

    async def _run(self):
        conn = sqlite3.connect(str(self.database), check_same_thread=False, **self.kw)
        return Connection(conn)

    def __await__(self):
        return self._run().__await__()

    async def __aenter__(self):
        self._c = await self._run()
        return self._c

    async def __aexit__(self, *exc):
        await self._c.close()
        return False


def connect(database, **kw):
    kw.pop("iter_chunk_size", None)
    kw.pop("loop", None)
    return _Connect(database, kw)


def install():
    mod = types.ModuleType("aiosqlite")
    mod.connect = connect
    mod.Connection = Connection
    mod.OperationalError = OperationalError
    mod.IntegrityError = IntegrityError
    mod.Error = Error
    mod.Row = Row
    mod.__version__ = "shim"
    sys.modules["aiosqlite"] = mod
    return mod
