"""
Numbered crash points.  The substrate calls `point(kind, detail)` before and
after every SQL statement / commit and every folder mutation.  When armed with
`arm(k)` the k-th point (1-based) calls os._exit(97): no cleanup code runs,
which is what "the process dies" means for C11.
"""

import os

_armed_at = None
_count = 0
_log = None


def reset():
    global _armed_at, _count, _log
    _armed_at = None
    _count = 0
    _log = None


def arm(k):
    """Die at the k-th point from now."""
    global _armed_at, _count
    _count = 0
    _armed_at = k


def record(lst):
    """Count and log points without dying (used to learn how many there are)."""
    global _log, _count, _armed_at
    _log = lst
    _count = 0
    _armed_at = None


def count():
    return _count


def point(kind, detail=""):
    global _count
    if _armed_at is None and _log is None:
        return
    _count += 1
    if _log is not None:
        _log.append((kind, str(detail)[:60]))
    if _armed_at is not None and _count == _armed_at:
        os._exit(97)
