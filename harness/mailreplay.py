"""
Spec -> code: replay behaviours that TLC generated from spec/MailStore.tla
against the real server and compare, step by step, the outcome and the
projected state the protocol model predicts with what the implementation did.
A difference is *model drift* (the protocol layer no longer describes the
code); verdicts come from validating the recorded trace against the property
layer.
"""

import glob
import os
import re

from . import simloop
from .maildriver import MailDriver
from .tlc import parse_tla_value
from .world import World

_STATE_RE = re.compile(r"^STATE_\d+ ==\s*$", re.M)


def parse_behaviour(path):
    txt = open(path).read()
    parts = _STATE_RE.split(txt)[1:]
    states = []
    for p in parts:
        p = p.split("\n\\*")[0]
        p = p.split("=====")[0]
        st = {}
        # conjuncts start with "/\ name = " at column 0
        chunks = re.split(r"^/\\ ", p, flags=re.M)[1:]
        for c in chunks:
            name, val = c.split(" = ", 1)
            st[name.strip()] = parse_tla_value(val.strip())
        states.append(st)
    return states


def load_behaviours(prefix):
    out = []
    for f in sorted(glob.glob(prefix + "_*")):
        try:
            out.append(parse_behaviour(f))
        except Exception as e:  # noqa
            raise RuntimeError(f"cannot parse behaviour {f}: {e}")
    return out


def _set(ev):
    return [list(e) for e in ev["set"]]


def _model_msgs(st, m):
    return [[x["key"], x["uid"], x["id"], sorted(x["fl"])] for x in st["msgs"][m]]


def _impl_msgs(evst, m):
    return [[k, u, i, sorted(fl)] for k, u, i, d, fl in evst["mb"][m]["msgs"]]


def _kinds(items):
    return [[it["k"], it["n"]] for it in items]


async def replay(d: MailDriver, states, drift):
    """Execute the behaviour; append drift records; returns nothing (the trace is
    in d.events)."""
    w = d.w
    mboxes = sorted(states[0]["msgs"].keys())
    sess = sorted(states[0]["ss"].keys())
    if "A0" not in w.sessions:
        await w.open("A0")
    for m in mboxes:
        if m != "inbox":
            await d.create("A0", m)
    for s in sess:
        await d.open(s)
    diverged = False
    for idx in range(1, len(states)):
        st = states[idx]
        ev = st["last"]
        act, s = ev["act"], ev["sess"]
        first = len(d.events)
        if act == "Deliver":
            dl = ev["delivered"][0]
            d.deliver(ev["mbox"], n=1, unseen=bool(dl[2]), adv=bool(st["dirty"][ev["mbox"]]))
        elif act == "Resync":
            await d.resync(ev["mbox"])
        elif act in ("Select", "Examine"):
            await d.select(s, ev["mbox"], examine=(act == "Examine"))
        elif act == "Unselect":
            await d.unselect(s)
        elif act == "Noop":
            await d.noop(s)
        elif act == "Idle":
            await d.idle(s)
        elif act == "Done":
            await d.done(s)
        elif act == "Close":
            await d.close(s)
        elif act == "Store":
            await d.store(s, _set(ev), ev["mode"], list(ev["flags"]), silent=ev["silent"],
                          uid=ev["uid"])
        elif act == "Fetch":
            await d.fetch(s, _set(ev), what="flags" if ev["peek"] else "flagsbody",
                          uid=ev["uid"])
        elif act == "Status":
            await d.status(s, ev["mbox"])
        elif act == "Search":
            await d.search(s, ev["key"], uid=ev["uid"])
        elif act == "Expunge":
            await d.expunge(s, _set(ev) if ev["uid"] else None)
        elif act == "Append":
            await d.append(s, ev["mbox"], flags=list(ev["flags"]), mid=ev["msgid"])
            w.next_msg_id = max(w.next_msg_id, ev["msgid"] + 1)
        elif act == "Restart":
            await d.restart()
            for t in sess:
                await d.open(t)
        elif act in ("Copy", "Move"):
            await d.copy(s, _set(ev), ev["mbox"], uid=ev["uid"], move=(act == "Move"))
        else:
            raise ValueError(f"unknown model action {act}")
        if diverged:
            continue
        got = d.events[-1]
        where = f"step {idx} {act} (trace line {len(d.events)})"
        # outcome
        if act not in ("Deliver", "Resync", "Restart") and got["status"] != ev["status"]:
            drift.append({"action": act, "field": "status",
                          "detail": f"{where}: model {ev['status']} impl {got['status']} ({got.get('text', '')})"})
            diverged = True
            continue
        # state
        for m in mboxes:
            if not got["st"]["mb"][m].get("active", True):
                continue      # after a restart a mailbox nobody has opened yet is not in memory: nothing to compare
            mm, im = _model_msgs(st, m), _impl_msgs(got["st"], m)
            if mm != im:
                drift.append({"action": act, "field": f"msgs[{m}]",
                              "detail": f"{where}: model {mm} impl {im}"})
                diverged = True
                break
            if st["next"][m] != got["st"]["mb"][m]["next"]:
                drift.append({"action": act, "field": f"next[{m}]",
                              "detail": f"{where}: model {st['next'][m]} impl {got['st']['mb'][m]['next']}"})
                diverged = True
                break
            mf = sorted([k, n] for k, n in st["fseq"][m])
            jf = sorted([k, n] for k, n in got["st"]["mb"][m]["fseq"])
            if mf != jf and act not in ("Deliver",):
                drift.append({"action": act, "field": f"fseq[{m}]",
                              "detail": f"{where}: model {mf} impl {jf}"})
                diverged = True
                break
        if diverged:
            continue
        for t in sess:
            a, b = st["ss"][t], got["st"]["ss"][t]
            ma = [a["sel"], a["ro"] and a["sel"] != "", a["idle"], [[p["k"], p["n"]] for p in a["pend"]]]
            ib = [b["sel"], b["ro"] and b["sel"] != "", b["idle"],
                  [list(p) for p in b["pend"] if p[0] in ("EXISTS", "EXPUNGE", "FETCH")]]
            if ma != ib:
                drift.append({"action": act, "field": f"ss[{t}]",
                              "detail": f"{where}: model {ma} impl {ib}"})
                diverged = True
                break
            mo = _kinds(list(ev["out0"][t]) + list(ev["out"][t]))
            io = []
            for e in d.events[first:]:
                io += _kinds(e["out0"].get(t, [])) + _kinds(e["out"].get(t, []))
            if mo != io:
                drift.append({"action": act, "field": f"out[{t}]",
                              "detail": f"{where}: model {mo} impl {io}"})
                diverged = True
                break


def execute(states, seed=0, **wkw):
    """Replay one behaviour on a fresh world: returns (trace, drift)."""
    w = World(seed=seed, **wkw)
    d = MailDriver(w)
    drift = []

    async def main(loop):
        # Replay drives the management tasks' idle polls itself (model action
        # Resync); the random poll interval is pushed out of reach.
        import asimap.mbox as mbox_mod
        orig_rr = mbox_mod.randrange
        mbox_mod.randrange = lambda a, b=None: 10 ** 7
        # ... and folder modification times are logical: only a delivery whose
        # mtime "advanced" moves them (the server's own writes crossing a
        # wall-clock second must not make replays depend on real time).
        orig_mt = mbox_mod.Mailbox.__dict__["get_actual_mtime"]
        w.lm = {}

        async def logical_mtime(cls, mh, name):
            return w.lm.get(name, 1)

        mbox_mod.Mailbox.get_actual_mtime = classmethod(logical_mtime)
        try:
            return await main2(loop)
        finally:
            mbox_mod.randrange = orig_rr
            mbox_mod.Mailbox.get_actual_mtime = orig_mt

    async def main2(loop):
        await w.start()
        d.install()
        try:
            d.emit("Init")
            await replay(d, states, drift)
        finally:
            d.uninstall()
            try:
                await w.stop()
            except Exception:
                pass
        return d.events

    try:
        return simloop.run(main), drift
    finally:
        w.cleanup()
