"""
Directed histories for the mailbox family: each is the minimal history that
exposed a defect (S1, S2, S3, S5, S18 ...).  They are executed on the real code
and validated by TLC against the property layer like every other trace; the
mailbox-family checks include them in every run, so a fixed defect that comes
back is reported again.

usage: mail_findings.py            -> prints the clauses violated per history
"""

import json
import os
import sys
import tempfile

ROOT = os.path.dirname(os.path.dirname(os.path.abspath(__file__)))
sys.path.insert(0, ROOT)

S = -1  # star

HISTORIES = {
    # seeded C04E: another selected session is told about a multi-flag STORE only if the LAST listed flag
    # changed something (every order of "changes" / "changes nothing" among the listed flags, + and -)
    "multi_flag_store_partly_noop": [
        ("append", "A", "inbox", ["Seen"], 0), ("append", "A", "inbox", ["Flagged"], 0),
        ("append", "A", "inbox", ["Seen", "Flagged", "k1"], 0),
        ("select", "A", "inbox"), ("select", "B", "inbox"), ("noop", "B"),
        ("store", "A", [[1, 1]], "+", ["Flagged", "Seen"], False, False), ("noop", "B"),
        ("store", "A", [[2, 2]], "+", ["Flagged", "Answered"], False, False), ("noop", "B"),
        ("store", "A", [[2, 2]], "+", ["k1", "Flagged"], False, True), ("noop", "B"),
        ("store", "A", [[3, 3]], "-", ["k1", "Deleted"], False, False), ("noop", "B"),
        ("store", "A", [[3, 3]], "-", ["Answered", "Flagged"], False, False), ("noop", "B"),
        ("store", "A", [[1, 3]], "-", ["Seen", "Draft"], False, False), ("noop", "B"),
        ("store", "A", [[1, 3]], "=", ["Seen"], False, False), ("noop", "B"),
        ("store", "A", [[1, 3]], "=", ["Seen"], False, False), ("noop", "B"),
        ("fetch", "B", [[1, S]], "flags", False),
    ],
    # S1: EXISTS pushed directly to a session that still has EXPUNGEs pended
    "exists_jumps_pended_expunge": [
        ("append", "A", "inbox", [], 0), ("append", "A", "inbox", [], 0),
        ("append", "A", "inbox", [], 0),
        ("select", "A", "inbox"), ("select", "B", "inbox"),
        ("store", "A", [[1, 2]], "+", ["Deleted"], False, False), ("noop", "B"),
        ("expunge", "A"),
        ("deliver", "inbox", 1, True, True), ("poll",),
        ("noop", "B"), ("fetch", "B", [[1, S]], "uidflags", False),
    ],
    # S2: UID EXPUNGE restricted by sequence numbers instead of UIDs
    "uid_expunge_by_seqnum": [
        ("append", "A", "inbox", [], 0), ("append", "A", "inbox", [], 0),
        ("append", "A", "inbox", [], 0), ("append", "A", "inbox", [], 0),
        ("append", "A", "inbox", [], 0), ("append", "A", "inbox", [], 0),
        ("select", "A", "inbox"),
        ("store", "A", [[1, 2]], "+", ["Deleted"], False, False), ("expunge", "A"),
        ("store", "A", [[1, S]], "+", ["Deleted"], False, False),
        ("uidexpunge", "A", [[5, 6]]),
        ("uidexpunge", "A", [[99, 99]]),
    ],
    # S3: expunge leaves the removed keys in .mh_sequences; a delivery that reuses
    # the freed number inherits \Deleted
    "freed_number_inherits_flags": [
        ("append", "A", "inbox", [], 0), ("append", "A", "inbox", ["Flagged"], 0),
        ("select", "A", "inbox"),
        ("store", "A", [[2, 2]], "+", ["Deleted"], False, False), ("expunge", "A"),
        ("deliver", "inbox", 1, False, True), ("noop", "A"),
        ("fetch", "A", [[1, S]], "flags", False),
    ],
    # S5: STORE / non-PEEK FETCH through an EXAMINE session change flags
    "examine_session_changes_flags": [
        ("append", "A", "inbox", [], 0), ("append", "A", "inbox", [], 0),
        ("examine", "B", "inbox"),
        ("store", "B", [[1, 1]], "+", ["Flagged"], False, False),
        ("fetchbody", "B", [[2, 2]], "body", False),
        ("store", "B", [[2, 2]], "+", ["Deleted"], False, True),
        ("expunge", "B"), ("close", "B"),
    ],
    # S18: a delivery not yet noticed loses its `unseen` mark when STORE/APPEND
    # rewrite .mh_sequences from memory
    "rewrite_clobbers_agent_unseen": [
        ("append", "A", "inbox", ["Seen"], 0),
        ("select", "A", "inbox"),
        ("deliver", "inbox", 1, True, False),
        ("store", "A", [[1, 1]], "+", ["Flagged"], False, False),
        ("deliver", "inbox", 1, True, False),
        ("append", "A", "inbox", ["Seen"], 0),
        ("poll",), ("noop", "A"), ("fetch", "A", [[1, S]], "flags", False),
    ],
    # S22: the issuer of EXPUNGE/MOVE is sent its EXPUNGEs at once while older
    # "* n FETCH" notifications (queued during the admission resync) are still
    # pended: their sequence numbers are stale when they are finally flushed
    "stale_fetch_after_direct_expunge": [
        ("append", "A", "b", [], 0), ("append", "A", "b", [], 0),
        ("select", "B", "b"), ("select", "A", "b"),
        ("deliver", "b", 1, True, True),
        ("move", "B", [[1, 1]], "inbox", False), ("noop", "B"),
        ("deliver", "b", 1, True, True),
        ("store", "A", [[1, 1]], "+", ["Deleted"], True, False),
        ("deliver", "b", 1, True, True),
        ("expunge", "A"), ("noop", "A"), ("noop", "B"),
    ],
    # two separate expunges of the message at the same position, and a flag going
    # X -> Y -> X, while the other session stays quiet: every queued notification
    # matters even when it is textually identical to an earlier one
    "identical_notifications_while_quiet": [
        ("append", "A", "inbox", [], 0), ("append", "A", "inbox", [], 0),
        ("append", "A", "inbox", [], 0), ("append", "A", "inbox", [], 0),
        ("select", "A", "inbox"), ("select", "B", "inbox"), ("noop", "A"),
        ("store", "B", [[2, 2]], "+", ["Deleted"], False, False), ("expunge", "B"),
        ("store", "B", [[2, 2]], "+", ["Deleted"], False, False), ("expunge", "B"),
        ("store", "B", [[1, 1]], "+", ["Flagged"], False, False),
        ("store", "B", [[1, 1]], "-", ["Flagged"], False, False),
        ("store", "B", [[1, 1]], "+", ["Flagged"], False, False),
        ("noop", "A"), ("fetch", "A", [[1, S]], "uidflags", False),
        ("move", "B", [[1, 1]], "b", False), ("move", "B", [[1, 1]], "b", False),
        ("check", "A"), ("fetch", "A", [[1, S]], "uidflags", True),
    ],
    # a gappy folder is packed by the management task (pack threshold lowered by
    # the world options); UIDs must keep naming the same messages for the session
    # that stayed selected and for a new one
    "pack_then_uid_probe": [
        ("append", "A", "b", [], 0), ("append", "A", "b", ["Seen"], 0), ("append", "A", "b", [], 0),
        ("append", "A", "b", ["Flagged"], 0), ("append", "A", "b", [], 0), ("append", "A", "b", [], 0),
        ("select", "A", "b"),
        ("store", "A", [[1, 1], [3, 4]], "+", ["Deleted"], False, False), ("expunge", "A"),
        ("poll",), ("poll",),
        ("fetch", "A", [[1, S]], "peek", True), ("fetch", "A", [[1, S]], "peek", False),
        ("select", "B", "b"), ("fetch", "B", [[2, 6]], "peek", True),
        ("search", "A", "ALL", True),
        ("store", "A", [[5, 5]], "+", ["Deleted"], False, True), ("expunge", "A"),
        ("append", "B", "b", [], 0), ("poll",), ("fetch", "B", [[1, S]], "peek", True),
    ],
    # COPY of out-of-range numbers must be refused promptly and leave the stream usable
    "out_of_range_answered": [
        ("append", "A", "inbox", [], 0),
        ("select", "A", "inbox"), ("select", "B", "inbox"),
        ("fetch", "B", [[4, 4]], "flags", False),
        ("copy", "B", [[3, 3]], "b", False),
        ("deliver", "inbox", 1, True, True), ("poll",),
        ("noop", "B"), ("fetch", "B", [[1, S]], "uidflags", False),
    ],
    # move / copy with duplicates and reversed ranges
    "copy_move_shapes": [
        ("append", "A", "inbox", ["Flagged"], 946684800), ("append", "A", "inbox", [], 0),
        ("append", "A", "inbox", ["Seen", "k1"], 0), ("append", "A", "inbox", [], 0),
        ("select", "A", "inbox"), ("select", "B", "b"),
        ("copy", "A", [[2, 3], [3, 3], [2, 2]], "b", False),
        ("copy", "A", [[3, 1]], "b", True),
        ("move", "A", [[4, 4], [1, 1]], "b", False),
        ("noop", "B"), ("move", "B", [[1, S]], "inbox", True), ("noop", "A"),
    ],
    # SPECIAL-USE mailboxes that were deleted but are kept as placeholders (subscribed / with inferiors): a restart
    # may create a MISSING special-use mailbox again, it must not bring a deleted one back
    "special_use_placeholders_across_restart": [
        ("nssubscribe", "A", "Junk", True), ("nsdelete", "A", "Junk", True),
        ("nscreate", "A", "Archive/old", True), ("nsdelete", "A", "Archive", True),
        ("nsdelete", "A", "Drafts", True),
        ("restart",), ("select", "A", "Junk"), ("select", "A", "Archive"), ("select", "A", "Drafts"),
        ("append", "A", "Archive/old", [], 0), ("restart",), ("select", "A", "Archive/old"),
    ],
    # RENAME INBOX when the folder's file numbers have a gap (a middle message was expunged, no pack yet)
    "rename_inbox_with_gap": [
        ("append", "A", "inbox", ["Flagged"], 946684800), ("append", "A", "inbox", ["Seen"], 0),
        ("append", "A", "inbox", ["Answered", "k1"], 0), ("append", "A", "inbox", [], 0),
        ("append", "A", "inbox", ["Seen", "Draft"], 957684800),
        ("select", "A", "inbox"), ("store", "A", [[2, 2]], "+", ["Deleted"], False, False), ("expunge", "A"),
        ("nsrename", "A", "inbox", "old", True), ("select", "A", "old"), ("fetch", "A", [[1, S]], "uidflags", False),
        ("select", "B", "inbox"), ("append", "B", "inbox", [], 0), ("fetch", "B", [[1, S]], "uidflags", False),
        ("restart",), ("select", "A", "old"), ("fetch", "A", [[1, S]], "uidflags", False),
    ],
}


def run_all(names=None):
    from harness import mailgen
    from checks import mailfam

    names = names or list(HISTORIES)
    traces = []
    for n in names:
        steps = [("create", "A0", "b")] + HISTORIES[n]
        traces.append(mailgen.execute(steps, seed=1, pack_limit=3, pack_ratio=0.75))
    tmp = tempfile.mkdtemp(prefix="verif-st-")
    try:
        viols, done, steps, errs = mailfam.validate(traces, tmp, chunks=4)
    finally:
        import shutil
        shutil.rmtree(tmp, ignore_errors=True)
    if errs:
        raise RuntimeError(errs[0])
    out = {n: [] for n in names}
    for ti, line, act, clause in viols:
        out[names[ti]].append((line, act, clause))
    return out, traces


if __name__ == "__main__":
    res, traces = run_all(sys.argv[1:] or None)
    for n, v in res.items():
        print(n, sorted(set((a, c) for _, a, c in v)))
