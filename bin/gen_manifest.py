#!/venv/bin/python
"""Regenerates MANIFEST.json from the table below (keeps it valid at all times)."""
import json, os
ROOT = os.path.dirname(os.path.dirname(os.path.abspath(__file__)))
MAIL_NOTE = ("Trusted: TLC; the in-process substrate (virtual-time loop, sqlite3 shim, stdlib mailbox.MH as the "
             "external agent); harness/world.py projection and harness/wire.py reader. Exhaustive part bounded by the "
             "constants and depth of the TLC runs listed in the evidence; beyond that, random simulation of the model "
             "and seeded random workloads on the code.")
MAIL_TECH = ("TLA+ protocol model (spec/MailStore.tla) model-checked by TLC against the property layer "
             "(spec/MailProps.tla) as action properties; TLC-generated behaviours replayed on the real server; "
             "traces of replayed + random multi-session executions validated by TLC (spec/TraceMail.tla)")
CHECKS = {
 "C01": ("Every transition of the protocol model and every step of every recorded execution is checked against the "
         "client-view replay clauses (count never shrinks, EXPUNGE/FETCH in range, no EXPUNGE during non-UID "
         "FETCH/STORE/SEARCH, sent/accepted numbers denote the same UID, view = server list after a flush).", "3 C01", MAIL_NOTE, MAIL_TECH),
 "C02": ("UID monotonicity / no reuse / UIDNEXT above all / APPENDUID+COPYUID honesty / UIDVALIDITY freshness as action "
         "properties on the model and on traces that include restarts, pack, rename, delete+create. Added: mailboxes CREATEd "
         "concurrently by 2-3 sessions under seeded schedules, names then freed and taken again; the recorded (name, UIDVALIDITY, "
         "incarnation) observations are validated by TLC (spec/TraceVv.tla).", "3 C02", MAIL_NOTE,
         MAIL_TECH + "; TLC validation of UIDVALIDITY observations from concurrent CREATE runs (spec/TraceVv.tla)"),
 "C03": ("(UIDVALIDITY, UID) -> message identity and internal date preserved across every step (expunge, pack, "
         "rename, restart, deliveries), RENAME INBOX moves every message with flags and internal date; position/uid/key/file "
         "bijection at every command boundary.", "3 C03", MAIL_NOTE, MAIL_TECH),
 "C04": ("RFC 3501 STORE semantics per message, implicit \\Seen, \\Recent not settable, Seen/unseen complement, issuer "
         "told, other sessions told or queued, sync point flushes; aggregates told by SELECT/EXAMINE/STATUS (EXISTS, RECENT, UNSEEN, first unseen) and "
         "SEARCH by flag keys agree with the flags; on the model exhaustively (bounded) and on traces.", "3 C04", MAIL_NOTE, MAIL_TECH),
 "C05": ("Exactness of EXPUNGE/UID EXPUNGE/CLOSE/MOVE removals and APPEND/COPY/MOVE additions, refused commands change "
         "nothing, EXAMINE sessions change nothing.", "3 C05", MAIL_NOTE, MAIL_TECH),
 "C12": ("Restart inserted at random points of histories (sparse UIDs, packed folders, keywords, placeholders, renamed "
         "trees): observable state before = after, modulo newly noticed deliveries and SPECIAL-USE re-creation.", "3 C12", MAIL_NOTE, MAIL_TECH),
 "C13": ("Deliveries by an MH agent (stdlib mailbox.MH) interleaved with commands: announced at the end with fresh UIDs, "
         "\\Recent and exactly the agent's flags; .mh_sequences agrees with the sessions' flags and mentions no removed "
         "message after every flag-changing/removing command. Added: concurrent windows of three sessions (harness/concdriver.py), "
         "every other run with an external MH agent delivering while the commands run; TLC (spec/TraceWindowFile.tla) evaluates "
         "MailProps!FileAgrees on every window's final state and, once every session has passed a sync point, that every message "
         "file is a message of the mailbox (AnnouncedAfterSync).", "3 C13", MAIL_NOTE,
         MAIL_TECH + "; TLC validation of the final / settled states of concurrent windows with external deliveries (spec/TraceWindowFile.tla)"),
}
NOT_YET = {
}
ALL = [f"C{i:02d}" for i in range(1, 21)]
BASELINE = "cd /repo && /venv/bin/python -m pytest -ra -q -p no:cacheprovider --timeout=900 --continue-on-collection-errors"
m = {
 "version": 1,
 "setup_cmd": "cd /verif && bin/setup",
 "hooks": {"guard": "ASIMAP_VERIF", "enable": "no source hooks: observation points are wrapped from the harness (harness/maildriver.py install()); the guard name is reserved",
           "baseline_off_cmd": BASELINE, "source_commits": [], "add_only": True},
 "engines": [
   {"name": "mailfam", "path": "checks/mailfam.py", "serves_properties": ["C01", "C02", "C03", "C04", "C05", "C12", "C13"],
    "kind_free_text": "TLC model checking of spec/MailStore.tla + replay + TLC trace validation (spec/TraceMail.tla)"},
 ],
 "checks": [],
 "notes": "bin/check <id> --tier quick|thorough [--seed N]; evidence in evidence/<id>.json; known findings in known_findings.json",
 "not_applicable": [],
}
extra = json.load(open(os.path.join(ROOT, "bin", "manifest_extra.json"))) if os.path.exists(os.path.join(ROOT, "bin", "manifest_extra.json")) else {}
for pid in ALL:
    ent = CHECKS.get(pid) or extra.get("checks", {}).get(pid)
    if ent:
        text, ref, note, tech = ent
        m["checks"].append({
            "property_id": pid, "quick_cmd": f"bin/check {pid} --tier quick",
            "thorough_cmd": f"bin/check {pid} --tier thorough",
            "evidence_file": f"/verif/evidence/{pid}.json",
            "replay_cmd_template": f"bin/check {pid} --replay {{path}}",
            "engine": "mailfam" if pid in CHECKS else extra.get("engine", {}).get(pid, pid.lower()),
            "level_claimed": {"category": "model_checking", "text": text, "design_ref": "DESIGN.md section " + ref},
            "level_note": note, "technique": tech})
    else:
        m["not_applicable"].append({"property_id": pid, "reason": extra.get("na", {}).get(pid,
            "check not built yet in this round (planned: see DESIGN.md section 3); not claimed until its check exists")})
for e in extra.get("engines", []):
    m["engines"].append(e)
json.dump(m, open(os.path.join(ROOT, "MANIFEST.json"), "w"), indent=1)
print("checks:", len(m["checks"]), "not_applicable:", len(m["not_applicable"]))
