#!/bin/bash
# Non-vacuity regression: applies every self-test patch (selftest/mutants/Cxx_*.diff) to a scratch worktree of /repo HEAD
# and runs the property's quick check against it; the check must report a violation.  usage: bin/selftest_mutants.sh [pattern]
cd "$(dirname "$0")/.." || exit 2
pat=${1:-C}
fail=0
for f in selftest/mutants/${pat}*.diff; do
  id=$(basename "$f" .diff); prop=${id:0:3}
  wt=/tmp/selftest-wt-$id
  git -C /repo worktree remove --force "$wt" >/dev/null 2>&1; rm -rf "$wt"
  git -C /repo worktree add --detach "$wt" HEAD -q || { echo "$id WORKTREE-FAILED"; continue; }
  if ! git -C "$wt" apply "$PWD/$f" 2>/dev/null; then
    echo "$id NOAPPLY"
  else
    out=$(VERIF_REPO=$wt VERIF_EVIDENCE_DIR=/tmp/selftest-ev-$id bin/check $prop --tier quick 2>&1)
    rc=$?
    n=$(echo "$out" | grep -c '^VIOLATION')
    if [ "$rc" = "1" ] && [ "$n" -gt 0 ]; then echo "$id caught ($n) $(echo "$out" | grep -o 'clause=[^ ]*' | sort -u | head -3 | tr '\n' ' ')";
    else echo "$id MISSED rc=$rc $(echo "$out" | tail -1 | cut -c1-160)"; fail=1; fi
  fi
  git -C /repo worktree remove --force "$wt" >/dev/null 2>&1; rm -rf "$wt" /tmp/selftest-ev-$id
done
exit $fail
