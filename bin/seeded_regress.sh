#!/bin/bash
# Re-evaluates every kept seeded change (seeded/<id>) against the current /repo HEAD and the current checks:
# applies the patch in a scratch worktree, runs the demonstration with/without it and the checks named in
# meta.json "caught_by".  Results: /tmp/mutrun/<id>.json; summary on stdout.   usage: bin/seeded_regress.sh [ids...]
cd "$(dirname "$0")/.."
ids=("$@"); [ ${#ids[@]} -eq 0 ] && ids=($(ls seeded))
run() {
  id=$1; prop=${id:0:3}; var=${id:3}
  checks=$(python3 -c "import json;print(','.join(json.load(open('seeded/$id/meta.json')).get('caught_by') or ['$prop']))")
  bin/mut_eval.py $prop $var --src /verif/seeded --checks $checks > /tmp/mutrun_$id.log 2>&1
  python3 - <<PY
import json
d=json.load(open('/tmp/mutrun/$id.json'))
c={k:(v['violations'],v['clauses'][:3]) for k,v in d.get('checks',{}).items()}
print('$id', 'applies' if d.get('applies') else 'NOAPPLY', 'demo', d.get('demo_without_patch'), '/', d.get('demo_with_patch'), c)
PY
}
n=0
for id in "${ids[@]}"; do run $id & n=$((n+1)); if [ $((n % 4)) -eq 0 ]; then wait; fi; done; wait
