#!/venv/bin/python
"""
Evaluate a seeded mutation: bin/mut_eval.py <Cxx> <A|B> [--suite] [--checks C01,C05] [--tier quick]

  * makes a scratch worktree of /repo HEAD under /tmp/mutrun/<id>, applies the patch;
  * runs the demonstration with and without the patch;
  * optionally runs the repository's full suite with the patch;
  * runs the given checks (default: the property's own) with VERIF_REPO pointing
    at the patched tree and reports which printed VIOLATION.
The worktree is removed afterwards.  Result: JSON on stdout + /tmp/mutrun/<id>.json
"""
import json
import os
import re
import shutil
import subprocess
import sys

args = sys.argv[1:]
prop, var = args[0], args[1]
suite = "--suite" in args
checks = [prop]
tier = "quick"
src = "/tmp/mut/out"
for i, a in enumerate(args):
    if a == "--checks":
        checks = args[i + 1].split(",")
    if a == "--tier":
        tier = args[i + 1]
    if a == "--src":
        src = args[i + 1]
ident = f"{prop}{var}"
for i, a in enumerate(args):
    if a == "--id":
        ident = args[i + 1]
d = f"{src}/{prop}/{var}" if os.path.isdir(f"{src}/{prop}/{var}") else \
    (f"{src}/{prop}{var}" if os.path.isdir(f"{src}/{prop}{var}") else f"{src}/{prop}")
wt = f"/tmp/mutrun/{ident}"
os.makedirs("/tmp/mutrun", exist_ok=True)
res = {"id": ident, "patch": f"{d}/patch.diff"}


def sh(cmd, cwd=None, env=None, timeout=3600):
    e = dict(os.environ)
    if env:
        e.update(env)
    p = subprocess.run(cmd, shell=True, cwd=cwd, env=e, capture_output=True, text=True, timeout=timeout)
    return p.returncode, p.stdout + p.stderr


subprocess.run(f"git -C /repo worktree remove --force {wt}", shell=True, capture_output=True)
shutil.rmtree(wt, ignore_errors=True)
rc, out = sh(f"git -C /repo worktree add --detach {wt} HEAD -q")
try:
    demo = None
    for cand in ("demo_test.py", "demo.py"):
        if os.path.exists(f"{d}/{cand}"):
            demo = cand
    if demo == "demo_test.py":
        dcmd = f"/venv/bin/python -m pytest -q -p no:cacheprovider -x {d}/{demo}"
    else:
        dcmd = f"PYTHONPATH={wt} /venv/bin/python {d}/{demo}"
    rc0, o0 = sh(dcmd, cwd=wt)
    res["demo_without_patch"] = "pass" if rc0 == 0 else "fail"
    rc, out = sh(f"git apply {d}/patch.diff", cwd=wt)
    if rc != 0:
        rc, out = sh(f"git apply --3way {d}/patch.diff", cwd=wt)
    res["applies"] = rc == 0
    if rc != 0:
        res["apply_error"] = out[-500:]
    else:
        rc1, o1 = sh(dcmd, cwd=wt)
        res["demo_with_patch"] = "pass" if rc1 == 0 else "fail"
        res["demo_tail"] = o1[-400:]
        if suite:
            rcs, os_ = sh("/venv/bin/python -m pytest -q -p no:cacheprovider --timeout=900 2>&1 | tail -3", cwd=wt)
            m = re.search(r"(\d+) failed, (\d+) passed", os_)
            res["suite"] = m.group(0) if m else os_[-200:]
        res["checks"] = {}
        for c in checks:
            rcc, oc = sh(f"bin/check {c} --tier {tier}", cwd="/verif",
                         env={"VERIF_REPO": wt, "VERIF_EVIDENCE_DIR": f"/tmp/mutrun/ev-{ident}"})
            viol = [l for l in oc.splitlines() if l.startswith("VIOLATION")]
            res["checks"][c] = {"rc": rcc, "violations": len(viol),
                                "first": viol[0][:300] if viol else "",
                                "clauses": sorted(set(re.findall(r"clause=(\S+)", "\n".join(viol)))),
                                "drift": [l[:260] for l in oc.splitlines() if l.startswith("MODEL-DRIFT")][:3],
                                "summary": ([l for l in oc.splitlines() if l.startswith("[")] or [""])[-1][:200],
                                "tail": oc[-300:] if rcc not in (0, 1) else ""}
finally:
    subprocess.run(f"git -C /repo worktree remove --force {wt}", shell=True, capture_output=True)
    shutil.rmtree(wt, ignore_errors=True)
    shutil.rmtree(f"/tmp/mutrun/ev-{ident}", ignore_errors=True)
json.dump(res, open(f"/tmp/mutrun/{ident}.json", "w"), indent=1)
print(json.dumps(res, indent=1))
