#!/bin/bash
# usage: bin/thorough_all.sh ["C01 C02 ..."] [seed]  -> runs the thorough tier of each check, one after the other,
# evidence to a scratch directory; prints rc, wall time and the summary line of each.
cd "$(dirname "$0")/.." || exit 2
list=${1:-"C01 C02 C03 C04 C05 C06 C07 C08 C09 C10 C11 C12 C13 C14 C15 C16 C17 C18 C19 C20"}
seed=${2:-0}
ev=$(mktemp -d /tmp/thorough-ev-XXXX)
for c in $list; do
  t0=$(date +%s)
  out=$(VERIF_EVIDENCE_DIR=$ev timeout 5400 bin/check $c --tier thorough --seed $seed 2>&1)
  rc=$?
  echo "== $c thorough seed=$seed rc=$rc wall=$(( $(date +%s) - t0 ))s $(echo "$out" | tail -1 | cut -c1-200)"
  echo "$out" | grep -E "^VIOLATION|^MODEL-DRIFT|MACHINERY|Traceback|Error" | head -6 | cut -c1-400
done
rm -rf "$ev"
