#!/venv/bin/python
"""bin/keep_seeded.py <Cxx> <A|B> [note]: keep an evaluated seeded mutation under
seeded/<id>/ (patch, demonstration, meta with what the lead ran and which checks caught it).
Reads /tmp/mut/out/<Cxx>/<A|B> and the evaluation results /tmp/mutrun/<id>*.json."""
import glob, json, os, shutil, sys
prop, var = sys.argv[1], sys.argv[2]
note = sys.argv[3] if len(sys.argv) > 3 else ""
ident = os.environ.get("SEEDED_ID") or (prop + var)          # e.g. SEEDED_ID=C09C SEEDED_SRC=/tmp/mut/out2
src = f"{os.environ.get('SEEDED_SRC', '/tmp/mut/out')}/{prop}/{var}"
dst = os.path.join(os.path.dirname(os.path.dirname(os.path.abspath(__file__))), "seeded", ident)
os.makedirs(dst, exist_ok=True)
for f in ("patch.diff", "demo_test.py", "demo.py"):
    if os.path.exists(f"{src}/{f}"):
        shutil.copy(f"{src}/{f}", dst)
meta = json.load(open(f"{src}/meta.json")) if os.path.exists(f"{src}/meta.json") else {"property": prop}
caught, clauses, ran = [], [], []
ver = {}
for p in sorted(glob.glob(f"/tmp/mutrun/{ident}*.json")):
    r = json.load(open(p))
    ver = {"demo_without_patch": r.get("demo_without_patch"), "demo_with_patch": r.get("demo_with_patch"),
           "applies_to_repo_head": r.get("applies")}
    for c, v in r.get("checks", {}).items():
        ran.append(f"bin/mut_eval.py {prop} {var} --checks {c}" + (f" --id {ident}" if ident != prop + var else ""))
        if v.get("violations"):
            caught.append(c)
            clauses += v.get("clauses", [])
meta["verified_by_lead"] = ver
meta["ran"] = sorted(set(ran))
meta["caught_by"] = sorted(set(caught))
meta["clauses"] = sorted(set(clauses))
if note:
    meta["notes"] = note
json.dump(meta, open(f"{dst}/meta.json", "w"), indent=1)
print(ident, "caught_by", meta["caught_by"], meta["clauses"])
