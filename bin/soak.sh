#!/bin/bash
# usage: bin/soak.sh "C01 C02 ..." "1 2 3"   -> runs quick checks for the seeds, prints a summary line per run
cd "$(dirname "$0")/.." || exit 2
for s in $2; do for c in $1; do
  out=$(VERIF_EVIDENCE_DIR=/tmp/soak-ev-$$ bin/check $c --tier quick --seed $s 2>&1)
  rc=$?
  echo "== $c seed=$s rc=$rc $(echo "$out" | tail -1)"
  echo "$out" | grep -E "^VIOLATION|^MODEL-DRIFT|MACHINERY" | head -5 | cut -c1-400
done; done
rm -rf /tmp/soak-ev-$$
