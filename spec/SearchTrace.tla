----------------------------- MODULE SearchTrace -----------------------------
(***************************************************************************)
(* C14 -- validation of what the implementation returned against the        *)
(* reference semantics (Search.tla).                                        *)
(*                                                                         *)
(* Input (env SEARCH_FILE, JSON):                                           *)
(*   programs  array of programs (nested arrays, as SearchMC wrote them)    *)
(*   leaves    the text keys occurring in them (for the memo only)          *)
(*   groups    one per realised mailbox:                                    *)
(*     gid, n (EXISTS), stable,                                             *)
(*     msgs   [seq, uid, flags, size, iday]  as FETCH (UID FLAGS            *)
(*            RFC822.SIZE INTERNALDATE) reported them in the same session,  *)
(*            [sday, hdrs, body] as the message that was delivered says,    *)
(*            [want_flags, want_size, want_iday] as the abstract mailbox    *)
(*            intended (only for the drift report);                         *)
(*     cases  <<program index (0-based), status, found, ustatus, ufound>>   *)
(*            = SEARCH p and UID SEARCH p;                                  *)
(*     laws   <<law, position of p, position of q>> (1-based positions in   *)
(*            cases) for pairs the harness ran because q is a law image;    *)
(*     leafpos  for every element of `leaves` the position of the case that *)
(*            runs this key alone (0 if none).                              *)
(*                                                                         *)
(* Output: <<"VIOL", gid, position, clause, act>> per failing clause,       *)
(*         <<"DRIFT", gid, seq, field>> where the realised message differs  *)
(*         from the intended one (not a violation: TLC judges against what  *)
(*         FETCH reported), <<"UNSTABLE", gid>> when two FETCHes around the *)
(*         searches disagree (no reference, nothing judged),                *)
(*         <<"DONE", gid, cases, judged>> when a group has been consumed.   *)
(* `act` names the shape of the failing program: the key (or the unusual    *)
(* set form) of a key that already fails when it is searched for alone in   *)
(* the same mailbox, else the program's own key, else "compound".           *)
(*                                                                         *)
(* Clauses (the statement of C14, nothing more):                            *)
(*   C14.ResultExact              SEARCH p is answered OK with exactly      *)
(*                                Den(p, mailbox)                           *)
(*   C14.UidResultExact           UID SEARCH p: exactly the UIDs of Den     *)
(*   C14.UidSearchIsMappedSearch  UID SEARCH p = SEARCH p through the UID   *)
(*                                table (code against code)                 *)
(*   C14.Law<name>                law-related programs got equal answers    *)
(*                                (code against code)                       *)
(* Programs that use a message sequence number beyond EXISTS are not        *)
(* judged (RFC 3501 makes them errors, the statement is silent).            *)
(***************************************************************************)
EXTENDS Search, Json, IOUtils, TLCExt

VARIABLES g, k, fmb, bl

Data == JsonDeserialize(IOEnv.SEARCH_FILE)
Chunk == 200

TextKeys == {l \in SeqToSet(Data.leaves) : l[1] \in StrKeys \cup {"HEADER"}}

MsgOf(j) == [seq |-> j.seq, uid |-> j.uid, flags |-> SeqToSet(j.flags), size |-> j.size,
             iday |-> j.iday, sday |-> j.sday, hdrs |-> j.hdrs, body |-> j.body,
             memo |-> NoMemo]
MbOf(grp) == MemoMb(FoldMb([i \in DOMAIN grp.msgs |-> MsgOf(grp.msgs[i])]), TextKeys)

Grp == Data.groups[g]
Prog(c) == Data.programs[c[1] + 1]
NChunks(grp) == Max2(1, (Len(grp.cases) + Chunk - 1) \div Chunk)

(* the mailbox as recorded is a mailbox: 1..n, UIDs strictly ascending *)
Sane(grp, mb) == /\ Len(mb) = grp.n
                 /\ \A i \in DOMAIN mb : mb[i].seq = i /\ mb[i].uid >= 1
                 /\ \A i \in 1..(Len(mb) - 1) : mb[i].uid < mb[i + 1].uid

Judged(c, mb) == WellFormed(Prog(c)) /\ InRange(Prog(c), Len(mb))

CaseBad(c, mb) ==
    LET q == Prog(c)
        den == Den(q, mb)
        found == SeqToSet(c[3])
        ufound == SeqToSet(c[5])
    IN {cl \in {"C14.ResultExact", "C14.UidResultExact", "C14.UidSearchIsMappedSearch"} :
          CASE cl = "C14.ResultExact" -> ~(c[2] = "OK" /\ found = den)
            [] cl = "C14.UidResultExact" -> ~(c[4] = "OK" /\ ufound = UidsOf(den, mb))
            [] cl = "C14.UidSearchIsMappedSearch" ->
                   ~(/\ c[2] = c[4]
                     /\ (c[2] = "OK" => /\ found \subseteq DOMAIN mb
                                        /\ ufound = UidsOf(found, mb)))}

LawBad(t, grp, mb) ==
    LET a == grp.cases[t[2]]
        b == grp.cases[t[3]]
    IN /\ Judged(a, mb) /\ Judged(b, mb)
       /\ ~(/\ a[2] = b[2] /\ a[4] = b[4]
            /\ SeqToSet(a[3]) = SeqToSet(b[3])
            /\ SeqToSet(a[5]) = SeqToSet(b[5]))

(* keys that fail on their own in this mailbox (indices into Data.leaves) *)
BadLeaves(grp, mb) ==
    {i \in DOMAIN Data.leaves :
        /\ grp.leafpos[i] > 0
        /\ LET c == grp.cases[grp.leafpos[i]] IN Judged(c, mb) /\ CaseBad(c, mb) # {}}
RECURSIVE LeavesOf(_)
LeavesOf(q) ==
    CASE q[1] = "NOT" -> LeavesOf(q[2])
      [] q[1] = "OR" -> LeavesOf(q[2]) \cup LeavesOf(q[3])
      [] q[1] = "AND" -> UNION {LeavesOf(q[2][j]) : j \in DOMAIN q[2]}
      [] OTHER -> {q}
Blame(q, ctx, bad) ==
    LET ls == {i \in bad : Data.leaves[i] \in LeavesOf(q)} IN
    IF ls # {} THEN ActOf(Data.leaves[CHOOSE i \in ls : \A j \in ls : i <= j], ctx)
    ELSE ActOf(q, ctx)

Drift(grp) ==
    {<<i, f>> \in (DOMAIN grp.msgs) \X {"flags", "size", "iday"} :
        LET j == grp.msgs[i] IN
        CASE f = "flags" -> SeqToSet(j.flags) \ {"unseen"} # SeqToSet(j.want_flags)
          [] f = "size" -> j.size # j.want_size
          [] f = "iday" -> j.iday # j.want_iday}

Init == /\ g \in DOMAIN Data.groups
        /\ k = 0
        /\ fmb = MbOf(Data.groups[g])
        /\ bl = LET grp == Data.groups[g]
                    mb == MbOf(grp)
                IN IF grp.stable /\ Sane(grp, mb) THEN BadLeaves(grp, mb) ELSE {}

Next ==
    /\ k < NChunks(Grp)
    /\ k' = k + 1
    /\ UNCHANGED <<g, fmb, bl>>
    /\ LET grp == Grp
           lo == k * Chunk + 1
           hi == Min2(Len(grp.cases), (k + 1) * Chunk)
           ok == grp.stable /\ Sane(grp, fmb)
           ctx == CtxOf(fmb)
       IN /\ (k = 0 /\ ~ok) => PrintT(<<"UNSTABLE", grp.gid>>)
          /\ (k = 0) => \A d \in Drift(grp) : PrintT(<<"DRIFT", grp.gid, d[1], d[2]>>)
          /\ ok => \A i \in lo..hi :
                      LET c == grp.cases[i] IN
                      Judged(c, fmb) =>
                          \A cl \in CaseBad(c, fmb) :
                              PrintT(<<"VIOL", grp.gid, i, cl, Blame(Prog(c), ctx, bl)>>)
          /\ (k + 1 = NChunks(grp)) =>
                /\ ok => \A t \in SeqToSet(grp.laws) :
                            /\ ~LawRel(t[1], Prog(grp.cases[t[2]]), Prog(grp.cases[t[3]])) =>
                                  PrintT(<<"BADLAW", grp.gid, t>>)
                            /\ LawBad(t, grp, fmb) =>
                                  PrintT(<<"VIOL", grp.gid, t[3], "C14.Law" \o t[1],
                                           Blame(And2(Prog(grp.cases[t[2]]), Prog(grp.cases[t[3]])), ctx, bl)>>)
                /\ PrintT(<<"DONE", grp.gid, Len(grp.cases),
                            IF ok THEN Cardinality({i \in DOMAIN grp.cases : Judged(grp.cases[i], fmb)})
                            ELSE 0>>)

Spec == Init /\ [][Next]_<<g, k, fmb, bl>>
=============================================================================
