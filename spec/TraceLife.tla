----------------------------- MODULE TraceLife -----------------------------
(* Validation of recorded command lives against the C06 oracle (LifeProps). *)
(* Input: JSON array of runs; a run is an array of records (see LifeProps).  *)
EXTENDS LifeProps, Json, IOUtils

VARIABLES tid, l
Runs == JsonDeserialize(IOEnv.TRACE_FILE)
ASSUME OracleSane

Init == tid \in 1..Len(Runs) /\ l = 1
Next ==
    /\ l <= Len(Runs[tid])
    /\ LET r == Runs[tid][l] IN
       /\ \A c \in LifeBad(r) : PrintT(<<"VIOL", tid, l, r.kind, c>>)
       /\ (l = Len(Runs[tid])) => PrintT(<<"DONE", tid, l>>)
    /\ l' = l + 1 /\ UNCHANGED tid
Spec == Init /\ [][Next]_<<tid, l>>
=============================================================================
