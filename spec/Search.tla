------------------------------- MODULE Search -------------------------------
(***************************************************************************)
(* C14 -- reference semantics of the RFC 3501 SEARCH program.               *)
(*                                                                         *)
(* A search program is a recursive datatype, encoded as nested tuples whose *)
(* first element is the RFC 3501 key name:                                  *)
(*                                                                         *)
(*   <<"ALL">> <<"ANSWERED">> <<"DELETED">> <<"DRAFT">> <<"FLAGGED">>        *)
(*   <<"RECENT">> <<"SEEN">> <<"UNANSWERED">> <<"UNDELETED">> <<"UNDRAFT">>  *)
(*   <<"UNFLAGGED">> <<"UNSEEN">> <<"NEW">> <<"OLD">>                        *)
(*   <<"KEYWORD", k>> <<"UNKEYWORD", k>>                                     *)
(*   <<"BEFORE", d>> <<"ON", d>> <<"SINCE", d>>          d = day number      *)
(*   <<"SENTBEFORE", d>> <<"SENTON", d>> <<"SENTSINCE", d>>                  *)
(*   <<"LARGER", n>> <<"SMALLER", n>>                                        *)
(*   <<"BCC", s>> <<"CC", s>> <<"FROM", s>> <<"SUBJECT", s>> <<"TO", s>>     *)
(*   <<"HEADER", name, s>> <<"BODY", s>> <<"TEXT", s>>                       *)
(*   <<"SEQ", set>> <<"UID", set>>      set = sequence of <<a, b>>, Star=-1  *)
(*   <<"NOT", p>>  <<"OR", p, q>>  <<"AND", <<p1, ..., pk>>>>                *)
(*                                                                         *)
(* ("AND" is juxtaposition at top level and a parenthesised list when       *)
(* nested.)  Arguments of one key always have the same type, so programs    *)
(* can be members of one TLC set.                                           *)
(*                                                                         *)
(* A message is a record                                                    *)
(*   [seq, uid, flags, size, iday, sday, hdrs, body, memo]                  *)
(* flags: set of names (system flags without the backslash), size: octets   *)
(* (RFC822.SIZE), iday: day number of INTERNALDATE, sday: day number of the *)
(* Date: header as written (time and zone disregarded, RFC 3501 6.4.4),     *)
(* hdrs: sequence of <<field-name, field-body>>, body: the body text.       *)
(* Strings are TLC strings; substring matching is defined here, character   *)
(* by character, case-insensitively (RFC 3501: "matching is                 *)
(* case-insensitive", "a match if the string is a substring of the field"). *)
(*                                                                         *)
(* Two independent definitions of the meaning of a program are given:       *)
(*   Eval(p, m, ctx)  pointwise, by structural recursion, booleans          *)
(*   Den(p, mb)       set-algebraic: NOT = complement, OR = union,          *)
(*                    list = intersection (the wording of the statement)    *)
(* SearchMC checks exhaustively within its bounds that they coincide and    *)
(* that the algebraic laws hold; SearchTrace validates what the             *)
(* implementation returned against Den.                                     *)
(***************************************************************************)
EXTENDS Integers, Sequences, FiniteSets, TLC

Star == -1

SeqToSet(s) == {s[i] : i \in DOMAIN s}
Min2(a, b) == IF a <= b THEN a ELSE b
Max2(a, b) == IF a >= b THEN a ELSE b

---------------------------------------------------------------------------
(* strings *)

FoldMap == [A |-> "a", B |-> "b", C |-> "c", D |-> "d", E |-> "e", F |-> "f",
            G |-> "g", H |-> "h", I |-> "i", J |-> "j", K |-> "k", L |-> "l",
            M |-> "m", N |-> "n", O |-> "o", P |-> "p", Q |-> "q", R |-> "r",
            S |-> "s", T |-> "t", U |-> "u", V |-> "v", W |-> "w", X |-> "x",
            Y |-> "y", Z |-> "z"]
UpperCase == DOMAIN FoldMap
FoldC(c) == IF c \in UpperCase THEN FoldMap[c] ELSE c

(* case folding, divide and conquer so that the recursion depth stays small *)
RECURSIVE Fold(_)
Fold(w) ==
    IF Len(w) = 0 THEN w
    ELSE IF Len(w) = 1 THEN FoldC(w)
    ELSE LET h == Len(w) \div 2
         IN Fold(SubSeq(w, 1, h)) \o Fold(SubSeq(w, h + 1, Len(w)))

(* n occurs in w as a substring (both already folded); "" occurs everywhere *)
HasSub(w, n) ==
    \E i \in 0..(Len(w) - Len(n)) : SubSeq(w, i + 1, i + Len(n)) = n

FoldMsg(m) ==
    [m EXCEPT !.hdrs = [i \in DOMAIN m.hdrs |->
                           <<Fold(m.hdrs[i][1]), Fold(m.hdrs[i][2])>>],
              !.body = Fold(m.body)]
FoldMb(mb) == [i \in DOMAIN mb |-> FoldMsg(mb[i])]

---------------------------------------------------------------------------
(* leaf keys.  m is a folded message, ctx = [n |-> number of messages,      *)
(* maxuid |-> largest UID in the mailbox]                                   *)

HasFlag(m, f) == f \in m.flags

HdrMatch(m, name, s) ==
    \E i \in DOMAIN m.hdrs :
        m.hdrs[i][1] = Fold(name) /\ HasSub(m.hdrs[i][2], Fold(s))
BodyMatch(m, s) == HasSub(m.body, Fold(s))
(* TEXT: the string occurs in the header (some header line "name: body") or *)
(* in the body.                                                             *)
TextMatch(m, s) ==
    \/ BodyMatch(m, s)
    \/ \E i \in DOMAIN m.hdrs :
          HasSub(m.hdrs[i][1] \o ": " \o m.hdrs[i][2], Fold(s))

(* sequence sets: "*" is the largest number in use; a range contains all    *)
(* values between its two ends regardless of their order (RFC 3501 9,       *)
(* seq-range); a UID range n:* therefore always contains the largest UID.   *)
Val(x, star) == IF x = Star THEN star ELSE x
InSet(v, set, star) ==
    \E k \in DOMAIN set :
        LET a == Val(set[k][1], star)
            b == Val(set[k][2], star)
        IN Min2(a, b) <= v /\ v <= Max2(a, b)

(* keys that look at the text of the message *)
StrLeaf(p, m) ==
    LET k == p[1] IN
    CASE k = "BCC" -> HdrMatch(m, "bcc", p[2])
      [] k = "CC" -> HdrMatch(m, "cc", p[2])
      [] k = "FROM" -> HdrMatch(m, "from", p[2])
      [] k = "SUBJECT" -> HdrMatch(m, "subject", p[2])
      [] k = "TO" -> HdrMatch(m, "to", p[2])
      [] k = "HEADER" -> HdrMatch(m, p[2], p[3])
      [] k = "BODY" -> BodyMatch(m, p[2])
      [] k = "TEXT" -> TextMatch(m, p[2])

(* A message may carry `memo`: a function from text keys to the value of   *)
(* StrLeaf on this very message, computed once when the mailbox is built   *)
(* (string operations are slow in TLC); it is nothing but a cache.         *)
NoMemo == [x \in {} |-> TRUE]
Memoize(m, keys) == [m EXCEPT !.memo = [l \in keys |-> StrLeaf(l, m)]]
MemoMb(mb, keys) == [i \in DOMAIN mb |-> Memoize(mb[i], keys)]

Leaf(p, m, ctx) ==
    LET k == p[1] IN
    CASE k = "ALL" -> TRUE
      [] k = "ANSWERED" -> HasFlag(m, "Answered")
      [] k = "DELETED" -> HasFlag(m, "Deleted")
      [] k = "DRAFT" -> HasFlag(m, "Draft")
      [] k = "FLAGGED" -> HasFlag(m, "Flagged")
      [] k = "RECENT" -> HasFlag(m, "Recent")
      [] k = "SEEN" -> HasFlag(m, "Seen")
      [] k = "UNANSWERED" -> ~HasFlag(m, "Answered")
      [] k = "UNDELETED" -> ~HasFlag(m, "Deleted")
      [] k = "UNDRAFT" -> ~HasFlag(m, "Draft")
      [] k = "UNFLAGGED" -> ~HasFlag(m, "Flagged")
      [] k = "UNSEEN" -> ~HasFlag(m, "Seen")
      [] k = "NEW" -> HasFlag(m, "Recent") /\ ~HasFlag(m, "Seen")
      [] k = "OLD" -> ~HasFlag(m, "Recent")
      [] k = "KEYWORD" -> HasFlag(m, p[2])
      [] k = "UNKEYWORD" -> ~HasFlag(m, p[2])
      [] k = "BEFORE" -> m.iday < p[2]
      [] k = "ON" -> m.iday = p[2]
      [] k = "SINCE" -> m.iday >= p[2]
      [] k = "SENTBEFORE" -> m.sday < p[2]
      [] k = "SENTON" -> m.sday = p[2]
      [] k = "SENTSINCE" -> m.sday >= p[2]
      [] k = "LARGER" -> m.size > p[2]
      [] k = "SMALLER" -> m.size < p[2]
      [] k = "SEQ" -> InSet(m.seq, p[2], ctx.n)
      [] k = "UID" -> InSet(m.uid, p[2], ctx.maxuid)
      [] OTHER -> IF p \in DOMAIN m.memo THEN m.memo[p] ELSE StrLeaf(p, m)

NullaryKeys == {"ALL", "ANSWERED", "DELETED", "DRAFT", "FLAGGED", "RECENT", "SEEN",
                "UNANSWERED", "UNDELETED", "UNDRAFT", "UNFLAGGED", "UNSEEN", "NEW", "OLD"}
DateKeys == {"BEFORE", "ON", "SINCE", "SENTBEFORE", "SENTON", "SENTSINCE"}
SizeKeys == {"LARGER", "SMALLER"}
StrKeys == {"BCC", "CC", "FROM", "SUBJECT", "TO", "BODY", "TEXT"}
SetKeys == {"SEQ", "UID"}
LeafKeys == NullaryKeys \cup DateKeys \cup SizeKeys \cup StrKeys \cup SetKeys
            \cup {"KEYWORD", "UNKEYWORD", "HEADER"}
IsLeaf(p) == p[1] \in LeafKeys

---------------------------------------------------------------------------
(* the two semantics *)

CtxOf(mb) == [n |-> Len(mb),
              maxuid |-> IF Len(mb) = 0 THEN 0
                         ELSE CHOOSE u \in {mb[i].uid : i \in DOMAIN mb} :
                                  \A j \in DOMAIN mb : mb[j].uid <= u]

RECURSIVE Eval(_, _, _)
Eval(p, m, ctx) ==
    CASE p[1] = "NOT" -> ~Eval(p[2], m, ctx)
      [] p[1] = "OR" -> Eval(p[2], m, ctx) \/ Eval(p[3], m, ctx)
      [] p[1] = "AND" -> \A k \in DOMAIN p[2] : Eval(p[2][k], m, ctx)
      [] OTHER -> Leaf(p, m, ctx)

(* Den(p, mb): the set of message sequence numbers SEARCH p denotes *)
RECURSIVE DenC(_, _, _)
DenC(p, mb, ctx) ==
    LET all == DOMAIN mb IN
    CASE p[1] = "NOT" -> all \ DenC(p[2], mb, ctx)
      [] p[1] = "OR" -> DenC(p[2], mb, ctx) \cup DenC(p[3], mb, ctx)
      [] p[1] = "AND" -> {i \in all : \A k \in DOMAIN p[2] : i \in DenC(p[2][k], mb, ctx)}
      [] OTHER -> {i \in all : Leaf(p, mb[i], ctx)}
Den(p, mb) == DenC(p, mb, CtxOf(mb))

(* UID SEARCH is SEARCH mapped through the UID table *)
UidsOf(S, mb) == {mb[i].uid : i \in S}
UidDen(p, mb) == UidsOf(Den(p, mb), mb)

---------------------------------------------------------------------------
(* well-formedness, and which programs the statement speaks about *)

IsSet(s) == /\ Len(s) >= 1
            /\ \A k \in DOMAIN s : /\ Len(s[k]) = 2
                                   /\ \A j \in 1..2 : s[k][j] = Star \/ s[k][j] >= 1

RECURSIVE WellFormed(_)
WellFormed(p) ==
    LET k == p[1] IN
    CASE k = "NOT" -> Len(p) = 2 /\ WellFormed(p[2])
      [] k = "OR" -> Len(p) = 3 /\ WellFormed(p[2]) /\ WellFormed(p[3])
      [] k = "AND" -> Len(p) = 2 /\ Len(p[2]) >= 1 /\ \A j \in DOMAIN p[2] : WellFormed(p[2][j])
      [] k \in NullaryKeys -> Len(p) = 1
      [] k \in DateKeys \cup SizeKeys -> Len(p) = 2 /\ p[2] \in Int
      [] k \in StrKeys \cup {"KEYWORD", "UNKEYWORD"} -> Len(p) = 2
      [] k = "HEADER" -> Len(p) = 3
      [] k \in SetKeys -> Len(p) = 2 /\ IsSet(p[2])
      [] OTHER -> FALSE

(* A message sequence number larger than the number of messages (or "*" in  *)
(* an empty mailbox) is an error in RFC 3501, not a search criterion; the   *)
(* statement says nothing about such programs and they are not judged.      *)
(* Non-existent UIDs are explicitly fine (they are ignored).                *)
RECURSIVE InRange(_, _)
InRange(p, n) ==
    CASE p[1] = "NOT" -> InRange(p[2], n)
      [] p[1] = "OR" -> InRange(p[2], n) /\ InRange(p[3], n)
      [] p[1] = "AND" -> \A k \in DOMAIN p[2] : InRange(p[2][k], n)
      [] p[1] = "SEQ" -> n >= 1 /\ \A k \in DOMAIN p[2] : \A j \in 1..2 : p[2][k][j] <= n
      [] OTHER -> TRUE

(* Shape of a program, used only to label verdicts (the `act` of a         *)
(* violation): the key of a leaf, or the unusual set forms it contains.    *)
SetForms(set, star) ==
    {f \in {"set-star-first", "set-reversed-range", "set-beyond-star"} :
        \E k \in DOMAIN set :
            LET a == set[k][1]
                b == set[k][2]
            IN CASE f = "set-star-first" -> a = Star /\ b # Star
                 [] f = "set-reversed-range" -> a # Star /\ b # Star /\ a > b
                 [] f = "set-beyond-star" -> a # Star /\ b = Star /\ a > star}
RECURSIVE Forms(_, _)
Forms(p, ctx) ==
    CASE p[1] = "NOT" -> Forms(p[2], ctx)
      [] p[1] = "OR" -> Forms(p[2], ctx) \cup Forms(p[3], ctx)
      [] p[1] = "AND" -> UNION {Forms(p[2][k], ctx) : k \in DOMAIN p[2]}
      [] p[1] = "SEQ" -> SetForms(p[2], ctx.n)
      [] p[1] = "UID" -> SetForms(p[2], ctx.maxuid)
      [] OTHER -> {}
ActOf(p, ctx) ==
    LET f == Forms(p, ctx) IN
    IF f # {} THEN CHOOSE x \in f : TRUE
    ELSE IF p[1] = "HEADER" THEN "HEADER:" \o p[2]
    ELSE IF IsLeaf(p) THEN p[1] ELSE "compound"

---------------------------------------------------------------------------
(* algebraic laws as relations between programs: LawRel(law, p, q) says    *)
(* that q is the `law`-image of p; such p and q must denote the same set.  *)

Not(p) == <<"NOT", p>>
Or(p, q) == <<"OR", p, q>>
And2(p, q) == <<"AND", <<p, q>>>>

SugarOf(p) ==
    LET k == p[1] IN
    CASE k = "UNANSWERED" -> Not(<<"ANSWERED">>)
      [] k = "UNDELETED" -> Not(<<"DELETED">>)
      [] k = "UNDRAFT" -> Not(<<"DRAFT">>)
      [] k = "UNFLAGGED" -> Not(<<"FLAGGED">>)
      [] k = "UNSEEN" -> Not(<<"SEEN">>)
      [] k = "UNKEYWORD" -> Not(<<"KEYWORD", p[2]>>)
      [] k = "NEW" -> And2(<<"RECENT">>, <<"UNSEEN">>)
      [] k = "OLD" -> Not(<<"RECENT">>)
      [] OTHER -> p
HasSugar(p) == p[1] \in {"UNANSWERED", "UNDELETED", "UNDRAFT", "UNFLAGGED", "UNSEEN",
                         "UNKEYWORD", "NEW", "OLD"}

Laws == {"NotNot", "OrComm", "AndComm", "DeMorganOr", "DeMorganAnd", "Sugar", "Paren",
         "OrIdem", "AndAll"}
LawApplies(law, p) ==
    CASE law \in {"NotNot", "Paren", "OrIdem", "AndAll"} -> TRUE
      [] law \in {"OrComm", "DeMorganOr"} -> p[1] = "OR"
      [] law \in {"AndComm", "DeMorganAnd"} -> p[1] = "AND" /\ Len(p[2]) = 2
      [] law = "Sugar" -> HasSugar(p)
LawImage(law, p) ==
    CASE law = "NotNot" -> Not(Not(p))
      [] law = "Paren" -> <<"AND", <<p>>>>
      [] law = "OrIdem" -> Or(p, p)
      [] law = "AndAll" -> And2(<<"ALL">>, p)
      [] law = "OrComm" -> Or(p[3], p[2])
      [] law = "DeMorganOr" -> Not(And2(Not(p[2]), Not(p[3])))
      [] law = "AndComm" -> And2(p[2][2], p[2][1])
      [] law = "DeMorganAnd" -> Not(Or(Not(p[2][1]), Not(p[2][2])))
      [] law = "Sugar" -> SugarOf(p)
LawRel(law, p, q) == law \in Laws /\ LawApplies(law, p) /\ q = LawImage(law, p)
=============================================================================
