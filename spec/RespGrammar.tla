---------------------------- MODULE RespGrammar ----------------------------
(***************************************************************************)
(* C07 -- everything the server sends is well-formed IMAP.                  *)
(*                                                                         *)
(* A deterministic acceptor over byte-class TOKENS.  The harness turns the  *)
(* octets written to a client into tokens by byte class only (run-length    *)
(* compressed, no parsing decision):                                        *)
(*                                                                         *)
(*    <<k, n, v, u>>   k class, n octets in the run, v value, u text        *)
(*                                                                         *)
(*    "SP"            run of n spaces                                       *)
(*    "AL"            run of n ASCII letters, u = the run in upper case if   *)
(*                    n <= 7 (else "")                                      *)
(*    "D"             run of n <= 9 digits, v = its decimal value           *)
(*    "O"             run of n other printable ASCII (not listed below)     *)
(*    "HI"            run of n octets >= 0x80                               *)
(*    "CTL"           run of n control octets other than CR, LF             *)
(*    "LP" "RP" "DQ" "BS" "LC" "RC" "STAR" "PLUS" "CR" "LF"                 *)
(*                    one octet each:  ( ) " \ { } * + CR LF                *)
(*                                                                         *)
(* A stream is ACCEPTED iff it is a sequence of complete responses:         *)
(*   - a response starts with "* ", "+" or "tag SP OK|NO|BAD";              *)
(*   - status responses ("* OK|NO|BAD|BYE|PREAUTH", tagged lines, "+")      *)
(*     carry free text up to CRLF (RFC 3501 resp-text: anything but CR/LF); *)
(*   - every other untagged response is DATA: quoted strings contain no raw *)
(*     CR/LF and a backslash only in front of a double quote or backslash; *)
(*     a closing quote is followed by SP, ")" or CRLF (anything else means *)
(*     an unescaped quote inside the string); "{n}" CRLF announces a        *)
(*     literal of exactly n octets which is again followed by SP, ")" or    *)
(*     CRLF; parentheses never close below zero and are balanced at the    *)
(*     CRLF that ends the response;                                        *)
(*   - CR and LF occur only as CRLF (outside literals), no line is empty,   *)
(*     and the stream ends right after a CRLF that ended a response.        *)
(* Deliberately NOT demanded (the property does not): 7-bit only strings,   *)
(* atom-special characters in atoms, tag syntax, exactly one SP between     *)
(* items, a status line ending in "{n}" is text not a literal.              *)
(*                                                                         *)
(* Step is the acceptor; RespGrammarMC checks it against a second,          *)
(* grammar-style definition; RespGrammarTrace validates real output.        *)
(***************************************************************************)
EXTENDS Naturals, Sequences, FiniteSets, TLC

TStat == {"OK", "NO", "BAD"}
UStat == TStat \cup {"BYE", "PREAUTH"}
RunClasses == {"SP", "O", "HI", "CTL"}      \* n octets of the class behave like n tokens of one octet

S0 == [mode |-> "S", d |-> 0, tail |-> "", litn |-> 0, rem |-> 0, aft |-> "", err |-> ""]
Err(s, c) == [s EXCEPT !.mode = "ERR", !.err = c]
To(s, m) == [s EXCEPT !.mode = m]

(* one token in data mode.  d: open parentheses; tail: how much of "{n}" the *)
(* last tokens spell; aft: "q"/"l" right after a closing quote / a literal    *)
DataStep(s, k, v) ==
    IF s.aft # "" /\ k \notin {"SP", "RP", "CR"}
    THEN Err(s, IF s.aft = "q" THEN "C07.QuotedString" ELSE "C07.LiteralCount")
    ELSE LET t == [s EXCEPT !.mode = "D", !.aft = "", !.tail = ""] IN
         CASE k = "LP" -> [t EXCEPT !.d = s.d + 1]
           [] k = "RP" -> IF s.d = 0 THEN Err(s, "C07.ParensBalance") ELSE [t EXCEPT !.d = s.d - 1]
           [] k = "DQ" -> To(t, "Q")
           [] k = "LC" -> [t EXCEPT !.tail = "{"]
           [] k = "D"  -> IF s.tail = "{" THEN [t EXCEPT !.tail = "{d", !.litn = v] ELSE t
           [] k = "RC" -> IF s.tail = "{d" THEN [t EXCEPT !.tail = "{d}"] ELSE t
           [] k = "CR" -> [t EXCEPT !.mode = "DCR", !.tail = s.tail]
           [] k = "LF" -> Err(s, "C07.LineTermination")
           [] OTHER    -> t

(* one token of one octet (or one AL / D run, which are units) outside literals *)
Unit(s, tok) ==
    LET k == tok[1]  v == tok[3]  u == tok[4]  m == s.mode IN
    CASE m = "ERR" -> s
      [] m = "S"   -> CASE k = "STAR" -> To(s, "U1")
                        [] k = "PLUS" -> To(s, "P1")
                        [] k \in {"CR", "LF"} -> Err(s, "C07.CompleteResponses")     \* empty line
                        [] k = "SP" -> Err(s, "C07.ResponseStart")
                        [] OTHER -> To(s, "T")
      [] m = "U1"  -> IF k = "SP" THEN To(s, "U2") ELSE Err(s, "C07.ResponseStart")
      [] m = "U2"  -> IF k = "AL" /\ u \in UStat THEN To(s, "U3")
                      ELSE IF k \in {"CR", "LF"} THEN Err(s, "C07.ResponseStart")
                      ELSE DataStep(s, k, v)
      [] m = "U3"  -> IF k = "SP" THEN To(s, "X") ELSE IF k = "CR" THEN To(s, "XCR") ELSE DataStep(s, k, v)
      [] m = "P1"  -> IF k = "SP" THEN To(s, "X") ELSE IF k = "CR" THEN To(s, "XCR")
                      ELSE Err(s, "C07.ResponseStart")
      [] m = "T"   -> IF k = "SP" THEN To(s, "T2") ELSE IF k \in {"CR", "LF"} THEN Err(s, "C07.ResponseStart")
                      ELSE s
      [] m = "T2"  -> IF k = "AL" /\ u \in TStat THEN To(s, "T3") ELSE Err(s, "C07.ResponseStart")
      [] m = "T3"  -> IF k = "SP" THEN To(s, "X") ELSE IF k = "CR" THEN To(s, "XCR")
                      ELSE Err(s, "C07.ResponseStart")
      [] m = "X"   -> IF k = "CR" THEN To(s, "XCR") ELSE IF k = "LF" THEN Err(s, "C07.LineTermination") ELSE s
      [] m = "XCR" -> IF k = "LF" THEN S0 ELSE Err(s, "C07.LineTermination")
      [] m = "D"   -> DataStep(s, k, v)
      [] m = "DCR" -> IF k # "LF" THEN Err(s, "C07.LineTermination")
                      ELSE IF s.tail = "{d}"
                           THEN IF s.litn = 0 THEN [s EXCEPT !.mode = "D", !.aft = "l", !.tail = ""]
                                ELSE [s EXCEPT !.mode = "L", !.rem = s.litn, !.tail = ""]
                      ELSE IF s.d = 0 THEN S0 ELSE Err(s, "C07.ParensBalance")
      [] m = "Q"   -> CASE k = "DQ" -> [s EXCEPT !.mode = "D", !.aft = "q"]
                        [] k = "BS" -> To(s, "QE")
                        [] k \in {"CR", "LF"} -> Err(s, "C07.QuotedString")
                        [] OTHER -> s
      [] m = "QE"  -> IF k \in {"DQ", "BS"} THEN To(s, "Q") ELSE Err(s, "C07.QuotedString")

(* the acceptor's step on a token of n octets *)
Step(s, tok) ==
    LET k == tok[1]  n == tok[2] IN
    IF s.mode = "L"
    THEN IF n < s.rem THEN [s EXCEPT !.rem = s.rem - n]
         ELSE LET e == [s EXCEPT !.mode = "D", !.rem = 0, !.aft = "l"] IN
              IF n = s.rem THEN e ELSE DataStep(e, k, tok[3])       \* the rest of the run is data again
    ELSE IF k \in RunClasses /\ n >= 2 THEN Unit(Unit(s, tok), tok)  \* every mode is stationary after two
    ELSE Unit(s, tok)

Accepting(s) == s.mode = "S"
(* verdict on a complete stream: "" or the clause it violates *)
Final(s) == IF s.mode = "ERR" THEN s.err ELSE IF s.mode = "S" THEN "" ELSE "C07.CompleteResponses"

RECURSIVE RunFrom(_, _, _)
RunFrom(s, toks, i) == IF i > Len(toks) THEN s ELSE RunFrom(Step(s, toks[i]), toks, i + 1)
Run(toks) == RunFrom(S0, toks, 1)
Verdict(toks) == Final(Run(toks))

---------------------------------------------------------------------------
(* Decode clause.  A record logged by the harness:                           *)
(*   [kind, ok, mode, decoded, expected]; decoded/expected are sequences of   *)
(* strings; ok = FALSE when the independent reader could not read the         *)
(* response at all; mode "eq": decoded = expected; mode "sub": every          *)
(* expected string is among the decoded ones.                                 *)
Range(f) == {f[i] : i \in DOMAIN f}
DecodeBad(r) ==
    \/ ~r.ok
    \/ r.mode = "eq" /\ r.decoded # r.expected
    \/ r.mode = "sub" /\ ~(Range(r.expected) \subseteq Range(r.decoded))

---------------------------------------------------------------------------
(* Non-vacuity: explicit streams and the verdict they must get.               *)
T1(k) == <<k, 1, 0, "">>
Al(w, n) == <<"AL", n, 0, w>>
Dg(v) == <<"D", 1, v, "">>
O(n) == <<"O", n, 0, "">>
Sp(n) == <<"SP", n, 0, "">>
CRLF == <<T1("CR"), T1("LF")>>
Star == <<T1("STAR"), Sp(1)>>
(* "* 1 FETCH (BODY[] {3}" CRLF <data> ")" CRLF *)
FetchLit(cnt, data) == Star \o <<Dg(1), Sp(1), Al("FETCH", 5), Sp(1), T1("LP"), Al("BODY", 4), O(2), Sp(1),
                                 T1("LC"), Dg(cnt), T1("RC")>> \o CRLF \o data \o <<T1("RP")>> \o CRLF
Quoted(inner) == Star \o <<Al("LIST", 4), Sp(1), T1("DQ")>> \o inner \o <<T1("DQ")>> \o CRLF
Vectors ==
    /\ Verdict(<<>>) = ""
    /\ Verdict(Star \o <<Al("OK", 2), Sp(1), T1("DQ"), T1("LP"), O(3)>> \o CRLF) = ""           \* free text
    /\ Verdict(<<Al("T", 1), Dg(1), Sp(1), Al("BAD", 3), Sp(1), T1("LC"), Dg(5), T1("RC")>> \o CRLF) = ""
    /\ Verdict(<<T1("PLUS"), Sp(1), Al("IDLING", 6)>> \o CRLF) = ""
    /\ Verdict(<<T1("PLUS"), Sp(1), Al("IDLING", 6)>>) = "C07.CompleteResponses"                 \* no CRLF
    /\ Verdict(<<Al("T", 1), Sp(1), Al("BAD", 3), Sp(1), O(2), T1("CR")>>) = "C07.CompleteResponses"
    /\ Verdict(<<Al("T", 1), Sp(1), Al("BAD", 3), Sp(1), O(2), T1("LF")>>) = "C07.LineTermination"
    /\ Verdict(<<Al("T", 1), Sp(1), Al("NO", 2), Sp(1), Al("A", 1), T1("CR"), Al("B", 1)>> \o CRLF) = "C07.LineTermination"
    /\ Verdict(Star \o <<Al("NO", 2), Sp(1), Al("X", 1)>> \o CRLF \o CRLF) = "C07.CompleteResponses" \* empty line
    /\ Verdict(<<Al("GARBAGE", 7)>> \o CRLF) = "C07.ResponseStart"
    /\ Verdict(<<Al("T", 1), Sp(1), Al("FOO", 3)>> \o CRLF) = "C07.ResponseStart"
    /\ Verdict(FetchLit(3, <<Al("ABC", 3)>>)) = ""
    /\ Verdict(FetchLit(3, <<T1("DQ"), T1("CR"), T1("LP")>>)) = ""                                 \* literals are opaque
    /\ Verdict(FetchLit(2, <<Al("ABC", 3)>>)) = "C07.LiteralCount"                                 \* count too small
    /\ Verdict(FetchLit(1, <<O(1)>> \o CRLF)) = "C07.ParensBalance"                                \* CRLF fix-up not counted
    /\ Verdict(FetchLit(4, <<Al("ABC", 3)>>)) = "C07.ParensBalance"                                \* count too large: eats ")"
    /\ Verdict(FetchLit(9, <<Al("ABC", 3)>>)) = "C07.CompleteResponses"                            \* count beyond the stream
    /\ Verdict(FetchLit(0, <<>>)) = ""
    /\ Verdict(FetchLit(3, <<Sp(5)>>)) = ""                                                        \* a run split by the literal's end
    /\ Verdict(FetchLit(3, <<O(5)>>)) = "C07.LiteralCount"
    /\ Verdict(Quoted(<<Al("A", 1), T1("BS"), T1("DQ"), T1("BS"), T1("BS"), T1("HI"), T1("LP")>>)) = ""
    /\ Verdict(Quoted(<<Al("A", 1), T1("DQ"), Al("B", 1)>>)) = "C07.QuotedString"                 \* unescaped quote
    /\ Verdict(Quoted(<<Al("A", 1), T1("BS"), Al("B", 1)>>)) = "C07.QuotedString"                 \* unescaped backslash
    /\ Verdict(Quoted(<<Al("A", 1), T1("LF"), Al("B", 1)>>)) = "C07.QuotedString"                 \* raw LF
    /\ Verdict(Quoted(<<Al("A", 1), T1("DQ"), Sp(1), Al("B", 1)>>)) = "C07.QuotedString"          \* odd number of quotes
    /\ Verdict(Star \o <<Al("X", 1), Sp(1), T1("LP"), T1("LP"), T1("RP")>> \o CRLF) = "C07.ParensBalance"
    /\ Verdict(Star \o <<Al("X", 1), Sp(1), T1("LP"), T1("RP"), T1("RP")>> \o CRLF) = "C07.ParensBalance"
    /\ DecodeBad([kind |-> "LIST", ok |-> TRUE, mode |-> "eq", decoded |-> <<"a\"b">>, expected |-> <<"a\"b">>]) = FALSE
    /\ DecodeBad([kind |-> "LIST", ok |-> TRUE, mode |-> "eq", decoded |-> <<"a">>, expected |-> <<"a\"b">>])
    /\ DecodeBad([kind |-> "LIST", ok |-> FALSE, mode |-> "eq", decoded |-> <<>>, expected |-> <<>>])
    /\ DecodeBad([kind |-> "LIST", ok |-> TRUE, mode |-> "sub", decoded |-> <<"a", "b">>, expected |-> <<"b">>]) = FALSE
    /\ DecodeBad([kind |-> "LIST", ok |-> TRUE, mode |-> "sub", decoded |-> <<"a">>, expected |-> <<"b">>])
=============================================================================
