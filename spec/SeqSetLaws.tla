---------------------------- MODULE SeqSetLaws ----------------------------
(***************************************************************************)
(* Exhaustive check of the laws of the sequence-set denotation (SeqSet)    *)
(* over the enumerated case space, and emission of that space for the      *)
(* harness (spec -> code).                                                 *)
(*                                                                         *)
(* One TLC state per case <<group, set>>: a group is a reading mode and a  *)
(* mailbox (UID table); every set of Space(...) of the group is a state    *)
(* (ph = 2) and every law is an invariant.  The states are reached through *)
(* one root per group (ph = 0) and one state per first element (ph = 1),   *)
(* only so that TLC's workers share the enumeration.  The groups, with     *)
(* their case lists and the covering subset that is sent through complete  *)
(* commands, are written to the JSON file named by the environment         *)
(* variable C15_CASES_OUT.                                                 *)
(***************************************************************************)
EXTENDS SeqSet, Json, IOUtils

CONSTANTS MaxN,      \* mailbox sizes 0..MaxN
          SparseN,   \* the sparse UID tables (Even, Shift) for 1 <= N <= SparseN
          Full3N,    \* lists of <= 3 elements over the full alphabet for N <= Full3N
                     \*   (sequence numbers and the dense UID table), <= 2 otherwise
          Bnd3N,     \* lists of <= 3 elements over the boundary alphabet for
                     \*   N <= Bnd3N (sequence numbers, dense UID table) ...
          Bnd3SparseN, \* ... and for N <= Bnd3SparseN on the sparse UID tables
          Cover2N    \* the sizes N for which pairs of boundary elements (and not
                     \*   only single elements) go through complete commands

VARIABLES g, set, ph

(* Groups <<mode, uids, kind>>: message sequence numbers over a mailbox     *)
(* whose UIDs differ from its sequence numbers (so that confusing the two   *)
(* shows); UIDs over a dense table and two tables with gaps.                *)
GroupSet ==
    {<<"seq", Shift(n), "seq">> : n \in 0..MaxN}
    \cup {<<"uid", Dense(n), "dense">> : n \in 0..MaxN}
    \cup {<<"uid", Even(n), "even">> : n \in 1..SparseN}
    \cup {<<"uid", Shift(n), "shift">> : n \in 1..SparseN}
Groups == SetToSeq(GroupSet)
Plain(gr) == gr[3] \in {"seq", "dense"}
Kf(gr) == IF Plain(gr) /\ Len(gr[2]) <= Full3N THEN 3 ELSE 2
Kb(gr) == IF Len(gr[2]) <= (IF Plain(gr) THEN Bnd3N ELSE Bnd3SparseN) THEN 3 ELSE 2
SpaceOf(gr) == Space(gr[1], gr[2], Kf(gr), Kb(gr))
(* covering subset for complete commands: every single element, every pair *)
(* of boundary elements                                                    *)
CoverOf(gr) == Space(gr[1], gr[2], 1, IF Len(gr[2]) \in Cover2N THEN 2 ELSE 1)

Emit ==
    JsonSerialize(IOEnv.C15_CASES_OUT,
        [k \in 1..Len(Groups) |->
            [mode |-> Groups[k][1], kind |-> Groups[k][3], n |-> Len(Groups[k][2]),
             uids |-> Groups[k][2],
             sets |-> SetToSeq(SpaceOf(Groups[k])),
             cover |-> SetToSeq(CoverOf(Groups[k]))]])
ASSUME Emit

---------------------------------------------------------------------------
mode == Groups[g][1]
uids == Groups[g][2]
N == Len(uids)
U == RangeOf(uids)
D(s) == Msgs(mode, s, uids)
mx == IF mode = "uid" THEN LastOr0(uids) ELSE N

(* membership in SpaceOf(gr), written out (cheap to evaluate) *)
InElems(e, A) == Len(e) \in {1, 2} /\ \A i \in DOMAIN e : e[i] \in A
InLists(s, A, k) == Len(s) \in 1..k /\ \A i \in DOMAIN s : InElems(s[i], A)
InSpace(s, gr) == \/ InLists(s, Alpha(gr[1], gr[2]), Kf(gr))
                  \/ InLists(s, Bnd(gr[1], gr[2]), Kb(gr))

(* the sets of a group that start with element e *)
Tails(E, k) == {<<>>} \cup Lists(E, k - 1)
WithFirst(e, gr) ==
    {<<e>> \o r : r \in Tails(Elems(Alpha(gr[1], gr[2])), Kf(gr))}
    \cup (IF e \in Elems(Bnd(gr[1], gr[2]))
          THEN {<<e>> \o r : r \in Tails(Elems(Bnd(gr[1], gr[2])), Kb(gr))}
          ELSE {})

Init == g \in 1..Len(Groups) /\ set = <<>> /\ ph = 0
Next ==
    /\ UNCHANGED g
    /\ \/ ph = 0 /\ ph' = 1 /\ set' \in {<<e>> : e \in Elems(Alpha(mode, uids))}
       \/ ph = 1 /\ ph' = 2 /\ set' \in WithFirst(set[1], Groups[g])
Spec == Init /\ [][Next]_<<g, set, ph>>
(* evaluates the ASSUMEs (emission, non-vacuity) and nothing else *)
SpecEmit == (g = 1 /\ set = <<>> /\ ph = 3) /\ [][Next]_<<g, set, ph>>
Case == ph = 2

SwapElem(e) == IF Len(e) = 2 THEN <<e[2], e[1]>> ELSE e
SubstStar(e) == [i \in DOMAIN e |-> IF e[i] = Star THEN mx ELSE e[i]]

TypeOK_ == Ascending(uids) /\ Len(set) >= 1 /\ InSpace(set, Groups[g])
          /\ \A i \in DOMAIN set : Len(set[i]) \in {1, 2}

(* a:b equals b:a *)
LawSwap_ ==
    /\ D([i \in DOMAIN set |-> SwapElem(set[i])]) = D(set)
    /\ Rejected(mode, [i \in DOMAIN set |-> SwapElem(set[i])], uids)
         = Rejected(mode, set, uids)
(* "*" is the last message (highest UID); writing its number instead is the same *)
LawStar_ ==
    /\ N > 0 => D(<<<<Star>>>>) = {uids[N]}
    /\ N > 0 => D([i \in DOMAIN set |-> SubstStar(set[i])]) = D(set)
    /\ N = 0 => D(set) = {}
(* n:* always includes the last message; a sequence number beyond N is refused *)
LawOpenRange_ ==
    \A i \in DOMAIN set :
        (Len(set[i]) = 2 /\ Star \in Ends(set[i]) /\ N > 0) =>
            \/ uids[N] \in D(set)
            \/ Rejected(mode, set, uids)
(* duplicates and order do not matter; a list is the union of its elements *)
LawDup_ == D(set \o set) = D(set) /\ \A i \in DOMAIN set : D(set \o <<set[i]>>) = D(set)
LawOrder_ == D(Reverse(set)) = D(set)
LawUnion_ == D(set) = UNION {D(<<set[i]>>) : i \in DOMAIN set}
(* UID sets skip UIDs that do not exist: only existing UIDs are denoted,   *)
(* and taking a message other than the last out of the mailbox changes     *)
(* nothing for the others                                                  *)
LawUidSkips_ ==
    mode = "uid" =>
        /\ D(set) \subseteq U
        /\ \A u \in U : u # LastOr0(uids) =>
               DenoteUid(set, U \ {u}) = DenoteUid(set, U) \ {u}
        /\ \A u \in U : u \in D(set) <=>
               \E i \in DOMAIN set :
                   LET a == Val(set[i][1], mx)
                       b == Val(set[i][Len(set[i])], mx)
                   IN (a <= u /\ u <= b) \/ (b <= u /\ u <= a)
        /\ ~Rejected(mode, set, uids)
(* a set is refused exactly when one of its written numbers is outside 1..N *)
LawRejected_ ==
    mode = "seq" =>
        (Rejected(mode, set, uids) <=>
            \E i \in DOMAIN set : \E x \in Ends(set[i]) : Val(x, N) \notin 1..N)
(* what a valid sequence-number set denotes are messages of the mailbox;   *)
(* on a dense table both readings agree                                    *)
LawSeq_ ==
    /\ D(set) \subseteq U
    /\ (mode = "seq" /\ ~Rejected(mode, set, uids)) =>
          PosOf(D(set), uids) = DenoteSeq(set, N)
    /\ (mode = "uid" /\ uids = Dense(N) /\ ValidSeq(set, N)) =>
          D(set) = Msgs("seq", set, uids)
(* the lenient reading of an out-of-range SEARCH key lies between nothing  *)
(* for the bad elements and the full denotation                            *)
LawSearchLower_ ==
    mode = "seq" =>
        /\ SearchLower(set, uids) \subseteq D(set)
        /\ ~Rejected(mode, set, uids) => SearchLower(set, uids) = D(set)
(* the verdict operator accepts the reference itself and rejects a result  *)
(* that is off by one message                                              *)
LawVerdict_ ==
    LET ref == <<<<"ref", "uid", SetToSeq(D(set))>>>>
        st == IF Rejected(mode, set, uids) THEN "BAD" ELSE "OK"
        off == <<<<"off", "uid", SetToSeq(IF N > 0 /\ uids[1] \notin D(set)
                                          THEN D(set) \cup {uids[1]}
                                          ELSE D(set) \ {uids[1]})>>>>
    IN /\ Verdict(mode, "gate", set, uids, st,
                  IF st = "OK" THEN ref ELSE <<<<"ref", "uid", <<>>>>>>) = {}
       /\ (N > 0 /\ st = "OK") => Verdict(mode, "gate", set, uids, "OK", off) # {}
       /\ (N > 0 /\ st = "BAD") => Verdict(mode, "gate", set, uids, "OK", ref) # {}

TypeOK == Case => TypeOK_
LawSwap == Case => LawSwap_
LawStar == Case => LawStar_
LawOpenRange == Case => LawOpenRange_
LawDup == Case => LawDup_
LawOrder == Case => LawOrder_
LawUnion == Case => LawUnion_
LawUidSkips == Case => LawUidSkips_
LawRejected == Case => LawRejected_
LawSeq == Case => LawSeq_
LawSearchLower == Case => LawSearchLower_
LawVerdict == Case => LawVerdict_

(* non-vacuity of the space itself *)
ASSUME \A k \in 1..Len(Groups) :
          LET S == SpaceOf(Groups[k])
              m == Groups[k][1]
              t == Groups[k][2]
          IN /\ \E s \in S : Msgs(m, s, t) = RangeOf(t)
             /\ \E s \in S : Msgs(m, s, t) = {}
             /\ Len(t) > 1 => \E s \in S : Msgs(m, s, t) = {t[Len(t)]}
             /\ m = "seq" => \E s \in S : Rejected(m, s, t)
             /\ (m = "seq" /\ Len(t) > 0) => \E s \in S : ~Rejected(m, s, t)
=============================================================================
