----------------------------- MODULE FramingMC -----------------------------
(***************************************************************************)
(* Bounded universe of client byte streams for C19, described at the level  *)
(* of ITEMS (commands made of a head and literals with their data and the   *)
(* text after them; empty lines; over-limit announcements), their rendering  *)
(* to octets, and what each item denotes.  TLC                               *)
(*   (a) checks, for every stream and every way of cutting it into segments  *)
(*       at the interesting offsets, that the octet-level reference          *)
(*       tokenizer of module Framing yields exactly what the items denote,   *)
(*       that what it yields for a prefix is a prefix of what it yields for  *)
(*       the whole (so the answer cannot depend on segmentation), and that   *)
(*       the stream is inside the property's domain;                         *)
(*   (b) writes the streams and their cut offsets to $CASES_OUT; the harness *)
(*       feeds them segment by segment to the real front-end.                *)
(***************************************************************************)
EXTENDS Framing, SequencesExt, Json, IOUtils

CONSTANTS MX,        \* MAX_INPUT_SIZE of this universe
          Depth,     \* longest stream (in commands) built from the core catalogue
          Wide,      \* TRUE: the full one-command catalogue is included
          Big,       \* TRUE: larger core catalogue
          Rand,      \* number of pseudo-random longer streams (seeded by -seed)
          RandLen,   \* their length in commands
          RunLens    \* lengths of the CRLF-free runs in response streams

VARIABLES sid, fed

Z(n) == <<0 - n>>
HeadA == <<97, 32, 78>>                       \* a N
HeadB == <<98, 32, 123, 49, 125, 120>>        \* b {1}x   (braces that announce nothing)
TailY == <<32, 121>>                          \*  y
QR == <<113, 114>>
CmdLike == <<99, 32, 78, 13, 10>>             \* c N CRLF   (a literal that looks like a command)
AnnLike == <<123, 53, 125, 13, 10>>           \* {5} CRLF   (a literal that looks like an announcement)
AnnLine == <<100, 32, 123, 52, 125, 13, 10>>  \* d {4} CRLF
BraceEnd == <<120, 123, 50, 125>>             \* x{2}      (literal data whose last octets look like an announcement)
BracePlusEnd == <<120, 123, 50, 43, 125>>     \* x{2+}

L(sync, data, tail) == [sync |-> sync, n |-> Size(data), data |-> data, tail |-> tail, ab |-> FALSE]
LAb(n) == [sync |-> TRUE, n |-> n, data |-> <<>>, tail |-> <<>>, ab |-> TRUE]
Cmd(h, ls) == [head |-> h, lits |-> ls]

Datas == {QR, CmdLike, AnnLike, <<120, 13>>, <<10, 120>>, <<>>, Z(3), <<13, 10, 13, 10>>, BraceEnd, BracePlusEnd}
Datas2 == {QR, CmdLike, AnnLike, <<120, 13>>, BraceEnd, BracePlusEnd}
Tails == {<<>>, TailY}

One == {Cmd(h, <<L(sy, d, t)>>) : h \in {HeadA, HeadB}, sy \in BOOLEAN, d \in Datas, t \in Tails}
Two == {Cmd(HeadA, <<L(s1, d1, t1), L(s2, d2, t2)>>) :
            s1 \in BOOLEAN, d1 \in Datas2, t1 \in Tails, s2 \in BOOLEAN, d2 \in Datas2, t2 \in Tails}

(* largest literal that still fits: 3 + "{k+}"/"{k}" + CRLF + k = MX *)
FitK(extra) == CHOOSE k \in (MX - 24)..MX : 3 + 1 + Len(Digits(k)) + extra + 1 + 2 + k = MX

Special ==
    { Cmd(<<>>, <<>>),
      Cmd(HeadA, <<>>), Cmd(HeadB, <<>>),
      Cmd(HeadA, <<LAb(MX + 1)>>), Cmd(HeadA, <<LAb(MX + 59999)>>), Cmd(HeadB, <<LAb(1234567890)>>),
      Cmd(HeadA, <<L(TRUE, QR, TailY), LAb(MX + 1)>>),
      Cmd(HeadA, <<L(FALSE, Z(MX + 1), <<>>)>>),
      Cmd(HeadA, <<L(FALSE, CmdLike \o Z(MX + 1), TailY)>>),
      Cmd(HeadA, <<L(FALSE, Z(MX + 1) \o CmdLike, <<>>)>>),
      Cmd(HeadA, <<L(FALSE, AnnLine \o Z(MX), <<>>)>>),
      Cmd(HeadA, <<L(FALSE, Z(MX + 1), TailY), L(FALSE, QR, <<>>)>>),
      Cmd(HeadA, <<L(FALSE, Z(MX + 1), TailY), LAb(5)>>),          \* refused; its text ends in a synchronising announcement
      Cmd(HeadA, <<L(FALSE, Z(MX \div 2), <<>>), L(FALSE, Z(MX \div 2), TailY), LAb(2)>>),
      Cmd(HeadA \o Z(MX), <<>>),
      Cmd(<<97, 32>> \o Z(MX - 2), <<>>),
      Cmd(<<97, 32>> \o Z(MX - 1), <<>>),
      Cmd(HeadA, <<L(FALSE, Z(MX - 4), <<>>)>>),
      Cmd(HeadA, <<L(FALSE, Z(MX - 4), TailY)>>),
      Cmd(HeadA, <<L(FALSE, Z(MX - 4), <<>>), L(FALSE, QR, TailY)>>),
      Cmd(HeadA, <<L(FALSE, Z(MX \div 2), <<>>), L(FALSE, Z(MX \div 2), <<>>)>>),
      Cmd(HeadA, <<L(FALSE, Z(FitK(1)), <<>>)>>),
      Cmd(HeadA, <<L(TRUE, Z(FitK(0)), <<>>)>>),
      Cmd(HeadA, <<L(FALSE, Z(FitK(1) + 1), <<>>)>>) }

CoreSmall ==
    { Cmd(<<>>, <<>>), Cmd(HeadA, <<>>),
      Cmd(HeadA, <<L(TRUE, CmdLike, <<>>)>>),
      Cmd(HeadB, <<L(FALSE, AnnLike, TailY)>>),
      Cmd(HeadA, <<LAb(MX + 1)>>),
      Cmd(HeadA, <<L(FALSE, CmdLike \o Z(MX + 1), TailY)>>),
      Cmd(HeadA \o Z(MX), <<>>),
      Cmd(HeadA, <<L(FALSE, Z(MX - 4), <<>>)>>),
      Cmd(HeadA, <<L(FALSE, Z(MX - 4), TailY)>>),
      Cmd(HeadA, <<L(TRUE, Z(FitK(0)), <<>>)>>),
      Cmd(HeadA, <<L(TRUE, BraceEnd, <<>>)>>),
      Cmd(HeadA, <<L(FALSE, BracePlusEnd, <<>>)>>),
      Cmd(HeadA, <<L(FALSE, Z(MX + 1), TailY), LAb(5)>>) }
CoreBig == CoreSmall \cup
    { Cmd(HeadA, <<L(TRUE, QR, TailY), LAb(MX + 1)>>),
      Cmd(HeadA, <<L(FALSE, Z(MX + 1) \o CmdLike, <<>>)>>),
      Cmd(HeadA, <<L(FALSE, AnnLine \o Z(MX), <<>>)>>),
      Cmd(HeadA, <<L(TRUE, <<120, 13>>, <<>>), L(FALSE, AnnLike, TailY)>>),
      Cmd(HeadA, <<L(FALSE, Z(MX + 1), TailY), L(FALSE, QR, <<>>)>>),
      Cmd(HeadA, <<L(FALSE, Z(MX + 1), TailY), LAb(5)>>),
      Cmd(<<97, 32>> \o Z(MX - 2), <<>>) }
Core == IF Big THEN CoreBig ELSE CoreSmall

(* the property's domain, at the level of items (see module Framing): the outcome must not
   depend on whether a synchronising literal is refused early or late *)
AnnLen(l) == 2 + Len(Digits(l.n)) + (IF l.sync THEN 0 ELSE 1)
MsgSize(c) == Size(c.head) + FoldLeft(LAMBDA a, l : a + AnnLen(l) + 2 + Size(l.data) + Size(l.tail), 0, c.lits)
InDomain(c) ==
    LET over == {j \in 1..Len(c.lits) : c.lits[j].n > MX} IN
    IF over = {}
    THEN MsgSize(c) > MX => \A j \in 1..Len(c.lits) : ~c.lits[j].sync
    ELSE LET j == SetMin(over) IN
         IF c.lits[j].sync THEN c.lits[j].ab /\ j = Len(c.lits)
         ELSE \A i \in (j + 1)..Len(c.lits) : ~c.lits[i].sync \/ (c.lits[i].ab /\ i = Len(c.lits))
Dom(S) == {c \in S : InDomain(c)}

ImapItems ==
    (IF Wide THEN {<<c>> : c \in Dom(One \cup Two)} ELSE {})
    \cup {<<c>> : c \in Dom(Special)}
    \cup (IF Depth >= 2 THEN {<<a, b>> : a \in Dom(Core), b \in Dom(Core)} ELSE {})
    \cup (IF Depth >= 3 THEN {<<a, b, c>> : a \in Dom(Core), b \in Dom(Core), c \in Dom(Core)} ELSE {})

(* ---- rendering and denotation of items -------------------------------- *)
Ann(l) == <<LBR>> \o Digits(l.n) \o (IF l.sync THEN <<>> ELSE <<PLUS>>) \o <<RBR>>
RECURSIVE RenderLits(_, _)
RenderLits(ls, j) == IF j > Len(ls) THEN <<>>
                     ELSE Ann(ls[j]) \o CRLF \o ls[j].data \o ls[j].tail \o RenderLits(ls, j + 1)
Abandoned(c) == c.lits # <<>> /\ c.lits[Len(c.lits)].ab
Render(c) == c.head \o RenderLits(c.lits, 1) \o (IF Abandoned(c) THEN <<>> ELSE CRLF)
RenderAll(cs) == Concat([i \in 1..Len(cs) |-> Render(cs[i])])

RECURSIVE Den(_, _, _, _, _, _)
Den(c, j, acc, sy, ns, k) ==
    IF j > Len(c.lits)
    THEN IF acc = <<>> THEN [ev |-> <<Ev("b", <<>>, k)>>, cl |-> "empty"]
         ELSE IF Size(acc) > MX
              THEN [ev |-> <<Ev("B", <<>>, k)>>, cl |-> IF sy + ns = 0 THEN "over-line" ELSE "over-total"]
              ELSE [ev |-> <<Ev("R", acc, k)>>, cl |-> LitClass(sy, ns)]
    ELSE LET l == c.lits[j] IN
         IF l.n > MX
         THEN [ev |-> <<Ev("B", <<>>, k)>>,
               cl |-> IF l.sync THEN "over-literal-sync" ELSE "over-literal-nonsync"]
         ELSE LET r == Den(c, j + 1, acc \o Ann(l) \o CRLF \o l.data \o l.tail,
                           sy + (IF l.sync THEN 1 ELSE 0), ns + (IF l.sync THEN 0 ELSE 1), k)
              IN [ev |-> (IF l.sync THEN <<Ev("C", <<>>, k)>> ELSE <<>>) \o r.ev, cl |-> r.cl]
DenAll(cs) == LET d == [i \in 1..Len(cs) |-> Den(cs[i], 1, cs[i].head, 0, 0, i)]
              IN [ev |-> Concat([i \in 1..Len(cs) |-> d[i].ev]), cls |-> [i \in 1..Len(cs) |-> d[i].cl]]

(* ---- POP3 lines -------------------------------------------------------- *)
PopLines == {<<85, 32, 120>>, <<82, 32, 123, 53, 125>>, <<>>, <<97, 32, 123, 51, 43, 125>>, Z(70)}
PopItems == {<<a>> : a \in PopLines} \cup {<<a, b>> : a \in PopLines, b \in PopLines}
            \cup (IF Depth >= 3 THEN {<<a, b, c>> : a \in PopLines, b \in PopLines, c \in PopLines} ELSE {})
RenderPop(ls) == Concat([i \in 1..Len(ls) |-> ls[i] \o CRLF])
DenPop(ls) == [ev |-> [i \in 1..Len(ls) |-> IF ls[i] = <<>> THEN Ev("b", <<>>, i) ELSE Ev("R", ls[i], i)],
               cls |-> [i \in 1..Len(ls) |-> IF ls[i] = <<>> THEN "empty" ELSE "plain"]]

(* ---- pseudo-random streams beyond the bounds ---------------------------- *)
Pool == Dom(One \cup Two \cup Special)
RandItems == {[j \in 1..RandLen |-> RandomElement(Pool)] : i \in 1..Rand}

(* ---- response streams (user process -> client) -------------------------- *)
RLine == <<42, 32, 49, 32, 69>>                  \* * 1 E
RTag == <<97, 32, 79, 75>>                       \* a OK
RFetch(data) == <<42, 32, 49, 32, 70, 32, LBR>> \o Digits(Size(data)) \o <<RBR>> \o CRLF \o data
                \o <<41>> \o CRLF
RData == {QR, <<13, 10, 13, 10>>, CmdLike} \cup {Z(r) : r \in RunLens}
         \cup {QR \o CRLF \o Z(r) \o CRLF \o QR : r \in RunLens}
RItem == {RLine \o CRLF, RTag \o CRLF} \cup {RFetch(d) : d \in RData}
         \cup {<<42, 32>> \o Z(r) \o CRLF : r \in RunLens}
RespStreams == RItem \cup {a \o RTag \o CRLF : a \in RItem} \cup {RLine \o CRLF \o a \o b : a \in RItem, b \in {RTag \o CRLF, RFetch(QR)}}
NoDen == [ev |-> <<>>, cls |-> <<>>]

(* ---- the universe ------------------------------------------------------- *)
AllImap == ImapItems \cup RandItems
Universe == [i \in 1..Cardinality(AllImap) |->
                LET cs == SetToSeq(AllImap)[i] IN [proto |-> "imap", s |-> RenderAll(cs), den |-> DenAll(cs)]]
            \o [i \in 1..Cardinality(PopItems) |->
                LET ls == SetToSeq(PopItems)[i] IN [proto |-> "pop3", s |-> RenderPop(ls), den |-> DenPop(ls)]]
            \o [i \in 1..Cardinality(RespStreams) |->
                [proto |-> "resp", s |-> SetToSeq(RespStreams)[i], den |-> NoDen]]
            \o [i \in 1..Cardinality(RespStreams) |->
                [proto |-> "resp-pop3", s |-> SetToSeq(RespStreams)[i], den |-> NoDen]]
N == Len(Universe)
IsResp(i) == Universe[i].proto \in {"resp", "resp-pop3"}
Full == [i \in 1..N |-> IF IsResp(i) THEN Q0 ELSE ExpectOf(Universe[i].proto, Universe[i].s, MX)]

(* interesting cut offsets (in octets, strictly inside the stream): every boundary
   next to CR, LF, a brace, "+", a digit, and the middle of every run *)
IsSpecial(t) == t \in {CR, LF, LBR, RBR, PLUS} \/ IsDigit(t) \/ t < 0
CutsOf(s) == {SizeTo(s, i) : i \in {j \in 1..(Len(s) - 1) : IsSpecial(s[j]) \/ IsSpecial(s[j + 1])}}
             \cup {SizeTo(s, i - 1) + (Sz(s[i]) \div 2) : i \in {j \in 1..Len(s) : s[j] < -1}}
Cuts == [i \in 1..N |-> CutsOf(Universe[i].s)]
Total == [i \in 1..N |-> Size(Universe[i].s)]

ASSUME MX \in 20..100000000
ASSUME ("CASES_OUT" \in DOMAIN IOEnv) =>
          JsonSerialize(IOEnv.CASES_OUT,
                        [i \in 1..N |-> [proto |-> Universe[i].proto, mx |-> MX, s |-> Universe[i].s,
                                         cuts |-> SetToSortSeq(Cuts[i], <)]])

Init == sid \in 1..N /\ fed = 0
Next == /\ fed < Total[sid]
        /\ \E c \in Cuts[sid] \cup {Total[sid]} : c > fed /\ fed' = c
        /\ UNCHANGED sid
Spec == Init /\ [][Next]_<<sid, fed>>

IsPrefixOf(a, b) == Len(a) <= Len(b) /\ SubSeq(b, 1, Len(a)) = a

(* the octet-level tokenizer finds exactly the items (and nothing is ambiguous) *)
AgreesWithItems ==
    fed = Total[sid] /\ ~IsResp(sid) =>
        /\ Full[sid].ev = Universe[sid].den.ev
        /\ Full[sid].cls = Universe[sid].den.cls
        /\ ~Full[sid].amb
        /\ Full[sid].left = <<>>
(* what is decided after a prefix stays decided: segmentation cannot matter *)
PrefixLaw ==
    ~IsResp(sid) =>
    LET P == ExpectOf(Universe[sid].proto, TakeDrop(Universe[sid].s, fed).pre, MX)
    IN /\ IsPrefixOf(P.ev, Full[sid].ev)
       /\ IsPrefixOf(P.cls, Full[sid].cls)
       /\ Size(P.left) <= Total[sid]
(* literal octets are never commands: as many commands come out as items went in,
   and every relayed message is made of octets of its own item only *)
LiteralsOpaque ==
    fed = Total[sid] /\ Universe[sid].proto = "imap" =>
        LET E == Full[sid] IN
        \A i \in 1..Len(E.ev) : E.ev[i].k = "R" => Size(E.ev[i].m) <= MX /\ E.ev[i].m # <<>>
(* the relay of responses, line by line, reproduces the stream *)
RespLaw ==
    IsResp(sid) =>
        LET pre == TakeDrop(Universe[sid].s, fed).pre
            got == Canon(Concat(Lines(pre)))
        IN /\ IsPrefixOf(got, Canon(pre)) \/ Size(got) <= Size(pre)
           /\ fed = Total[sid] => /\ got = Canon(Universe[sid].s)
                                  /\ RespVerdict(Universe[sid].s, [i \in 1..Len(Lines(pre)) |-> Ev("O", Lines(pre)[i], 0)], 100) = {}
                                  /\ RespVerdict(Universe[sid].s, <<Ev("O", RLine, 0)>>, 100) # {}
(* the verdict layer accepts the reference itself and rejects simple corruptions *)
SelfCheck ==
    fed = Total[sid] /\ Universe[sid].proto = "imap" =>
        LET E == Full[sid]
            asObs == [i \in 1..Len(E.ev) |-> IF E.ev[i].k = "b" THEN Ev("B", <<>>, 0) ELSE E.ev[i]]
            rel == {i \in 1..Len(asObs) : asObs[i].k = "R"}
            dropped == IF rel = {} THEN asObs
                       ELSE SubSeq(asObs, 1, SetMin(rel) - 1) \o SubSeq(asObs, SetMin(rel) + 1, Len(asObs))
        IN /\ Verdict(E, asObs) = {}
           /\ Verdict(E, SelectSeq(asObs, LAMBDA e : e.k # "B")) # {} \/ ~\E i \in 1..Len(E.ev) : E.ev[i].k = "B"
           /\ rel # {} => Verdict(E, dropped) # {}
           /\ Verdict(E, Append(asObs, Ev("R", <<120>>, 0))) # {}
=============================================================================
