---------------------------- MODULE FramingTrace ----------------------------
(***************************************************************************)
(* Validation of what the real front-end did against the reference          *)
(* semantics of module Framing.  Input ($TRACE_FILE): a JSON array of cases  *)
(*   [proto |-> "imap" | "pop3" | "resp" | "resp-pop3",                     *)
(*    mx    |-> MAX_INPUT_SIZE in force,                                    *)
(*    limit |-> buffer limit of the relay reader (responses only),          *)
(*    s     |-> the octet stream that was fed (tokens, see Framing),        *)
(*    obs   |-> the distinct observations over all segmentations tried:     *)
(*              [n |-> how many segmentations gave it, ev |-> events])]      *)
(* an event being <<kind, tokens>>: "W" written to the client, "R" pushed    *)
(* to the user process (raw, with its frame), "P" message delivered by the   *)
(* real de-framer IMAPClientProxy.run, "PX" marks that the de-framer was in  *)
(* the loop, "X" connection closed before end of input.                      *)
(* Output: <<"VIOL", case, observation, clause, blamed class>> per failing   *)
(* clause, <<"UNSUP", case>> when the stream is outside the domain, and      *)
(* <<"DONE", case, observations>> for every case.                            *)
(***************************************************************************)
EXTENDS Framing, Json, IOUtils, TLCExt

VARIABLES cid, done

Cases == JsonDeserialize(IOEnv.TRACE_FILE)

Init == cid \in 1..Len(Cases) /\ done = FALSE

Next ==
    /\ ~done
    /\ LET c == Cases[cid]
           isResp == c.proto \in {"resp", "resp-pop3"}
           E == IF isResp THEN Q0 ELSE ExpectOf(c.proto, c.s, c.mx)
           ObsOf(o) == [i \in 1..Len(o.ev) |-> ObsEv(IF isResp THEN "imap" ELSE c.proto, o.ev[i])]
           long == IF ~isResp /\ MaxLine(Lines(c.s), 1) > 65538 THEN "/line>64KiB" ELSE ""
           V(o) == IF isResp THEN RespVerdict(c.s, ObsOf(o), c.limit) ELSE Verdict(E, ObsOf(o))
       IN /\ (E.amb \/ E.left # <<>>) => PrintT(<<"UNSUP", cid>>)
          /\ \A oi \in 1..Len(c.obs) : \A v \in V(c.obs[oi]) : PrintT(<<"VIOL", cid, oi, v[1], v[2] \o long>>)
          /\ PrintT(<<"DONE", cid, Len(c.obs), Len(E.cls)>>)
    /\ done' = TRUE
    /\ UNCHANGED cid

Spec == Init /\ [][Next]_<<cid, done>>
=============================================================================
