----------------------------- MODULE MsgDataMC -----------------------------
(***************************************************************************)
(* Exhaustive part of C16.                                                  *)
(*  - every message shape of MsgData!Shapes is a state (and the whole space *)
(*    is written to $C16_SHAPES_OUT for the harness: spec -> code);         *)
(*  - every octet string over Alphabet of length <= MaxLen is a state on    *)
(*    which the laws of the relations are invariants: slicing, the CRLF     *)
(*    canonical form, header/text split, and that the verdict function      *)
(*    Bad accepts the reference rendering of the string and rejects each    *)
(*    kind of corruption with the clause made for it (non-vacuity).         *)
(***************************************************************************)
EXTENDS MsgData, Json, IOUtils

CONSTANTS MaxLen        \* strings of 0..MaxLen octets over Alphabet

Alphabet == {CR, LF, 97, 58}        \* CR, LF, "a", ":"
Strings == UNION {[1..n -> Alphabet] : n \in 0..MaxLen}

ShapeSeq == SetToSeq(Shapes)
ASSUME ("C16_SHAPES_OUT" \in DOMAIN IOEnv) =>
          JsonSerialize(IOEnv.C16_SHAPES_OUT,
                        [i \in 1..Len(ShapeSeq) |->
                            [eol |-> ShapeSeq[i].eol, final |-> ShapeSeq[i].final, hdr |-> ShapeSeq[i].hdr,
                             body |-> ShapeSeq[i].body, struct |-> ShapeSeq[i].struct,
                             wellformed |-> WellFormedShape(ShapeSeq[i])]])

VARIABLES kind, x
Init == \/ kind = "shape" /\ x \in Shapes
        \/ kind = "str" /\ x \in Strings
Next == UNCHANGED <<kind, x>>
Spec == Init /\ [][Next]_<<kind, x>>

IsStr == kind = "str"
s == x

ShapeSpace ==
    kind = "shape" =>
        /\ x \in Shapes
        /\ Cardinality(Shapes) = 3 * 2 * 6 * 4 * 5
        /\ (~WellFormedShape(x) <=> x.hdr = "eightbit")

---------------------------------------------------------------------------
(* partial ranges around both ends of a literal of L octets *)
Ranges(L) == {<<o, c>> : o \in {0, 1, Max2(L - 2, 0), Max2(L - 1, 0), L, L + 1}, c \in {1, 2, Max2(L, 1), L + 3}}
Rec(str, how) == RefRecord(str, how, Ranges(Len(RefFull(str))))
WithSec(r, nm, b, b2) ==
    [r EXCEPT !.secs = [i \in 1..Len(r.secs) |->
        IF r.secs[i].name = nm
        THEN [r.secs[i] EXCEPT !.a = Item(b), !.b = Item(b2)]
        ELSE r.secs[i]]]

SliceLaws ==
    IsStr =>
        /\ \A o \in 0..(MaxLen + 2), c \in 0..(MaxLen + 2) :
              /\ Len(Slice(s, o, c)) = Max2(0, Min2(c, Len(s) - o))
              /\ \A d \in 0..3 : Slice(s, o, c) \o Slice(s, o + c, d) = Slice(s, o, c + d)
              /\ \A k \in 1..Len(Slice(s, o, c)) : Slice(s, o, c)[k] = s[o + k]
        /\ Slice(s, 0, Len(s)) = s
        /\ Slice(s, 0, Len(s) + 5) = s
        /\ Slice(s, Len(s), 3) = <<>>

RefLaws ==
    IsStr =>
        /\ AllLinesCRLF(RefFull(s)) /\ AllLinesCRLF(RefHeader(s)) /\ AllLinesCRLF(RefText(s))
        /\ RefHeader(s) \o RefText(s) = RefFull(s)
        /\ DeCR(RefFull(s)) = WithSep(DeCR(s))
        /\ RefFull(RefFull(s)) = RefFull(s)
        /\ (AllLinesCRLF(s) /\ BlankAt(DeCR(s)) # 0) => RefFull(s) = s
        /\ SameBodyContent(s, RefText(s))
        /\ (~AllLinesCRLF(s)) \/ ToCRLF(DeCR(s)) = s

OracleAccepts ==
    IsStr =>
        /\ Bad(Rec(s, "append"), Rec(s, "append")) = {}
        /\ Bad(Rec(s, "deliver"), Rec(s, "deliver")) = {}
        /\ Bad(Rec(s, "copy"), Rec(s, "append")) = {}
        /\ Judgeable(Rec(s, "append"))

OracleRejects ==
    IsStr =>
    LET r == Rec(s, "append")
        full == RefFull(s)
        text == RefText(s)
        R == Ranges(Len(full))
        (* a BODY[TEXT] that gets a CRLF of its own (what an empty text forced to CRLF looks like) *)
        text2 == text \o <<CR, LF>>
        s21 == [[r EXCEPT !.rfc_a.text = Item(text2), !.rfc_b.text = Item(text2)]
                  EXCEPT !.secs = <<r.secs[1], r.secs[2], RefSec("TEXT", text2, R)>>]
        (* partial ranges cut from the rendering before it was terminated *)
        unterm == SubSeq(full, 1, Len(full) - 2)
        early == [r EXCEPT !.secs = <<[r.secs[1] EXCEPT !.parts =
                                        SetToSeq({RefPart(unterm, q[1], q[2]) : q \in R})],
                                      r.secs[2], r.secs[3]>>]
        (* size computed from the unterminated rendering *)
        szearly == [r EXCEPT !.rfc_a.size = Len(unterm), !.rfc_b.size = Len(unterm)]
        lfonly == WithSec(r, "", DeCR(full), DeCR(full))
        flaky == WithSec(r, "TEXT", text, Append(text, 97))
        other == Rec(Append(s, 97), "append")
    IN
    /\ Clauses(Bad([r EXCEPT !.rfc_a.size = @ + 1], r)) = {"C16.SizeIsOctetCount", "C16.RepeatIsIdentical"}
    /\ Clauses(Bad(szearly, r)) = {"C16.SizeIsOctetCount"}
    /\ "C16.HeaderThenTextIsBody" \in Clauses(Bad(s21, r))
    /\ text = <<>> => Clauses(Bad(s21, r)) = {"C16.HeaderThenTextIsBody"}
    /\ Clauses(Bad(early, r)) = {"C16.PartialIsSlice"}
    /\ {"C16.LinesEndInCRLF", "C16.Rfc822SameAsBody"} \subseteq Clauses(Bad(lfonly, r))
    /\ Clauses(Bad(flaky, r)) = {"C16.RepeatIsIdentical"}
    /\ "C16.CopyIsIdentical" \in Clauses(Bad([r EXCEPT !.how = "copy"], other))
    /\ Clauses(Bad([r EXCEPT !.rfc_a.header = Item(<<97>>), !.rfc_b.header = Item(<<97>>)], r)) = {"C16.Rfc822SameAsBody"}
    /\ Clauses(Bad([r EXCEPT !.sentFields = <<<<"subject", "a">>, <<"to", "b">>>>,
                             !.fields = <<<<"to", "b">>, <<"subject", "a">>>>], r)) = {}
    /\ Bad([r EXCEPT !.sentFields = <<<<"subject", "a">>, <<"to", "b">>>>,
                      !.fields = <<<<"to", "b">>, <<"subject", "A">>>>,
                      !.sentFieldsNoWS = <<<<"subject", "a">>, <<"to", "b">>>>,
                      !.fieldsNoWS = <<<<"to", "b">>, <<"subject", "A">>>>], r) = {<<"C16.SameHeaderFields", "append:value">>}
    /\ Bad([r EXCEPT !.sentFields = <<<<"subject", "a b">>>>, !.fields = <<<<"subject", "ab">>>>,
                      !.sentFieldsNoWS = <<<<"subject", "ab">>>>, !.fieldsNoWS = <<<<"subject", "ab">>>>], r)
           = {<<"C16.SameHeaderFields", "append:white-space">>}
    /\ Clauses(Bad([r EXCEPT !.sentFields = <<<<"received", "a">>, <<"received", "a">>, <<"received", "b">>>>,
                             !.fields = <<<<"received", "a">>, <<"received", "b">>, <<"received", "b">>>>], r))
           = {"C16.SameHeaderFields"}
    /\ Clauses(Bad([r EXCEPT !.sent = Item(WithSep(DeCR(s)) \o <<97>>)], r)) = {"C16.SameBodyContent"}
    /\ Clauses(Bad([r EXCEPT !.sent = Item(WithSep(DeCR(s)) \o <<97>>), !.wellformed = FALSE], r)) = {}
    /\ Clauses(Bad([r EXCEPT !.opaque = FALSE, !.leaves = <<[ct |-> "text/plain", body |-> Item(<<97>> \o text)]>>], r))
           = {"C16.SameBodyContent"}
    /\ Clauses(Bad([r EXCEPT !.opaque = FALSE, !.leaves = <<[ct |-> "text/html", body |-> Item(text)]>>], r))
           = {"C16.SameBodyContent"}
    /\ Clauses(Bad([r EXCEPT !.opaque = FALSE, !.leaves = r.leaves \o r.leaves], r)) = {"C16.SameBodyContent"}
=============================================================================
