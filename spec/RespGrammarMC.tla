--------------------------- MODULE RespGrammarMC ---------------------------
(***************************************************************************)
(* Sanity of the C07 acceptor (RespGrammar!Step), checked exhaustively:     *)
(*                                                                         *)
(*  Agree   for EVERY token string over the universe's alphabet up to the   *)
(*          bound (after the universe's fixed prefix) the acceptor is in    *)
(*          its accepting state iff the string is a well-formed stream by   *)
(*          a second definition written as a grammar (recursive descent:    *)
(*          nesting by recursion instead of a counter, strings by search,   *)
(*          literals by index arithmetic);                                  *)
(*  Sticky  an error is never left;                                         *)
(*  Rle     run-length compression of the string does not change the       *)
(*          verdict (a token of n octets behaves like n tokens of one).     *)
(*  The explicit good/bad streams (RespGrammar!Vectors) are ASSUMEd.        *)
(*                                                                         *)
(* The module also enumerates the VALUE SHAPES from which the harness       *)
(* builds header values, mailbox names and echoed arguments: all sequences  *)
(* of at most MaxPieces pieces (written to $CASES_OUT).                     *)
(***************************************************************************)
EXTENDS RespGrammar, SequencesExt, Json, IOUtils

CONSTANTS Alphabet, Prefix, Bound, Pieces, MaxPieces
VARIABLES h, st

ASSUME Vectors

(* one-octet tokens; the status words are units *)
tSTAR == T1("STAR")  tPLUS == T1("PLUS")  tSP == T1("SP")  tLP == T1("LP")  tRP == T1("RP")
tDQ == T1("DQ")  tBS == T1("BS")  tLC == T1("LC")  tRC == T1("RC")  tCR == T1("CR")  tLF == T1("LF")
tO == T1("O")  tD0 == Dg(0)  tD1 == Dg(1)  tD2 == Dg(2)  tOK == Al("OK", 1)  tW == Al("W", 1)

A_Framing == {tSTAR, tPLUS, tSP, tOK, tW, tO, tCR, tLF, tDQ}
A_Data    == {tSP, tDQ, tBS, tO, tLP, tRP, tCR, tLF}
A_Literal == {tD0, tD1, tD2, tRC, tCR, tLF, tO, tSP, tRP, tLC}
A_Lit2    == {tD0, tD1, tD2, tRC, tCR, tLF, tO}
P_None == <<>>
P_Lit2 == <<tSTAR, tSP, tLC>>
P_Star == <<tSTAR, tSP, tW, tSP>>
P_Lit  == <<tSTAR, tSP, tLP, tLC>>

---------------------------------------------------------------------------
(* the second definition *)
K(s, i) == IF i >= 1 /\ i <= Len(s) THEN s[i][1] ELSE "EOF"
IsStat(s, i, W) == K(s, i) = "AL" /\ s[i][4] \in W
Follow(s, e) == K(s, e) \in {"SP", "RP", "CR"}

RECURSIVE QEnd(_, _)        \* p: just after the opening quote; result: just after the closing one (0 = none)
QEnd(s, p) == CASE K(s, p) = "DQ" -> p + 1
                [] K(s, p) = "BS" -> IF K(s, p + 1) \in {"DQ", "BS"} THEN QEnd(s, p + 2) ELSE 0
                [] K(s, p) \in {"CR", "LF", "EOF"} -> 0
                [] OTHER -> QEnd(s, p + 1)

IsLitHdr(s, p) == K(s, p) = "LC" /\ K(s, p + 1) = "D" /\ K(s, p + 2) = "RC" /\ K(s, p + 3) = "CR" /\ K(s, p + 4) = "LF"
LitEnd(s, p) == LET e == p + 5 + s[p + 1][3] IN IF e <= Len(s) + 1 THEN e ELSE 0     \* tokens are single octets here

RECURSIVE Items(_, _)       \* items from p on; result: the ")" or CR that stops them (0 = ill-formed)
Items(s, p) ==
    LET k == K(s, p) IN
    CASE k \in {"EOF", "LF"} -> 0
      [] k \in {"CR", "RP"} -> p
      [] k = "DQ" -> LET e == QEnd(s, p + 1) IN IF e # 0 /\ Follow(s, e) THEN Items(s, e) ELSE 0
      [] k = "LC" /\ IsLitHdr(s, p) -> LET e == LitEnd(s, p) IN IF e # 0 /\ Follow(s, e) THEN Items(s, e) ELSE 0
      [] k = "LP" -> LET e == Items(s, p + 1) IN IF e # 0 /\ K(s, e) = "RP" THEN Items(s, e + 1) ELSE 0
      [] OTHER -> Items(s, p + 1)

DataEnd(s, p) == IF K(s, p) \in {"CR", "LF", "EOF"} THEN 0
                 ELSE LET e == Items(s, p) IN IF e # 0 /\ K(s, e) = "CR" /\ K(s, e + 1) = "LF" THEN e + 2 ELSE 0

RECURSIVE TextEnd(_, _)     \* free text from p up to and including CRLF
TextEnd(s, p) == CASE K(s, p) = "CR" -> IF K(s, p + 1) = "LF" THEN p + 2 ELSE 0
                   [] K(s, p) \in {"LF", "EOF"} -> 0
                   [] OTHER -> TextEnd(s, p + 1)

RECURSIVE FirstSP(_, _)
FirstSP(s, p) == CASE K(s, p) = "SP" -> p
                   [] K(s, p) \in {"CR", "LF", "EOF"} -> 0
                   [] OTHER -> FirstSP(s, p + 1)

RespEnd(s, i) ==
    LET k == K(s, i) IN
    CASE k = "PLUS" -> IF K(s, i + 1) \in {"SP", "CR"} THEN TextEnd(s, i + 1) ELSE 0
      [] k = "STAR" -> IF K(s, i + 1) # "SP" THEN 0
                       ELSE IF IsStat(s, i + 2, UStat) /\ K(s, i + 3) \in {"SP", "CR"} THEN TextEnd(s, i + 3)
                       ELSE DataEnd(s, i + 2)
      [] k \in {"SP", "CR", "LF", "EOF"} -> 0
      [] OTHER -> LET p == FirstSP(s, i) IN
                  IF p # 0 /\ IsStat(s, p + 1, TStat) /\ K(s, p + 2) \in {"SP", "CR"} THEN TextEnd(s, p + 2) ELSE 0

RECURSIVE WFfrom(_, _)
WFfrom(s, i) == i = Len(s) + 1 \/ (LET e == RespEnd(s, i) IN e # 0 /\ WFfrom(s, e))
WellFormed(s) == WFfrom(s, 1)

---------------------------------------------------------------------------
(* run-length compression of adjacent tokens of the pure run classes *)
RECURSIVE Compress(_)
Compress(s) ==
    IF Len(s) < 2 THEN s
    ELSE LET r == Compress(Tail(s)) IN
         IF s[1][1] \in RunClasses /\ r[1][1] = s[1][1]
         THEN <<<<s[1][1], s[1][2] + r[1][2], 0, "">>>> \o Tail(r)
         ELSE <<s[1]>> \o r

---------------------------------------------------------------------------
Init == h = Prefix /\ st = Run(Prefix)
Next == /\ Len(h) < Len(Prefix) + Bound
        /\ \E t \in Alphabet : h' = Append(h, t) /\ st' = Step(st, t)
Spec == Init /\ [][Next]_<<h, st>>

Agree == Accepting(st) <=> WellFormed(h)
Sticky == [][st.mode = "ERR" => st'.mode = "ERR" /\ st'.err = st.err]_<<h, st>>
Rle == Final(Run(Compress(h))) = Final(st)
(* non-vacuity of the universe itself: accepting and rejecting strings both occur *)
SomeAccepted == ~(Len(h) > Len(Prefix) /\ Accepting(st))        \* expected to be VIOLATED when checked alone

---------------------------------------------------------------------------
(* value shapes for the harness *)
Shapes == UNION {[1..n -> Pieces] : n \in 1..MaxPieces}
ASSUME ("CASES_OUT" \in DOMAIN IOEnv) => JsonSerialize(IOEnv.CASES_OUT, SetToSeq(Shapes))
=============================================================================
