-------------------------- MODULE RespGrammarTrace --------------------------
(***************************************************************************)
(* Validation of what the real server wrote against RespGrammar.            *)
(* Input ($TRACE_FILE): a JSON array of traces                              *)
(*    [toks |-> the octets written to one client between two quiescent      *)
(*              points, as byte-class tokens <<k, n, v, u>>,                *)
(*     dec  |-> the decode records of that interval (RespGrammar!DecodeBad)]*)
(* The acceptor consumes one token per step.                                *)
(* Output: <<"VIOL", trace, token index, clause, "G">> for the first         *)
(* grammar violation of a trace (token index = length for a stream that     *)
(* ends inside a response), <<"VIOL", trace, record index, clause, "D">>    *)
(* per failing decode record, <<"DONE", trace, tokens>> per trace.          *)
(***************************************************************************)
EXTENDS RespGrammar, Json, IOUtils

VARIABLES tid, pos, st
Traces == JsonDeserialize(IOEnv.TRACE_FILE)
ASSUME Vectors

Init == tid \in 1..Len(Traces) /\ pos = 1 /\ st = S0
Next ==
    LET T == Traces[tid].toks
        N == Len(T)
        D == Traces[tid].dec
    IN \/ /\ pos <= N
          /\ LET s2 == Step(st, T[pos]) IN
             /\ st' = s2
             /\ IF s2.mode = "ERR"
                THEN PrintT(<<"VIOL", tid, pos, s2.err, "G">>) /\ pos' = N + 1
                ELSE pos' = pos + 1
          /\ UNCHANGED tid
       \/ /\ pos = N + 1
          /\ (st.mode \notin {"S", "ERR"} => PrintT(<<"VIOL", tid, N, Final(st), "G">>))
          /\ \A i \in 1..Len(D) : DecodeBad(D[i]) => PrintT(<<"VIOL", tid, i, "C07.DecodeRoundTrip", "D">>)
          /\ PrintT(<<"DONE", tid, N>>)
          /\ pos' = N + 2
          /\ UNCHANGED <<tid, st>>
Spec == Init /\ [][Next]_<<tid, pos, st>>
=============================================================================
