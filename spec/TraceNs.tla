------------------------------ MODULE TraceNs ------------------------------
(* Validation of recorded namespace histories and confinement probes against *)
(* the property layer NsProps (C17, C09).  Input: JSON array of runs (env     *)
(* TRACE_FILE); run = array of events, event 1 = "Init"; every event carries  *)
(* the projected tree after it.                                               *)
EXTENDS NsProps, Json, IOUtils

VARIABLES tid, l
Runs == JsonDeserialize(IOEnv.TRACE_FILE)
R == Runs[tid]

SeqSet(s) == {s[i] : i \in DOMAIN s}
TreeOf(j) == {[name |-> t.name, nosel |-> t.nosel, sub |-> t.sub] : t \in SeqSet(j.db)}
DiskOf(j) == SeqSet(j.disk)

Init == tid \in 1..Len(Runs) /\ l = 2
Next ==
    /\ l <= Len(R)
    /\ LET ev == R[l]
           pre == TreeOf(R[l - 1].tree)
           post == TreeOf(ev.tree)
           listed == {[name |-> x.name, nosel |-> x.nosel, haschildren |-> x.haschildren,
                       hasnochildren |-> x.hasnochildren] : x \in SeqSet(ev.listed)}
           listedSub == {[name |-> x.name, subscribed |-> x.subscribed, childinfo |-> x.childinfo] : x \in SeqSet(ev.listed)}
           recursive == ev.act = "List" /\ ev.sel = "SUBSCRIBED RECURSIVEMATCH"
           bad ==
               (IF ev.probe THEN ConfineBad([escapes |-> Escapes(ev.nm), status |-> ev.status,
                                             outside_changed |-> ev.outside_changed, leaked |-> ev.leaked,
                                             listslot |-> ev.slot \in {"LISTREF", "LISTPAT", "LSUBREF"}])
                ELSE IF ev.act = "Restart" THEN (IF pre \subseteq post THEN {} ELSE {"C17.RestartKeepsTree"})
                ELSE NsStepBad(pre, ev, post))
               \cup (IF recursive /\ ev.status = "OK" THEN RecursiveBad(pre, ev.ref, SeqSet(ev.pats), listedSub)
                     ELSE IF ev.act \in {"List", "Lsub"}
                     THEN ListBad(pre, ev.ref, SeqSet(ev.pats), ev.lsub \/ ev.sel = "SUBSCRIBED", listed, ev.dup)
                     ELSE {})
               \cup (IF ev.act = "List" /\ (recursive \/ ev.sel = "SUBSCRIBED" \/ ev.ret = "SUBSCRIBED") /\ ev.status = "OK"
                     THEN SubAttrBad(pre, listedSub) ELSE {})
               \cup DiskDbBad(DiskOf(ev.tree), post)
       IN /\ \A c \in bad : PrintT(<<"VIOL", tid, l, ev.act, c>>)
          /\ (l = Len(R)) => PrintT(<<"DONE", tid, l>>)
    /\ l' = l + 1 /\ UNCHANGED tid
Spec == Init /\ [][Next]_<<tid, l>>
=============================================================================
