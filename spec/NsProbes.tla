------------------------------ MODULE NsProbes ------------------------------
(* The confinement probe space of C09: every mailbox name of up to MaxComps   *)
(* components over a small alphabet with 0..2 leading slashes, classified by  *)
(* NsProps.Escapes.  TLC prints the set; the harness renders every name in    *)
(* every command slot and encoding.                                           *)
EXTENDS NsProps
CONSTANTS Alphabet, MaxComps
VARIABLE x
Comps == UNION {[1..n -> Alphabet] : n \in 1..MaxComps}
ProbeNames == {[slashes |-> s, comps |-> c] : s \in 0..2, c \in Comps}
(* sanity of the classifier *)
ASSUME Escapes([slashes |-> 0, comps |-> <<"..">>])
ASSUME Escapes([slashes |-> 0, comps |-> <<"a", "..", "..", "b">>])
ASSUME Escapes([slashes |-> 2, comps |-> <<"a">>])
ASSUME ~Escapes([slashes |-> 1, comps |-> <<"a", "..", "b">>])
ASSUME ~Escapes([slashes |-> 1, comps |-> <<"..", "a">>])
ASSUME ~Escapes([slashes |-> 3, comps |-> <<"a">>])
ASSUME Escapes([slashes |-> 1, comps |-> <<"", "a">>])
ASSUME ~Escapes([slashes |-> 0, comps |-> <<"a", "b">>])
ASSUME \A p \in ProbeNames : PrintT(<<"PROBE", p.slashes, p.comps, Escapes(p)>>)
Init == x = 0
Next == x' = x
=============================================================================
