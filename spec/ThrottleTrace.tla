--------------------------- MODULE ThrottleTrace ---------------------------
(***************************************************************************)
(* C18: validation of recorded implementation results against the          *)
(* property layer (verdicts) and the mechanism layer (model drift).        *)
(*                                                                         *)
(* Input: JSON file (env THROTTLE_FILE) holding an array of traces, each   *)
(* an array of events; event 1 is {"act": "Init"}.  Two kinds of traces:   *)
(*                                                                         *)
(* "Unit" events -- one per-transition test of the real check_allow /      *)
(*   login_failed: the pre-state (failure history gu, ga = [s, l, age] and *)
(*   table entries tu, ta = [c, age]) was installed, the real functions    *)
(*   were called as the login path calls them, and `allowed', the entries  *)
(*   afterwards (ptu, pta) and whether all other entries were left alone   *)
(*   (`others') were recorded.                                             *)
(*                                                                         *)
(* "Attempt" / "Cmd" events -- end-to-end through the IMAP and POP3 front  *)
(*   ends: time t, connection, user name, address, whether the credentials *)
(*   were good, the outcome, whether the user process was contacted, and   *)
(*   whether the gate to the user process is open afterwards.  TLC carries *)
(*   the failure history (gu, ga), the mechanism's tables (mu, ma) and the *)
(*   set of connections that have authenticated.                           *)
(*                                                                         *)
(* Output: <<"VIOL", tid, line, act, clause>>, <<"DRIFT", tid, line,       *)
(* field>>, <<"DONE", tid, lines>>.                                        *)
(***************************************************************************)
EXTENDS ThrottleDefs, Sequences, Json, IOUtils, TLC, TLCExt

VARIABLES tid, l, gu, ga, mu, ma, authed

Traces == JsonDeserialize(IOEnv.THROTTLE_FILE)
Tr == Traces[tid]

Empty == [k \in {} |-> 0]

GGet(f, k, t) == IF k \in DOMAIN f
                 THEN [s |-> f[k].s, l |-> f[k].l, age |-> t - f[k].at] ELSE GNone
GPut(g, t) == [s |-> g.s, l |-> g.l, at |-> t - g.age]
TGet(f, k, t) == IF k \in DOMAIN f /\ f[k].c > 0
                 THEN [c |-> f[k].c, age |-> t - f[k].at] ELSE TNone
TPut(e, t) == [c |-> e.c, at |-> t - e.age]
Upd(f, k, v) == [x \in DOMAIN f \cup {k} |-> IF x = k THEN v ELSE f[x]]

GOf(j) == [s |-> j[1], l |-> j[2], age |-> j[3]]
TOf(j) == IF j[1] = 0 THEN TNone ELSE [c |-> j[1], age |-> j[2]]

Init ==
    /\ tid \in 1..Len(Traces)
    /\ l = 2
    /\ gu = Empty /\ ga = Empty /\ mu = Empty /\ ma = Empty
    /\ authed = {}

UnitStep(e) ==
    LET g1 == GOf(e.gu)
        g2 == GOf(e.ga)
        t1 == TOf(e.tu)
        t2 == TOf(e.ta)
        out == IF ~e.allowed THEN "refused" ELSE IF e.good THEN "ok" ELSE "failed"
        mout == MOut(t1, t2, e.good)
        bad == AttemptClauses(g1, g2, e.good, out)
        drift == (IF out # mout THEN {"verdict"} ELSE {})
                 \cup (IF out = mout /\ TOf(e.ptu) # MPost(t1, mout) THEN {"user-entry"} ELSE {})
                 \cup (IF out = mout /\ TOf(e.pta) # MPost(t2, mout) THEN {"addr-entry"} ELSE {})
                 \cup (IF ~e.others THEN {"other-entries"} ELSE {})
    IN /\ \A c \in bad : PrintT(<<"VIOL", tid, l, "Unit", c>>)
       /\ \A d \in drift : PrintT(<<"DRIFT", tid, l, d>>)
       /\ UNCHANGED <<gu, ga, mu, ma, authed>>

AttemptStep(e) ==
    LET t == e.t
        g1 == GGet(gu, e.u, t)
        g2 == GGet(ga, e.a, t)
        t1 == TGet(mu, e.u, t)
        t2 == TGet(ma, e.a, t)
        was == e.conn \in authed
        mout == MOutP(t1, t2, e.good, e.proto, e.cred)
        bad == AttemptClauses(g1, g2, e.good, e.out)
               \cup AccessClauses(was, e.out, e.contact, e.gate)
        p1 == MPostP(t1, mout)
        p2 == MPostP(t2, mout)
        drift == (IF e.out # mout THEN {"verdict"} ELSE {})
                 \cup (IF e.out = mout /\ TOf(e.tu) # p1 THEN {"user-entry"} ELSE {})
                 \cup (IF e.out = mout /\ TOf(e.ta) # p2 THEN {"addr-entry"} ELSE {})
    IN /\ \A c \in bad : PrintT(<<"VIOL", tid, l, "Attempt", c>>)
       /\ \A d \in drift : PrintT(<<"DRIFT", tid, l, d>>)
       /\ gu' = IF e.out = "failed" THEN Upd(gu, e.u, GPut(GFail(g1), t)) ELSE gu
       /\ ga' = IF e.out = "failed" THEN Upd(ga, e.a, GPut(GFail(g2), t)) ELSE ga
       /\ mu' = Upd(mu, e.u, TPut(p1, t))
       /\ ma' = Upd(ma, e.a, TPut(p2, t))
       /\ authed' = IF e.out = "ok" THEN authed \cup {e.conn} ELSE authed

CmdStep(e) ==
    LET bad == AccessClauses(e.conn \in authed, "other", e.contact, e.gate)
    IN /\ \A c \in bad : PrintT(<<"VIOL", tid, l, "Cmd", c>>)
       /\ UNCHANGED <<gu, ga, mu, ma, authed>>

Next ==
    /\ l <= Len(Tr)
    /\ LET e == Tr[l]
       IN /\ CASE e.act = "Unit" -> UnitStep(e)
               [] e.act = "Attempt" -> AttemptStep(e)
               [] OTHER -> CmdStep(e)
          /\ (l = Len(Tr)) => PrintT(<<"DONE", tid, l>>)
    /\ l' = l + 1
    /\ UNCHANGED tid

Spec == Init /\ [][Next]_<<tid, l, gu, ga, mu, ma, authed>>
=============================================================================
