----------------------------- MODULE TraceMail -----------------------------
(***************************************************************************)
(* Trace validation of recorded executions of the implementation against   *)
(* the property layer (MailProps).  Input: a JSON file (env TRACE_FILE)     *)
(* holding an array of traces; each trace is an array of events, event 1    *)
(* being "Init".  Every event carries the full projected state after it     *)
(* (`st`) and the index `env` of the first event of its command envelope,   *)
(* so validation is step-local; the history variables (per-session views,   *)
(* UIDVALIDITY history, the agent's delivery ledger) are carried by TLC.    *)
(*                                                                         *)
(* Verdicts are printed, one line per failing clause:                       *)
(*     <<"VIOL", tid, line, act, clause>>                                   *)
(* and <<"DONE", tid, lines>> when a trace has been consumed completely.    *)
(***************************************************************************)
EXTENDS MailProps, Json, IOUtils, TLCExt

VARIABLES tid, l, view, vvh, agent, fv

Traces == JsonDeserialize(IOEnv.TRACE_FILE)

MsgOf(t) == [key |-> t[1], uid |-> t[2], id |-> t[3], d |-> t[4], fl |-> SeqToSet(t[5])]
MbOf(j) == [vv |-> j.vv, next |-> j.next,
            msgs |-> [i \in DOMAIN j.msgs |-> MsgOf(j.msgs[i])],
            files |-> {<<f[1], f[2]>> : f \in SeqToSet(j.files)},
            fseq |-> {<<f[1], f[2]>> : f \in SeqToSet(j.fseq)},
            nosel |-> j.nosel, sub |-> j.sub, active |-> j.active]
SsOf(j) == [sel |-> j.sel, ro |-> j.ro, idle |-> j.idle,
            pend |-> [i \in DOMAIN j.pend |-> <<j.pend[i][1], j.pend[i][2]>>],
            open |-> j.open]
StOf(j) == [mb |-> [m \in DOMAIN j.mb |-> MbOf(j.mb[m])],
            ss |-> [s \in DOMAIN j.ss |-> SsOf(j.ss[s])]]
ItemOf(j) == [j EXCEPT !.fl = SeqToSet(j.fl)]
EvOf(j) == [j EXCEPT !.out = [s \in DOMAIN j.out |->
                                 [i \in DOMAIN j.out[s] |-> ItemOf(j.out[s][i])]],
                     !.out0 = [s \in DOMAIN j.out0 |->
                                 [i \in DOMAIN j.out0[s] |-> ItemOf(j.out0[s][i])]]]

Tr == Traces[tid]

Init ==
    /\ tid \in 1..Len(Traces)
    /\ l = 2
    /\ view = [s \in DOMAIN Traces[tid][1].st.ss |-> <<>>]
    /\ vvh = VvHist(StOf(Traces[tid][1].st), {})
    /\ agent = {}
    /\ fv = [s \in DOMAIN Traces[tid][1].st.ss |-> {}]

ViewOf(s) == IF s \in DOMAIN view THEN view[s] ELSE <<>>
FvOf(s) == IF s \in DOMAIN fv THEN fv[s] ELSE {}

Next ==
    /\ l <= Len(Tr)
    /\ LET j == Tr[l]
           ev == EvOf(j)
           post == StOf(j.st)
           pre == StOf(Tr[j.pre].st)
           c01 == [s \in DOMAIN post.ss |->
                      IF s \in DOMAIN ev.out THEN C01_Step(s, ViewOf(s), ev, post)
                      ELSE [v |-> ViewOf(s), bad |-> {}]]
           c04f == [s \in DOMAIN post.ss |->
                      IF s \in DOMAIN ev.out THEN C04_Fv(s, FvOf(s), ev, post)
                      ELSE [fv |-> FvOf(s), bad |-> {}]]
           dl == SeqToSet(ev.delivered)
           ag2 == {g \in agent : ~\E d \in dl : g[1] = ev.mbox /\ g[2] = d[1]}
                  \cup {<<ev.mbox, d[1], d[2], d[3]>> : d \in dl}
           bad == UNION {c01[s].bad : s \in DOMAIN post.ss}
                  \cup UNION {c04f[s].bad : s \in DOMAIN post.ss}
                  \cup C0203_Step(pre, ev, post)
                  \cup C02_Vv(pre, ev, post, vvh)
                  \cup C03_Rename(pre, ev, post)
                  \cup C03_Fetched(pre, ev, post)
                  \cup C04_Step(pre, ev, post)
                  \cup C05_Step(pre, ev, post)
                  \cup C13_Step(pre, ev, post, ag2)
                  \cup C13_Announced(pre, ev, post)
                  \cup C12_Step(pre, ev, post)
       IN /\ view' = [s \in DOMAIN post.ss |-> c01[s].v]
          /\ fv' = [s \in DOMAIN post.ss |-> c04f[s].fv]
          /\ vvh' = VvHist(post, vvh)
          /\ agent' = ag2
          /\ \A c \in bad : PrintT(<<"VIOL", tid, l, ev.act, c>>)
          /\ (l = Len(Tr)) => PrintT(<<"DONE", tid, l>>)
    /\ l' = l + 1
    /\ UNCHANGED tid

Spec == Init /\ [][Next]_<<tid, l, view, vvh, agent, fv>>
=============================================================================
