------------------------------ MODULE Throttle ------------------------------
(***************************************************************************)
(* C18 protocol model: timed authentication attempts (IMAP LOGIN, POP3     *)
(* USER/PASS) from several user names and client addresses against the     *)
(* two throttle tables of asimap/throttle.py, a discretised clock, and     *)
(* the other commands a client may send before it has logged in.           *)
(*                                                                         *)
(* Every (protocol, address) pair stands for one connection that has not   *)
(* authenticated yet; a connection that authenticated (or was closed by    *)
(* the server) is replaced by a fresh one, because what a connection may   *)
(* do after a successful login is not the subject of C18.                  *)
(*                                                                         *)
(* Ages are kept relative to the clock and capped at Purge + 1 (all the    *)
(* definitions only compare them with Purge), so the state graph is        *)
(* finite and TLC explores ALL timed sequences over the integer clock.     *)
(*                                                                         *)
(* `last' describes the transition just taken (it is what the replay       *)
(* driver executes on the implementation); it is outside the VIEW.         *)
(***************************************************************************)
EXTENDS ThrottleDefs, TLC

CONSTANTS Users,      \* user names offered by clients
          Disabled,   \* subset of Users: accounts with an unusable password
          Unknown,    \* subset of Users: names without an account
          Addrs,      \* client addresses
          Protos,     \* subset of {"imap", "pop3"}
          Creds,      \* subset of {"good", "wrong", "empty"}
          Steps,      \* clock increments (positive integers)
          NCmds       \* number of other pre-authentication commands

VARIABLES tu, ta,     \* mechanism: tables user -> [c, age], addr -> [c, age]
          gu, ga,     \* property layer: failure records per user / address
          last

vars == <<tu, ta, gu, ga, last>>
CoreView == <<tu, ta, gu, ga>>

Cap == Purge + 1
CapT(t) == IF t.age > Cap THEN [t EXCEPT !.age = Cap] ELSE t

Good(u, cred) == u \notin Disabled /\ u \notin Unknown /\ cred = "good"

NoEv == [act |-> "Init", d |-> 0, proto |-> "", u |-> "", a |-> "", cred |-> "",
         good |-> FALSE, out |-> "", cmd |-> 0]

Init ==
    /\ tu = [u \in Users |-> TNone]
    /\ ta = [a \in Addrs |-> TNone]
    /\ gu = [u \in Users |-> GNone]
    /\ ga = [a \in Addrs |-> GNone]
    /\ last = NoEv

Tick(d) ==
    /\ tu' = [u \in Users |-> CapT(TAdvance(tu[u], d))]
    /\ ta' = [a \in Addrs |-> CapT(TAdvance(ta[a], d))]
    /\ gu' = [u \in Users |-> CapT(GAdvance(gu[u], d))]
    /\ ga' = [a \in Addrs |-> CapT(GAdvance(ga[a], d))]
    /\ last' = [NoEv EXCEPT !.act = "Tick", !.d = d]

Attempt(p, u, a, cred) ==
    LET good == Good(u, cred)
        out  == MOutP(tu[u], ta[a], good, p, cred)
    IN /\ tu' = [tu EXCEPT ![u] = MPostP(@, out)]
       /\ ta' = [ta EXCEPT ![a] = MPostP(@, out)]
       /\ gu' = [gu EXCEPT ![u] = GAfter(@, out)]
       /\ ga' = [ga EXCEPT ![a] = GAfter(@, out)]
       /\ last' = [NoEv EXCEPT !.act = "Attempt", !.proto = p, !.u = u, !.a = a,
                               !.cred = cred, !.good = good, !.out = out]

(* Any other command before login: nothing changes, nobody is contacted.    *)
Cmd(p, a, c) ==
    /\ UNCHANGED <<tu, ta, gu, ga>>
    /\ last' = [NoEv EXCEPT !.act = "Cmd", !.proto = p, !.a = a, !.cmd = c]

Next ==
    \/ \E d \in Steps : Tick(d)
    \/ \E p \in Protos, u \in Users, a \in Addrs, cred \in Creds : Attempt(p, u, a, cred)
    \/ \E p \in Protos, a \in Addrs, c \in 1..NCmds : Cmd(p, a, c)

Spec == Init /\ [][Next]_vars

-----------------------------------------------------------------------------
TypeOK ==
    /\ \A u \in Users : tu[u].c \in 0..(MaxUser + 1) /\ tu[u].age \in 0..Cap
    /\ \A a \in Addrs : ta[a].c \in 0..(MaxAddr + 1) /\ ta[a].age \in 0..Cap

(* the mechanism's tables are linked to the failure history                 *)
Link ==
    /\ \A u \in Users : LinkEntry(tu[u], gu[u], MaxUser)
    /\ \A a \in Addrs : LinkEntry(ta[a], ga[a], MaxAddr)

(* The property clauses, on every transition of the model.                  *)
StepOK ==
    /\ (last'.act = "Attempt") =>
          (AttemptClauses(gu[last'.u], ga[last'.a], last'.good, last'.out) = {}
           /\ AccessClauses(FALSE, last'.out, last'.out = "ok", last'.out = "ok") = {})
    /\ (last'.act = "Cmd") => (AccessClauses(FALSE, "other", FALSE, FALSE) = {})
P_C18 == [][StepOK]_vars

(* The clauses by name, as in the design.                                   *)
LockedOut == [][(last'.act = "Attempt" /\ MustRefuse(gu[last'.u], ga[last'.a]))
                  => last'.out \notin {"ok", "failed"}]_vars
ReleasedAndBelow == [][(last'.act = "Attempt" /\ ~MayRefuse(gu[last'.u], ga[last'.a]))
                  => last'.out # "refused"]_vars
WrongNeverAuthenticates == [][(last'.act = "Attempt" /\ last'.out = "ok")
                  => last'.good]_vars

(* Non-vacuity witnesses: each of these is EXPECTED to be violated.          *)
W_NoUserLock == \A u \in Users : ~Must1(gu[u], MaxUser)
W_NoAddrLock == \A a \in Addrs : ~Must1(ga[a], MaxAddr)
W_NoOpenInstant == \A u \in Users : gu[u].s = gu[u].l
W_NoRelease == [][~(last'.act = "Attempt" /\ Over(gu[last'.u], ga[last'.a])
                    /\ last'.out = "ok")]_vars
=============================================================================
