------------------------------ MODULE Pop3Props ------------------------------
(***************************************************************************)
(* Property layer of C20: "a POP3 session is a stable snapshot and deletes  *)
(* only on QUIT".                                                           *)
(*                                                                         *)
(* The oracle works on *events*.  An event is what a client (and an IMAP    *)
(* observer) can see of one step of a history:                              *)
(*                                                                         *)
(*   act    "Open" | "Stat" | "List" | "ListN" | "Uidl" | "UidlN" | "Retr"  *)
(*          | "Top" | "Dele" | "Rset" | "Noop" | "Bad" | "Quit" | "Drop"    *)
(*          | "Imap" (any IMAP-side / external step) | "Tick" (time passes) *)
(*   n, k   the numeric arguments (message number, TOP line count)          *)
(*   st     "ok" (+OK) | "err" (-ERR) | "other" (neither / no CRLF) |       *)
(*          "none" (nothing was sent)                                       *)
(*   nums   the decimal numbers of the status line, in order                *)
(*   lines  multi-line replies: the lines after the status line as octet    *)
(*          sequences, *as sent* (still dot-stuffed), up to and including   *)
(*          the first line consisting of a single "."                       *)
(*   term   such a line was found                                           *)
(*   extra  octets the server sent after the end of the reply as a client   *)
(*          reads it (after the status line of a single-line reply, after   *)
(*          the terminator of a multi-line one, or an unterminated rest)    *)
(*   pairs  LIST/UIDL: the payload lines read as <<number, value>>          *)
(*          (<<-1,-1>> for a line that is not "digits SP digits")           *)
(*   closed the server closed the connection during the step                *)
(*   pre, post   INBOX as an IMAP session sees it before / after the step:  *)
(*          sequence of [uid, id] (id = identity of the message text)       *)
(*   kmap, kpost  context only, never part of a verdict: the <<uid, MH file  *)
(*          number>> pairs of INBOX before / after the step                  *)
(*                                                                         *)
(* The same definitions judge the steps of the abstract server of module    *)
(* Pop3 (exhaustively, TLC) and the recorded steps of the real server       *)
(* (module Pop3Trace).  `cat` is the catalogue of message texts:            *)
(*   cat[id] = [hdr |-> header lines, idx |-> index of the line in hdr that *)
(*              is unique to the message, shapes |-> body line shapes,      *)
(*              raw |-> further body lines given as octets]                 *)
(***************************************************************************)
EXTENDS Integers, Sequences, FiniteSets, TLC

DOT == 46
CR == 13
LF == 10

Shapes == {"dot", "dotdot", "dotx", "x", "empty"}
ShapeOct(s) == CASE s = "dot"    -> <<DOT>>
                 [] s = "dotdot" -> <<DOT, DOT>>
                 [] s = "dotx"   -> <<DOT, 120>>
                 [] s = "x"      -> <<120>>
                 [] s = "empty"  -> <<>>
                 [] OTHER        -> <<63>>

Range(f) == {f[i] : i \in DOMAIN f}

---------------------------------------------------------------------------
(* RFC 1939 section 3: byte-stuffing of multi-line replies                  *)
Stuff(l)   == IF Len(l) > 0 /\ l[1] = DOT THEN <<DOT>> \o l ELSE l
Unstuff(l) == IF Len(l) > 0 /\ l[1] = DOT THEN Tail(l) ELSE l
StuffAll(ls)   == [i \in 1..Len(ls) |-> Stuff(ls[i])]
UnstuffAll(ls) == [i \in 1..Len(ls) |-> Unstuff(ls[i])]

RECURSIVE OctetsFrom(_, _)
OctetsFrom(ls, i) == IF i > Len(ls) THEN 0 ELSE Len(ls[i]) + 2 + OctetsFrom(ls, i + 1)
Octets(ls) == OctetsFrom(ls, 1)          \* every line travels with its CRLF

RECURSIVE NonEmptyFrom(_, _)
NonEmptyFrom(ls, i) == IF i > Len(ls) THEN <<>>
                       ELSE (IF ls[i] = <<>> THEN <<>> ELSE <<ls[i]>>) \o NonEmptyFrom(ls, i + 1)
NonEmpty(ls) == NonEmptyFrom(ls, 1)
IsPrefix(a, b) == Len(a) <= Len(b) /\ SubSeq(b, 1, Len(a)) = a

(* What a client reading a multi-line reply makes of the lines that follow  *)
(* the status line: it stops at the first line that is a lone ".".          *)
FirstTerm(ls) == IF \E i \in 1..Len(ls) : ls[i] = <<DOT>>
                 THEN CHOOSE i \in 1..Len(ls) : ls[i] = <<DOT>> /\ \A j \in 1..(i - 1) : ls[j] # <<DOT>>
                 ELSE 0
ReadMulti(ls) == LET t == FirstTerm(ls) IN
                 IF t = 0 THEN [lines |-> ls, term |-> FALSE, extra |-> 0]
                 ELSE [lines |-> SubSeq(ls, 1, t), term |-> TRUE,
                       extra |-> Octets(SubSeq(ls, t + 1, Len(ls)))]

---------------------------------------------------------------------------
(* message texts                                                           *)
Body(m)   == [i \in 1..Len(m.shapes) |-> ShapeOct(m.shapes[i])] \o m.raw
Canon(m)  == m.hdr \o << <<>> >> \o Body(m)      \* the lines of the message
IdLine(m) == m.hdr[m.idx]
IdsIn(cat, ls) == {i \in 1..Len(cat) : \E j \in 1..Len(ls) : ls[j] = IdLine(cat[i])}

---------------------------------------------------------------------------
(* history carried along a session                                          *)
(*   phase  "pre" | "open" | "closed"                                       *)
(*   snap   INBOX at the moment the session was opened: number |-> [uid,id] *)
(*   marks  numbers DELEted (answered +OK) since the last RSET              *)
(*   sz     number |-> set of sizes STAT/LIST have announced for it         *)
(*   rd     number |-> set of octet counts RETR has delivered for it         *)
H0 == [phase |-> "pre", snap |-> <<>>, marks |-> {}, sz |-> <<>>, rd |-> <<>>, kmap |-> <<>>]

L(h) == Len(h.snap)
Unmarked(h) == {n \in 1..L(h) : n \notin h.marks}
InBox(box, x) == \E i \in 1..Len(box) : box[i].uid = x.uid /\ box[i].id = x.id
Present(h, e, n) == InBox(e.pre, h.snap[n])          \* n in 1..L(h)
Owed(h, e) == {n \in Unmarked(h) : Present(h, e, n)} \* messages the session must still serve
Known(h, n) == h.sz[n] # {}
Num(e, i) == IF Len(e.nums) >= i THEN e.nums[i] ELSE -1

Payload(e)   == IF e.term THEN SubSeq(e.lines, 1, Len(e.lines) - 1) ELSE e.lines
Delivered(e) == UnstuffAll(Payload(e))
PairNums(e)  == {e.pairs[i][1] : i \in 1..Len(e.pairs)}
Pop3Acts == {"Stat", "List", "ListN", "Uidl", "UidlN", "Retr", "Top", "Dele", "Rset", "Noop", "Bad"}
Multi(e) == e.act \in {"List", "Uidl", "Retr", "Top"} /\ e.st = "ok"

RECURSIVE SumSz(_, _)
SumSz(h, S) == IF S = {} THEN 0
               ELSE LET n == CHOOSE x \in S : TRUE
                    IN (CHOOSE s \in h.sz[n] : TRUE) + SumSz(h, S \ {n})

SameBox(a, b) == Len(a) = Len(b) /\ \A i \in 1..Len(a) : a[i].uid = b[i].uid /\ a[i].id = b[i].id
RemovedUids(e) == {e.pre[i].uid : i \in {j \in 1..Len(e.pre) : ~InBox(e.post, e.pre[j])}}
AddedAny(e) == \E i \in 1..Len(e.post) : ~InBox(e.pre, e.post[i])

---------------------------------------------------------------------------
(* the clauses                                                              *)

(* Framing: the reply is a status line; a multi-line reply is terminated    *)
(* by CRLF "." CRLF exactly once and nothing follows; no line contains a    *)
(* bare CR or LF.                                                           *)
FramingBad(e) ==
    \/ e.st = "other"
    \/ (e.st \in {"ok", "err"} /\
        IF Multi(e) THEN ~e.term \/ e.extra # 0 ELSE e.lines # <<>> \/ e.extra # 0)
    \/ \E i \in 1..Len(e.lines) : CR \in Range(e.lines[i]) \/ LF \in Range(e.lines[i])

(* the numbers a listing may and must contain *)
ListedOK(h, e) ==
    /\ Len(e.pairs) = Len(Payload(e))
    /\ \A i \in 1..Len(e.pairs) : \A j \in 1..Len(e.pairs) : i < j => e.pairs[i][1] < e.pairs[j][1]
    /\ PairNums(e) \subseteq 1..L(h)
    /\ Owed(h, e) \subseteq PairNums(e)

(* STAT: the count is that of the messages not marked (messages removed     *)
(* meanwhile may or may not be counted, marked ones too: see the readings); *)
(* the total is the sum of the sizes the session has listed for them.       *)
StatCountOK(h, e) ==
    /\ Len(e.nums) = 2
    /\ Cardinality(Owed(h, e)) <= Num(e, 1) /\ Num(e, 1) <= L(h)
StatTotalOK(h, e) ==
    LET c == Num(e, 1)  t == Num(e, 2)
        U == Unmarked(h)  A == 1..L(h) IN
    (c = Cardinality(U) \/ c = L(h)) =>
          \E S \in {U, A} : c = Cardinality(S) /\ ((\A n \in S : Known(h, n)) => t = SumSz(h, S))

(* the set of violated clauses of one step *)
StepBad(cat, h, e) ==
  IF e.act = "Open" \/ e.act = "Imap" THEN {}
  ELSE IF e.act = "Tick"
  THEN (IF RemovedUids(e) # {} THEN {"C20.DeleOnlyAtQuit"} ELSE {})
  ELSE IF h.phase # "open" THEN {}
  ELSE IF e.act = "Drop"
  THEN (IF ~SameBox(e.pre, e.post) THEN {"C20.RsetDropKeepAll"} ELSE {})
  ELSE IF e.act = "Quit"
  THEN LET want == {h.snap[n].uid : n \in h.marks} \cap {e.pre[i].uid : i \in 1..Len(e.pre)} IN
       (IF e.st # "none" /\ FramingBad(e) THEN {"C20.Framing"} ELSE {})
       \cup (IF AddedAny(e) \/ ~(RemovedUids(e) \subseteq want)
                \/ (e.st = "ok" /\ RemovedUids(e) # want)
             THEN {"C20.QuitRemovesExactlyMarked"} ELSE {})
  ELSE IF e.st = "none"      \* the server had closed the connection: only the INBOX is looked at
  THEN (IF ~SameBox(e.pre, e.post) THEN {"C20.DeleOnlyAtQuit"} ELSE {})
  ELSE \* a command in TRANSACTION state
    LET inr  == e.n \in 1..L(h)
        owed == inr /\ e.n \in Owed(h, e)
        P    == Payload(e)
        M    == Delivered(e)
        d    == Octets(M)
    IN
    (IF FramingBad(e) THEN {"C20.Framing"} ELSE {})
    \cup (IF ~SameBox(e.pre, e.post) THEN {"C20.DeleOnlyAtQuit"} ELSE {})
    \cup
    (CASE e.act = "Stat" ->
            (IF e.st # "ok" THEN {"C20.Served"}
             ELSE IF ~StatCountOK(h, e) THEN {"C20.ListingStable"}
             ELSE IF ~StatTotalOK(h, e) THEN {"C20.SizeAgrees"} ELSE {})
       [] e.act = "List" ->
            (IF e.st # "ok" THEN {"C20.Served"}
             ELSE (IF ~ListedOK(h, e) THEN {"C20.ListingStable"} ELSE {})
                  \cup (IF \E i \in 1..Len(e.pairs) : e.pairs[i][1] \in 1..L(h) /\ Known(h, e.pairs[i][1])
                                                       /\ e.pairs[i][2] \notin h.sz[e.pairs[i][1]]
                        THEN {"C20.ListingStable"} ELSE {})
                  \cup (IF \E i \in 1..Len(e.pairs) : e.pairs[i][1] \in Owed(h, e) /\ h.rd[e.pairs[i][1]] # {}
                                                       /\ e.pairs[i][2] \notin h.rd[e.pairs[i][1]]
                        THEN {"C20.SizeAgrees"} ELSE {}))
       [] e.act = "ListN" ->
            (IF e.st = "ok"
             THEN (IF ~inr \/ Num(e, 1) # e.n \/ Len(e.nums) # 2 THEN {"C20.ListingStable"}
                   ELSE (IF Known(h, e.n) /\ Num(e, 2) \notin h.sz[e.n] THEN {"C20.ListingStable"} ELSE {})
                        \cup (IF owed /\ h.rd[e.n] # {} /\ Num(e, 2) \notin h.rd[e.n] THEN {"C20.SizeAgrees"} ELSE {}))
             ELSE IF owed THEN {"C20.Served"} ELSE {})
       [] e.act = "Uidl" ->
            (IF e.st # "ok" THEN {"C20.Served"}
             ELSE (IF ~ListedOK(h, e) THEN {"C20.ListingStable"} ELSE {})
                  \cup (IF \E i \in 1..Len(e.pairs) : e.pairs[i][1] \in 1..L(h)
                                                       /\ e.pairs[i][2] # h.snap[e.pairs[i][1]].uid
                        THEN {"C20.UidlIsImapUid"} ELSE {}))
       [] e.act = "UidlN" ->
            (IF e.st = "ok"
             THEN (IF ~inr \/ Num(e, 1) # e.n \/ Len(e.nums) # 2 THEN {"C20.ListingStable"}
                   ELSE IF Num(e, 2) # h.snap[e.n].uid THEN {"C20.UidlIsImapUid"} ELSE {})
             ELSE IF owed THEN {"C20.Served"} ELSE {})
       [] e.act = "Retr" ->
            (IF e.st = "ok"
             THEN (IF ~inr \/ IdsIn(cat, M) # {h.snap[e.n].id} THEN {"C20.RetrIsSnapshotMessage"}
                   ELSE (IF ~IsPrefix(StuffAll(Canon(cat[h.snap[e.n].id])), P) THEN {"C20.DotStuffed"} ELSE {}))
                  \cup (IF Num(e, 1) # d \/ (inr /\ Known(h, e.n) /\ d \notin h.sz[e.n])
                        THEN {"C20.SizeAgrees"} ELSE {})
             ELSE IF owed THEN {"C20.Served"} ELSE {})
       [] e.act = "Top" ->
            (IF e.st = "ok"
             THEN (IF ~inr \/ IdsIn(cat, M) # {h.snap[e.n].id} THEN {"C20.RetrIsSnapshotMessage"}
                   ELSE IF ~IsPrefix(NonEmpty(M), NonEmpty(Canon(cat[h.snap[e.n].id])))
                   THEN {"C20.DotStuffed"} ELSE {})
             ELSE IF owed /\ e.k >= 0 THEN {"C20.Served"} ELSE {})
       [] e.act = "Dele" -> (IF e.st # "ok" /\ owed THEN {"C20.Served"} ELSE {})
       [] e.act \in {"Rset", "Noop"} -> (IF e.st # "ok" THEN {"C20.Served"} ELSE {})
       [] e.act = "Bad" -> (IF e.st = "ok" THEN {"C20.BadCommandRefused"} ELSE {})
       [] OTHER -> {"C20.UnknownEvent"})

(* a discriminating signature of the context of a violated clause:          *)
(*  - a RETR that announces the size of a message and sends exactly that    *)
(*    message followed by one empty line before the terminator;             *)
(*  - the folder (messages or their MH file numbers) is no longer what it   *)
(*    was when the snapshot was taken.                                      *)
Sig(cat, h, e, c) ==
    LET extra == /\ e.act = "Retr" /\ c = "C20.SizeAgrees" /\ e.st = "ok"
                 /\ \E i \in 1..Len(cat) : /\ Payload(e) = StuffAll(Canon(cat[i])) \o << <<>> >>
                                            /\ Num(e, 1) = Octets(Canon(cat[i]))
        moved == h.phase = "open" /\ e.kmap # h.kmap
    IN e.act \o (IF extra THEN "/extra-empty-line-before-terminator" ELSE "")
             \o (IF moved THEN "/folder-changed-since-snapshot" ELSE "")

(* the history after the step *)
Advance(h, e) ==
    IF e.act = "Open"
    THEN [phase |-> "open", snap |-> e.pre, marks |-> {}, sz |-> [n \in 1..Len(e.pre) |-> {}],
          rd |-> [n \in 1..Len(e.pre) |-> {}], kmap |-> e.kpost]
    ELSE IF h.phase # "open" \/ e.act \in {"Imap", "Tick"} THEN h
    ELSE IF e.act \in {"Quit", "Drop"} \/ e.closed THEN [h EXCEPT !.phase = "closed"]
    ELSE IF e.st # "ok" THEN h
    ELSE CASE e.act = "Dele" -> IF e.n \in 1..L(h) THEN [h EXCEPT !.marks = @ \cup {e.n}] ELSE h
           [] e.act = "Rset" -> [h EXCEPT !.marks = {}]
           [] e.act = "List" ->
                [h EXCEPT !.sz = [n \in 1..L(h) |->
                     @[n] \cup {e.pairs[i][2] : i \in {j \in 1..Len(e.pairs) : e.pairs[j][1] = n}}]]
           [] e.act = "ListN" ->
                IF e.n \in 1..L(h) /\ Len(e.nums) = 2 THEN [h EXCEPT !.sz[e.n] = @ \cup {e.nums[2]}] ELSE h
           [] e.act = "Retr" ->
                \* (a RETR whose announcement and delivery disagree has been reported; it defines no size)
                IF e.n \in 1..L(h) /\ Num(e, 1) = Octets(Delivered(e))
                THEN [h EXCEPT !.rd[e.n] = @ \cup {Octets(Delivered(e))}] ELSE h
           [] OTHER -> h

---------------------------------------------------------------------------
(* laws of the stuffing functions (checked by TLC over all line sequences    *)
(* of the configured bound, see Pop3.tla StuffLaws)                          *)
StuffLawsOn(ls) ==
    /\ UnstuffAll(StuffAll(ls)) = ls
    /\ \A i \in 1..Len(ls) : StuffAll(ls)[i] # <<DOT>>
    /\ ReadMulti(StuffAll(ls) \o << <<DOT>> >>) =
          [lines |-> StuffAll(ls) \o << <<DOT>> >>, term |-> TRUE, extra |-> 0]
    /\ Octets(UnstuffAll(StuffAll(ls))) = Octets(ls)
=============================================================================
