---------------------------- MODULE TraceDurable ----------------------------
(* Validation of crash experiments (harness/crashdriver.py) against DurProps. *)
(* Input: JSON array of experiment records (env TRACE_FILE).                   *)
EXTENDS DurProps, Json, IOUtils
VARIABLE tid
Exps == JsonDeserialize(IOEnv.TRACE_FILE)
ASSUME OracleSane

Ms(s) == [i \in DOMAIN s |-> <<s[i][1], s[i][2], SeqToSet(s[i][3])>>]
XOf(j) ==
    [ack |-> [m \in DOMAIN j.ack |-> [vv |-> j.ack[m].vv, next |-> j.ack[m].next, sel |-> j.ack[m].sel,
                                      msgs |-> Ms(j.ack[m].msgs)]],
     unnoticed |-> [m \in DOMAIN j.unnoticed |-> SeqToSet(j.unnoticed[m])],
     infl |-> j.infl,
     revealed |-> {<<r[1], r[2], r[3], r[4]>> : r \in SeqToSet(j.revealed)},
     obs |-> [started |-> j.obs.started,
              mb |-> [m \in DOMAIN j.obs.mb |-> [status |-> j.obs.mb[m].status, vv |-> j.obs.mb[m].vv,
                                                 next |-> j.obs.mb[m].next, msgs |-> Ms(j.obs.mb[m].msgs)]]]]
Init == tid \in 1..Len(Exps)
Next == /\ \A c \in DurBad(XOf(Exps[tid])) : PrintT(<<"VIOL", tid, Exps[tid].k, Exps[tid].infl.kind, c>>)
        /\ PrintT(<<"DONE", tid, 1>>)
        /\ tid' = 0
Spec == Init /\ [][tid > 0 /\ Next]_tid
=============================================================================
