---------------------------- MODULE ThrottleDefs ----------------------------
(***************************************************************************)
(* C18 -- no access without the right password; brute-force throttling.    *)
(*                                                                         *)
(* Pure definitions shared by the protocol model (Throttle.tla), the      *)
(* static case enumeration (ThrottleCases.tla) and the validation of       *)
(* recorded implementation results (ThrottleTrace.tla).                    *)
(*                                                                         *)
(* PROPERTY LAYER (verdicts).  It speaks only about what a client can      *)
(* observe: the outcome of every authentication attempt                    *)
(*     "ok"      the attempt authenticated,                                *)
(*     "failed"  it was let through and answered "bad credentials",        *)
(*     "refused" it was turned away by the throttle,                       *)
(*     "other"   anything else (e.g. POP3 PASS without an argument),       *)
(* the time of the attempt, and whether the user process was contacted.    *)
(* For every user name and every client address the layer keeps the run    *)
(* of recorded failures "each within the purge interval of the previous    *)
(* one".  The statement leaves the instant `elapsed = Purge' open, hence   *)
(* two counters: `s' counts gaps < Purge only (a lower bound: certainly    *)
(* in the run), `l' counts gaps <= Purge (an upper bound).  A refusal is   *)
(* demanded when the strict reading says "locked", and forbidden when      *)
(* even the loose reading says "not locked".                               *)
(*                                                                         *)
(* MECHANISM LAYER (protocol model of asimap/throttle.py): the two tables  *)
(* count/last with purge-on-check.  A difference between it and the code   *)
(* is model drift, not a violation.                                        *)
(***************************************************************************)
EXTENDS Integers, FiniteSets

CONSTANTS Purge,      \* purge interval (60 s in asimap)
          MaxUser,    \* permitted failures per user name (4)
          MaxAddr     \* permitted failures per client address (5)

-----------------------------------------------------------------------------
(* Property layer: g = [s, l, age]; l = 0 means "no failure on record".     *)

GNone == [s |-> 0, l |-> 0, age |-> 0]

GAdvance(g, d) == IF g.l = 0 THEN g ELSE [g EXCEPT !.age = @ + d]

GFail(g) == [s   |-> IF g.l > 0 /\ g.age < Purge THEN g.s + 1 ELSE 1,
             l   |-> IF g.l > 0 /\ g.age <= Purge THEN g.l + 1 ELSE 1,
             age |-> 0]

Must1(g, max) == g.s > max /\ g.age < Purge
May1(g, max)  == g.l > max /\ g.age <= Purge

MustRefuse(gu, ga) == Must1(gu, MaxUser) \/ Must1(ga, MaxAddr)
MayRefuse(gu, ga)  == May1(gu, MaxUser) \/ May1(ga, MaxAddr)
Over(gu, ga)       == gu.l > MaxUser \/ ga.l > MaxAddr

Outcomes == {"ok", "failed", "refused", "other"}

(* The clauses an attempt with outcome `out' violates, given the failure    *)
(* records of its user name and its address just before it.  `good' = the   *)
(* account exists, is enabled, and the password offered is its password.    *)
AttemptClauses(gu, ga, good, out) ==
    (IF MustRefuse(gu, ga) /\ out \in {"ok", "failed"}
        THEN {"C18.LockedOut"} ELSE {})
    \cup (IF out = "refused" /\ ~MayRefuse(gu, ga) /\ ~Over(gu, ga)
        THEN {"C18.NeverRefusedBelow"} ELSE {})
    \cup (IF out = "refused" /\ ~MayRefuse(gu, ga) /\ Over(gu, ga)
        THEN {"C18.ReleasedAfter"} ELSE {})
    \cup (IF out = "ok" /\ ~good
        THEN {"C18.WrongNeverAuthenticates"} ELSE {})

(* Failure records after the attempt: a failure is recorded exactly when     *)
(* the server answered "bad credentials".                                    *)
GAfter(g, out) == IF out = "failed" THEN GFail(g) ELSE g

(* Access: `authed' = this connection has had an "ok" attempt before;        *)
(* `contact' = the user process was started / connected / written to during  *)
(* the event; `gate' = after the event the front end routes this             *)
(* connection's commands to the user process.                                *)
AccessClauses(authed, out, contact, gate) ==
    IF ~authed /\ out # "ok" /\ (contact \/ gate)
       THEN {"C18.NoAccessBefore"} ELSE {}

-----------------------------------------------------------------------------
(* Mechanism layer: t = [c, age]; c = 0 means "not in the table".            *)

TNone == [c |-> 0, age |-> 0]

TAdvance(t, d) == IF t.c = 0 THEN t ELSE [t EXCEPT !.age = @ + d]

TPurge(t) == IF t.c > 0 /\ t.age > Purge THEN TNone ELSE t

MAllow(tu, ta) == ~(TPurge(tu).c > MaxUser) /\ ~(TPurge(ta).c > MaxAddr)

MOut(tu, ta, good) == IF ~MAllow(tu, ta) THEN "refused"
                      ELSE IF good THEN "ok" ELSE "failed"

TFail(t) == [c |-> t.c + 1, age |-> 0]

MPost(t, out) == IF out = "failed" THEN TFail(TPurge(t)) ELSE TPurge(t)

(* The front ends: POP3 answers a PASS without an argument before it looks  *)
(* at the throttle at all; everything else goes through the mechanism.      *)
MOutP(tu, ta, good, proto, cred) ==
    IF proto = "pop3" /\ cred = "empty" THEN "other" ELSE MOut(tu, ta, good)
MPostP(t, out) == IF out = "other" THEN t ELSE MPost(t, out)

-----------------------------------------------------------------------------
(* Link between the two layers (an invariant of the model, and the          *)
(* definition of the pre-states of the per-transition implementation        *)
(* tests).                                                                  *)
LinkEntry(t, g, max) ==
    /\ t.c >= 0 /\ t.c <= max + 1
    /\ g.l >= 0 /\ g.l <= max + 1
    /\ g.s <= g.l
    /\ (g.l = 0) => (g.s = 0 /\ g.age = 0)
    /\ (g.l > 0) => (g.s >= 1)
    /\ (t.c > 0) => (g.l = t.c /\ g.age = t.age)
    /\ (t.c = 0) => (t.age = 0 /\ (g.l = 0 \/ g.age > Purge))

(* Abstract entries: ages by region relative to Purge.                       *)
Regions == {"lt", "eq", "gt"}
RepAge(r) == CASE r = "lt" -> Purge - 1 [] r = "eq" -> Purge [] OTHER -> Purge + 1

AbsT(x) == [c |-> x.c, age |-> IF x.c = 0 THEN 0 ELSE RepAge(x.r)]
AbsG(x) == [s |-> x.s, l |-> x.l, age |-> IF x.l = 0 THEN 0 ELSE RepAge(x.r)]

EntryCases(max) ==
    {x \in [c : 0..(max + 1), s : 0..(max + 1), l : 0..(max + 1), r : Regions] :
        /\ LinkEntry(AbsT(x), AbsG(x), max)
        /\ (x.l = 0 => x.r = "gt")}
=============================================================================
