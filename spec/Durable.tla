------------------------------ MODULE Durable ------------------------------
(***************************************************************************)
(* Protocol layer of C11: the order in which one mailbox's commands write   *)
(* the folder (message files, .mh_sequences), the in-memory lists and the   *)
(* SQLite row (mbox.py append / store / expunge / _pack_if_necessary /      *)
(* commit_to_db), with a Crash possible between any two micro-steps, and     *)
(* the reconciliation that runs at the next start (_restore_from_db +        *)
(* check_new_msgs_and_flags).  TLC checks, in every state reached after a    *)
(* restart, that nothing acknowledged is lost, no revealed UID names         *)
(* another message and UIDNEXT is above every revealed UID.                  *)
(*                                                                         *)
(* With `Pack` among the enabled commands the model reproduces the open      *)
(* finding (a kill during mailbox.MH.pack); without it the invariants hold.  *)
(***************************************************************************)
EXTENDS Naturals, Sequences, FiniteSets, SequencesExt, FiniteSetsExt, TLC

CONSTANTS MaxId, Cmds, MaxCrashes

VARIABLES
    up,        \* the server process is running
    mem,       \* [keys, uids, next, fl] in memory (meaningless while down)
    disk,      \* set of <<key, id>>: message files
    fseq,      \* set of <<key, flag>>: .mh_sequences
    db,        \* committed row: [keys, uids, next, fl]
    todo,      \* remaining micro-steps of the command in progress
    acked,     \* set of <<id, flagset>>: messages (and their flags) clients were told are there
    revealed,  \* set of <<uid, id>> shown to a client
    maychange, \* ids whose flags an unacknowledged STORE may have changed
    nextId, crashes

vars == <<up, mem, disk, fseq, db, todo, acked, revealed, maychange, nextId, crashes>>

Max0(S) == IF S = {} THEN 0 ELSE Max(S)
SeqSet(s) == {s[i] : i \in DOMAIN s}
Sorted(S) == SetToSortSeq(S, <)
IdAt(k) == (CHOOSE f \in disk : f[1] = k)[2]
DiskKeys == {f[1] : f \in disk}
FlagsOf(fq, k) == {e[2] : e \in {x \in fq : x[1] = k}}
Without(s, x) == SelectSeq(s, LAMBDA y : y # x)
Empty == [keys |-> <<>>, uids |-> <<>>, next |-> 1, fl |-> {}]

Init ==
    /\ up = TRUE /\ mem = Empty /\ disk = {} /\ fseq = {} /\ db = Empty
    /\ todo = <<>> /\ acked = {} /\ revealed = {} /\ maychange = {} /\ nextId = 1 /\ crashes = 0

Idle == up /\ todo = <<>>
UidOfKey(m, k) == m.uids[CHOOSE i \in DOMAIN m.keys : m.keys[i] = k]
MemIds == {<<IdAt(mem.keys[i]), {e[2] : e \in {x \in mem.fl : x[1] = mem.keys[i]}}>> :
              i \in {j \in DOMAIN mem.keys : mem.keys[j] \in DiskKeys}}

(* check_new_msgs_and_flags on memory state m against the folder *)
Resync(m) ==
    LET dk == Sorted(DiskKeys)
        shrunk == Len(dk) < Len(m.keys)
        m1 == IF shrunk \/ Len(m.keys) > Len(m.uids) THEN [m EXCEPT !.keys = <<>>, !.uids = <<>>, !.fl = {}]
              ELSE IF Len(m.uids) > Len(m.keys)
                   THEN [m EXCEPT !.uids = SubSeq(m.uids, Len(m.uids) - Len(m.keys) + 1, Len(m.uids))]
                   ELSE m
        new == Sorted(DiskKeys \ SeqSet(m1.keys))
        uids2 == m1.uids \o [i \in DOMAIN new |-> m1.next + i - 1]
    IN IF dk = m.keys /\ Len(m.uids) = Len(m.keys) THEN m
       ELSE [keys |-> m1.keys \o new, uids |-> uids2,
             next |-> IF uids2 = <<>> THEN m1.next ELSE uids2[Len(uids2)] + 1,
             fl |-> m1.fl \cup {e \in fseq : e[1] \in SeqSet(new)}]

---------------------------------------------------------------------------
(* commands: each is expanded into the micro-steps the code performs, in order *)
StartAppend ==
    /\ Idle /\ "Append" \in Cmds /\ nextId <= MaxId
    /\ todo' = <<<<"FsAdd", nextId>>, <<"SeqWrite">>, <<"ResyncCommit">>, <<"ReplyAppend", nextId>>>>
    /\ nextId' = nextId + 1
    /\ UNCHANGED <<up, mem, disk, fseq, db, acked, revealed, maychange, crashes>>

StartStore ==
    /\ Idle /\ "Store" \in Cmds /\ mem.keys # <<>>
    /\ \E i \in DOMAIN mem.keys, f \in {"Deleted", "Flagged"} :
          /\ todo' = <<<<"MemFlag", mem.keys[i], f>>, <<"SeqWrite">>, <<"Commit">>, <<"ReplyFlags">>>>
          /\ maychange' = maychange \cup {IdAt(mem.keys[i])}
    /\ UNCHANGED <<up, mem, disk, fseq, db, acked, revealed, nextId, crashes>>

StartExpunge ==
    /\ Idle /\ "Expunge" \in Cmds
    /\ LET del == Sorted({mem.keys[i] : i \in {j \in DOMAIN mem.keys : <<mem.keys[j], "Deleted">> \in mem.fl}})
       IN /\ del # <<>>
          /\ todo' = [i \in 1..Len(del) |-> <<"MemDelFsRemove", del[Len(del) + 1 - i]>>]
                     \o <<<<"MemSeqClean">>, <<"SeqWrite">>, <<"Commit">>, <<"ReplyExpunge">>>>
    /\ UNCHANGED <<up, mem, disk, fseq, db, acked, revealed, maychange, nextId, crashes>>

StartPack ==
    /\ Idle /\ "Pack" \in Cmds /\ mem.keys # <<>> /\ mem.keys[Len(mem.keys)] > Len(mem.keys)
    /\ todo' = <<<<"SeqWrite">>>>
               \o [i \in DOMAIN mem.keys |-> <<"PackMove", mem.keys[i], i>>]
               \o <<<<"PackSeq">>, <<"PackMem">>, <<"Commit">>>>
    /\ UNCHANGED <<up, mem, disk, fseq, db, acked, revealed, maychange, nextId, crashes>>

(* reading: a client fetches everything by UID (reveals the binding) *)
Reveal ==
    /\ Idle
    /\ revealed' = revealed \cup {<<mem.uids[i], IdAt(mem.keys[i])>> :
                                    i \in {j \in DOMAIN mem.keys : mem.keys[j] \in DiskKeys}}
    /\ UNCHANGED <<up, mem, disk, fseq, db, todo, acked, maychange, nextId, crashes>>

---------------------------------------------------------------------------
Step ==
    /\ up /\ todo # <<>>
    /\ LET s == Head(todo) k == s[1] IN
       /\ todo' = Tail(todo)
       /\ CASE k = "FsAdd" ->
                 LET key == Max0(DiskKeys) + 1 IN
                 /\ disk' = disk \cup {<<key, s[2]>>}
                 /\ mem' = [mem EXCEPT !.fl = @ \cup {<<key, "Recent">>, <<key, "unseen">>}]
                 /\ UNCHANGED <<fseq, db, acked, revealed>>
            [] k = "SeqWrite" ->
                 /\ fseq' = mem.fl \cup {e \in fseq : e[1] \notin SeqSet(mem.keys) /\ e[1] \in DiskKeys /\ e \notin mem.fl}
                 /\ UNCHANGED <<mem, disk, db, acked, revealed>>
            [] k = "ResyncCommit" ->
                 LET m2 == Resync(mem) IN
                 /\ mem' = m2 /\ db' = m2 /\ fseq' = m2.fl \cup {e \in fseq : e[1] \notin SeqSet(m2.keys)}
                 /\ UNCHANGED <<disk, acked, revealed>>
            [] k = "Commit" -> db' = mem /\ UNCHANGED <<mem, disk, fseq, acked, revealed>>
            [] k = "MemFlag" ->
                 /\ mem' = [mem EXCEPT !.fl = @ \cup {<<s[2], s[3]>>}]
                 /\ UNCHANGED <<disk, fseq, db, acked, revealed>>
            [] k = "MemDelFsRemove" ->
                 LET i == CHOOSE j \in DOMAIN mem.keys : mem.keys[j] = s[2] IN
                 /\ mem' = [mem EXCEPT !.keys = Without(@, s[2]),
                                       !.uids = [j \in 1..(Len(mem.uids) - 1) |-> IF j < i THEN mem.uids[j] ELSE mem.uids[j + 1]]]
                 /\ disk' = {f \in disk : f[1] # s[2]}
                 /\ acked' = {a \in acked : a[1] # IdAt(s[2])}     \* the client is told at once (EXPUNGE response)
                 /\ UNCHANGED <<fseq, db, revealed>>
            [] k = "MemSeqClean" ->
                 /\ mem' = [mem EXCEPT !.fl = {e \in @ : e[1] \in SeqSet(mem.keys)}]
                 /\ UNCHANGED <<disk, fseq, db, acked, revealed>>
            [] k = "PackMove" ->      \* link new name, unlink old name (one step here; MH does two)
                 /\ disk' = IF s[2] = s[3] THEN disk ELSE {f \in disk : f[1] # s[2]} \cup {<<s[3], IdAt(s[2])>>}
                 /\ UNCHANGED <<mem, fseq, db, acked, revealed>>
            [] k = "PackSeq" ->
                 /\ fseq' = UNION {{<<i, e[2]>> : e \in {x \in fseq : x[1] = mem.keys[i]}} : i \in DOMAIN mem.keys}
                 /\ UNCHANGED <<mem, disk, db, acked, revealed>>
            [] k = "PackMem" ->
                 /\ mem' = [mem EXCEPT !.keys = [i \in DOMAIN mem.keys |-> i],
                                       !.fl = UNION {{<<i, e[2]>> : e \in {x \in mem.fl : x[1] = mem.keys[i]}} : i \in DOMAIN mem.keys}]
                 /\ UNCHANGED <<disk, fseq, db, acked, revealed>>
            [] k = "ReplyAppend" ->
                 /\ acked' = acked \cup {a \in MemIds : a[1] = s[2]}
                 /\ revealed' = revealed \cup {<<UidOfKey(mem, CHOOSE key \in DiskKeys : IdAt(key) = s[2]), s[2]>>}
                 /\ UNCHANGED <<mem, disk, fseq, db>>
            [] k = "ReplyFlags" -> acked' = MemIds /\ UNCHANGED <<mem, disk, fseq, db, revealed>>
            [] k = "ReplyExpunge" -> UNCHANGED <<mem, disk, fseq, db, acked, revealed>>
    /\ maychange' = IF Head(todo)[1] = "ReplyFlags" THEN {} ELSE maychange
    /\ UNCHANGED <<up, nextId, crashes>>

Crash ==
    /\ up /\ crashes < MaxCrashes
    /\ up' = FALSE /\ todo' = <<>> /\ mem' = Empty /\ crashes' = crashes + 1
    /\ UNCHANGED <<disk, fseq, db, acked, revealed, maychange, nextId>>

Restart ==
    /\ ~up
    /\ LET m2 == Resync(db) IN mem' = m2 /\ db' = m2 /\ fseq' = m2.fl \cup {e \in fseq : e[1] \notin SeqSet(m2.keys)}
    /\ up' = TRUE
    /\ UNCHANGED <<disk, todo, acked, revealed, maychange, nextId, crashes>>

Next == StartAppend \/ StartStore \/ StartExpunge \/ StartPack \/ Reveal \/ Step \/ Crash \/ Restart
Spec == Init /\ [][Next]_vars

---------------------------------------------------------------------------
(* invariants, evaluated whenever the server is up and no command is in progress *)
Settled == up /\ todo = <<>>
AckedPresent == Settled => \A a \in acked : \E b \in MemIds : b[1] = a[1]
AckedFlagsPersist == Settled => \A a \in {x \in acked : x[1] \notin maychange} : \A b \in MemIds : b[1] = a[1] => (b[2] \ {"Recent"}) = (a[2] \ {"Recent"})
NoRebind == Settled => \A r \in revealed : \A i \in DOMAIN mem.keys :
                (mem.uids[i] = r[1] /\ mem.keys[i] \in DiskKeys) => IdAt(mem.keys[i]) = r[2]
NextAboveRevealed == Settled => \A r \in revealed : mem.next > r[1]
Consistent == Settled => (Len(mem.keys) = Len(mem.uids) /\ SeqSet(mem.keys) \subseteq DiskKeys)
=============================================================================
