------------------------------ MODULE LinStore ------------------------------
(***************************************************************************)
(* C10: linearizability of concurrently issued commands.                   *)
(*                                                                         *)
(* Input (env TRACE_FILE): a JSON array of *windows*.  A window is         *)
(*   init  : projected state before the commands were issued               *)
(*   cmds  : the commands issued at the same moment by different sessions, *)
(*           each with its arguments and everything the client observed    *)
(*           (status, COPYUID/APPENDUID, flags reported by FETCH/STORE)    *)
(*   final : projected state after all of them were answered               *)
(* TLC starts spec/MailStore.tla (the sequential meaning of the commands)  *)
(* in `init` and searches for an order in which to take the commands, one  *)
(* MailStore action each (COPY/MOVE optionally as their documented steps:  *)
(* read the source, add to the destination, then remove from the source),  *)
(* such that every action produces the observed outcome and the state      *)
(* reached equals `final`.  A window for which no order exists is not      *)
(* linearizable.  <<"LIN", tid>> is printed when an order was found.        *)
(***************************************************************************)
EXTENDS MailStore, Json, IOUtils

VARIABLES tid, done, phase, buf

Windows == JsonDeserialize(IOEnv.TRACE_FILE)
W == Windows[tid]
CmdIds == DOMAIN W.cmds

lvars == <<tid, done, phase, buf>>

MsgOf(t) == [key |-> t[1], uid |-> t[2], id |-> t[3], d |-> 0, fl |-> SeqToSet(t[5])]
MsgsOf(j) == [i \in DOMAIN j.msgs |-> MsgOf(j.msgs[i])]
PairSet(s) == {<<f[1], f[2]>> : f \in SeqToSet(s)}
PendOf(p) == [i \in DOMAIN p |-> It(p[i][1], p[i][2], <<>>)]

(* C10: a command is applied to the messages its arguments denote when it runs *)
DenoteBad(w) ==
    {k \in DOMAIN w.admits :
        LET a == w.admits[k]
            us == SeqToSet(a.uids)
            want == IF a.uid THEN {i \in DOMAIN a.uids : a.uids[i] \in DenoteUid(a.set, us)}
                    ELSE DenoteSeq(a.set, Len(a.uids))
        IN SeqToSet(a.applied) # want}

LInit ==
    /\ tid \in 1..Len(Windows)
    /\ \A k \in DenoteBad(Windows[tid]) : PrintT(<<"DENOTE", tid, k>>)
    /\ done = {}
    /\ phase = [c \in DOMAIN Windows[tid].cmds |-> "new"]
    /\ buf = [c \in DOMAIN Windows[tid].cmds |-> <<>>]
    /\ LET st == Windows[tid].init IN
       /\ msgs = [m \in Mbox |-> MsgsOf(st.mb[m])]
       /\ files = [m \in Mbox |-> PairSet(st.mb[m].files)]
       /\ fseq = [m \in Mbox |-> PairSet(st.mb[m].fseq)]
       /\ next = [m \in Mbox |-> st.mb[m].next]
       /\ dirty = [m \in Mbox |-> st.dirty[m]]
       /\ force = [m \in Mbox |-> st.force[m]]
       /\ ss = [s \in Sess |-> [sel |-> st.ss[s].sel, ro |-> st.ss[s].ro, idle |-> st.ss[s].idle,
                                pend |-> PendOf(st.ss[s].pend), open |-> st.ss[s].open]]
    /\ view = [s \in Sess |-> <<>>]
    /\ nextId = 1
    /\ agent = {}
    /\ last = Ev("Init", "")

(* observed vs produced; outcomes are compared as OK / refused (NO or BAD) *)
StatusClass(x) == IF x \in {"NO", "BAD"} THEN "refused" ELSE x
(* the command's own FETCH responses are the first ones the model produces for
   it (notifications that other commands queued for the session come later or
   in out0); the observation lists only the direct responses *)
Direct(ev, s, kind) == SelectSeq(ev.out[s], LAMBDA it : it.k = "FETCH" /\ it.hasfl /\ it.infl = kind)
ReportedOK(c, ev, kind) ==
    LET all == Direct(ev, c.sess, kind)
        its == SubSeq(all, 1, Len(c.fetched))
    IN
    /\ Len(all) >= Len(c.fetched)
    /\ \A i \in DOMAIN its : /\ its[i].n = c.fetched[i][1]
                             /\ (c.fetched[i][2] # 0 => its[i].suid = c.fetched[i][2])
                             /\ Visible(its[i].fl) \ {"Seen"} = Visible(SeqToSet(c.fetched[i][3])) \ {"Seen"}
CodeOK(c, ev) ==
    /\ ev.code.name = c.code.name
    /\ ev.code.name # "" => (ev.code.src = c.code.src /\ ev.code.dst = c.code.dst)

(* POP3 QUIT (pop3_client.do_quit): the messages marked with DELE are removed from the
   inbox by UID, whatever their flags; the IMAP sessions watching the inbox are told
   like after any other session's EXPUNGE *)
PopQuit(uids) ==
    LET m == "inbox"
        gone == {i \in DOMAIN msgs[m] : msgs[m][i].uid \in SeqToSet(uids)}
        r == ExpungeRes(Acc0, m, msgs[m], gone, "")
        keysGone == {msgs[m][i].key : i \in gone}
    IN /\ Clean(m)
       /\ msgs' = TLCEval([msgs EXCEPT ![m] = r.ms])
       /\ files' = [files EXCEPT ![m] = {f \in @ : f[1] \notin keysGone}]
       /\ fseq' = [fseq EXCEPT ![m] = {e \in @ : e[1] \notin keysGone}]
       /\ Finish(Acc0, r.acc, Ev("PopQuit", ""))
       /\ UNCHANGED <<next, dirty, force, nextId, agent>>

Atomic(i) ==
    LET c == W.cmds[i] IN
    /\ phase[i] = "new"
    /\ CASE c.act = "Store" ->
              /\ Store(c.sess, c.uid, c.set, c.mode, SeqToSet(c.flags), c.silent)
              /\ (c.status = "OK" /\ ~c.silent) => ReportedOK(c, last', "STORE")
         [] c.act = "Fetch" ->
              /\ Fetch(c.sess, c.uid, c.set, c.peek)
              /\ (c.status = "OK") => ReportedOK(c, last', "FETCH")
         [] c.act = "Expunge" -> Expunge(c.sess, c.uid, c.set)
         [] c.act = "Noop" -> Noop(c.sess)
         [] c.act = "Select" ->
              \* (mostly a re-SELECT of the selected mailbox): the count it announced is the count of
              \* the state it is linearized in, and what is queued for the session afterwards (final
              \* state's pend) is what happened after that point only
              /\ Select(c.sess, c.mbox, FALSE)
              /\ (c.status = "OK") => (last'.told.exists = c.exists)
         [] c.act = "PopQuit" -> PopQuit(c.uids)
         [] c.act = "Search" ->
              /\ Search(c.sess, c.uid, c.key)
              /\ (c.status = "OK") => (last'.found = c.found)
         [] c.act = "Append" ->
              /\ DoAppendId(c.sess, c.mbox, SeqToSet(c.flags), c.msgid)
              /\ CodeOK(c, last')
         [] c.act \in {"Copy", "Move"} ->
              /\ CopyMove(c.sess, c.uid, c.set, c.mbox, c.act = "Move")
              /\ CodeOK(c, last')
    /\ StatusClass(last'.status) = StatusClass(c.status)
    /\ done' = done \cup {i}
    /\ phase' = [phase EXCEPT ![i] = "done"]
    /\ UNCHANGED <<tid, buf, view>>

---------------------------------------------------------------------------
(* COPY / MOVE as their documented steps *)
CopyRead(i) ==
    LET c == W.cmds[i] m == ss[c.sess].sel IN
    /\ phase[i] = "new" /\ c.act \in {"Copy", "Move"} /\ c.status = "OK"
    /\ CanRun(c.sess) /\ Selected(c.sess) /\ Clean(m) /\ m # c.mbox
    /\ (c.act = "Move") => ~ss[c.sess].ro
    /\ c.uid \/ ValidSeq(c.set, Len(msgs[m]))
    /\ msgs[m] # <<>>
    /\ LET addr == AddrOf(c.uid, c.set, msgs[m]) ns == SortedSeq(addr) IN
       buf' = [buf EXCEPT ![i] = [j \in DOMAIN ns |-> msgs[m][ns[j]]]]
    /\ phase' = [phase EXCEPT ![i] = "read"]
    /\ ss' = [ss EXCEPT ![c.sess].pend = <<>>]
    /\ UNCHANGED <<msgs, files, fseq, next, dirty, force, view, nextId, agent, last, tid, done>>

CopyAdd(i) ==
    LET c == W.cmds[i] dst == c.mbox b == buf[i] IN
    /\ phase[i] = "read" /\ Clean(dst)
    /\ LET k0 == FreeKey(files[dst])
           newf == {<<k0 + j - 1, b[j].id>> : j \in DOMAIN b}
           newq == UNION {{<<k0 + j - 1, f>> : f \in b[j].fl \ {"Recent"}} : j \in DOMAIN b}
           fs2 == files[dst] \cup newf
           fq2 == fseq[dst] \cup newq
           r == ResyncRes(dst, msgs[dst], fs2, fq2, next[dst], [ss |-> ss, out |-> NoOut])
           dstU == [j \in DOMAIN b |-> (CHOOSE x \in SeqToSet(r.ms) : x.key = k0 + j - 1).uid]
           srcU == [j \in DOMAIN b |-> b[j].uid]
       IN /\ (b # <<>>) => (c.code.name = "COPYUID" /\ c.code.src = srcU /\ c.code.dst = dstU)
          /\ (b = <<>>) => c.code.name = ""
          /\ msgs' = TLCEval([msgs EXCEPT ![dst] = r.ms])
          /\ files' = [files EXCEPT ![dst] = fs2]
          /\ fseq' = [fseq EXCEPT ![dst] = IF r.n > 0 THEN r.fq ELSE fq2]
          /\ next' = [next EXCEPT ![dst] = r.nx]
          /\ ss' = TLCEval(r.acc.ss)
    /\ dirty' = [dirty EXCEPT ![c.mbox] = FALSE]
    /\ force' = [force EXCEPT ![c.mbox] = FALSE]
    /\ IF c.act = "Move" /\ b # <<>>
       THEN phase' = [phase EXCEPT ![i] = "added"] /\ UNCHANGED done
       ELSE phase' = [phase EXCEPT ![i] = "done"] /\ done' = done \cup {i}
    /\ UNCHANGED <<view, nextId, agent, last, tid, buf>>

MoveRemove(i) ==
    LET c == W.cmds[i] m == ss[c.sess].sel b == buf[i] IN
    /\ phase[i] = "added" /\ Selected(c.sess) /\ Clean(m)
    /\ LET gone == {p \in DOMAIN msgs[m] : \E j \in DOMAIN b : b[j].uid = msgs[m][p].uid}
           r == ExpungeRes([ss |-> ss, out |-> NoOut], m, msgs[m], gone, c.sess)
           keysGone == {msgs[m][p].key : p \in gone}
       IN /\ msgs' = TLCEval([msgs EXCEPT ![m] = r.ms])
          /\ files' = [files EXCEPT ![m] = {f \in @ : f[1] \notin keysGone}]
          /\ fseq' = [fseq EXCEPT ![m] = {e \in @ : e[1] \notin keysGone}]
          /\ ss' = TLCEval(r.acc.ss)
          /\ force' = [force EXCEPT ![m] = TRUE]
    /\ phase' = [phase EXCEPT ![i] = "done"]
    /\ done' = done \cup {i}
    /\ UNCHANGED <<next, dirty, view, nextId, agent, last, tid, buf>>

(* a management-task resync may run between any two steps *)
SilentResync(m) ==
    /\ Resync(m)
    /\ UNCHANGED <<lvars, view>>

(* observable final state: per mailbox the (uid, id, flags) list and UIDNEXT *)
ObsNow == [m \in Mbox |-> [next |-> next[m],
                          msgs |-> [i \in DOMAIN msgs[m] |-> <<msgs[m][i].uid, msgs[m][i].id, Visible(msgs[m][i].fl)>>]]]
ObsFinal == [m \in Mbox |-> [next |-> W.final.mb[m].next,
                            msgs |-> [i \in DOMAIN W.final.mb[m].msgs |->
                                        LET t == W.final.mb[m].msgs[i] IN <<t[2], t[3], Visible(SeqToSet(t[5]))>>]]]

(* ... and per session the EXPUNGEs that are queued for it when the window is over: they are exactly *)
(* the removals that happened after the point at which the session's view was last made current     *)
(* (a stale EXPUNGE left in the queue by a re-SELECT would be applied to the fresh view).            *)
PendExpNow(s) == LET q == SelectSeq(ss[s].pend, LAMBDA it : it.k = "EXPUNGE") IN [i \in DOMAIN q |-> q[i].n]
PendExpFinal(s) == LET q == SelectSeq(W.final.ss[s].pend, LAMBDA p : p[1] = "EXPUNGE") IN [i \in DOMAIN q |-> q[i][2]]
(* (checked for the sessions that SELECTed in the window) *)
PendOK == \A i \in CmdIds : (W.cmds[i].act = "Select" /\ W.cmds[i].status = "OK")
                               => PendExpNow(W.cmds[i].sess) = PendExpFinal(W.cmds[i].sess)

Accept ==
    /\ done = CmdIds /\ phase # [c \in CmdIds |-> "accepted"]
    /\ ObsNow = ObsFinal
    /\ PendOK
    /\ PrintT(<<"LIN", tid>>)
    /\ phase' = [c \in CmdIds |-> "accepted"]
    /\ UNCHANGED <<msgs, files, fseq, next, dirty, force, ss, view, nextId, agent, last, tid, done, buf>>

LNext ==
    \/ \E i \in CmdIds : Atomic(i) \/ CopyRead(i) \/ CopyAdd(i) \/ MoveRemove(i)
    \/ \E m \in Mbox : SilentResync(m)
    \/ Accept

LSpec == LInit /\ [][LNext]_<<vars, lvars>>
=============================================================================
