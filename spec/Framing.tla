------------------------------ MODULE Framing ------------------------------
(***************************************************************************)
(* C19 -- the front-end relays exactly the commands the byte stream        *)
(* denotes.                                                                 *)
(*                                                                         *)
(* This module is the reference semantics of IMAP command framing over a    *)
(* byte stream (RFC 3501 section 4.3 / 7.5, RFC 7888 non-synchronising       *)
(* literals) and the verdict layer that compares what an implementation     *)
(* did with it.  It knows nothing about how asimap does it.                 *)
(*                                                                         *)
(* Octet streams are sequences of integer TOKENS:                           *)
(*     t >= 0 : the single octet t           (90, "Z", is never used)       *)
(*     t <  0 : a run of -t octets "Z"                                      *)
(* so that 10 MiB literals and 200 KiB lines cost one token.  A stream is   *)
(* canonical when no two runs are adjacent (Canon).                         *)
(*                                                                         *)
(* What a client byte stream denotes (Run):                                 *)
(*   - a command is a line up to CRLF; when the line ends in "{n}" or        *)
(*     "{n+}" the next n octets are literal data (whatever they look like)   *)
(*     and the command goes on with the rest of the line after them;         *)
(*   - the message handed to the user process is line, CRLF, data, rest ...  *)
(*     without the final CRLF                                   (event "R")  *)
(*   - every synchronising literal that is accepted is answered by one       *)
(*     continuation request                                     (event "C")  *)
(*   - a literal announcing more than Max octets is refused with a BAD at    *)
(*     the announcement ("B"): a synchronising one ends the command there    *)
(*     (the client, not having got its "+", sends neither data nor the rest   *)
(*     of the command); after a non-synchronising one the n octets and the   *)
(*     rest of the command arrive anyway and denote nothing;                  *)
(*   - a command whose message is longer than Max is refused with a BAD and  *)
(*     nothing of it is relayed;                                             *)
(*   - an empty line denotes no command (a BAD is allowed, event "b").       *)
(*   - a synchronising announcement inside the discarded remainder of a      *)
(*     command that was already refused ends that command: no "+" is sent    *)
(*     for a refused command, so a conforming client sends neither the data  *)
(*     nor anything more of it (RFC 3501 7.5: it MUST wait for the "+"); the  *)
(*     octets that follow are the next command;                               *)
(* Streams in which the outcome depends on a choice the property leaves      *)
(* open (a synchronising literal inside a command that is refused for its    *)
(* total size) are outside the domain: Run marks them `amb` and no verdict   *)
(* is given.                                                                  *)
(***************************************************************************)
EXTENDS Integers, Sequences, FiniteSets, SequencesExt, TLC

CR == 13
LF == 10
LBR == 123
RBR == 125
PLUS == 43
SP == 32
CRLF == <<13, 10>>
BigN == 2147483647

IsDigit(t) == t >= 48 /\ t <= 57
Sz(t) == IF t < 0 THEN 0 - t ELSE 1

(* linear scans are folds (evaluated iteratively by TLC), not recursions *)
Idx(s) == [j \in 1..Len(s) |-> j]
Size(s) == FoldLeft(LAMBDA a, t : a + Sz(t), 0, s)
SizeTo(s, i) == Size(SubSeq(s, 1, i))

Canon(s) == FoldLeft(LAMBDA acc, t : IF t < 0 /\ acc # <<>> /\ acc[Len(acc)] < 0
                                     THEN [acc EXCEPT ![Len(acc)] = @ + t]
                                     ELSE Append(acc, t), <<>>, s)

RECURSIVE Digits(_)
Digits(n) == IF n < 10 THEN <<48 + n>> ELSE Append(Digits(n \div 10), 48 + (n % 10))

Concat(ss) == FoldLeft(LAMBDA a, x : a \o x, <<>>, ss)

(* index of the CR of the first CRLF at or after i, 0 when there is none *)
FindCRLF(s, i) == FoldLeft(LAMBDA a, j : IF a = 0 /\ j >= i /\ j < Len(s) /\ s[j] = CR /\ s[j + 1] = LF
                                         THEN j ELSE a, 0, Idx(s))

(* first index of octet b at or after i, 0 when there is none *)
FindOct(s, b, i) == FoldLeft(LAMBDA a, j : IF a = 0 /\ j >= i /\ s[j] = b THEN j ELSE a, 0, Idx(s))

(* split s after exactly n octets (a run may be split); needs Size(s) >= n *)
CutIdx(s, n) == FoldLeft(LAMBDA a, j : IF a[1] # 0 THEN a
                                       ELSE IF a[2] + Sz(s[j]) >= n THEN <<j, a[2]>>
                                       ELSE <<0, a[2] + Sz(s[j])>>, <<0, 0>>, Idx(s))
TakeDrop(s, n) ==
    IF n = 0 THEN [pre |-> <<>>, post |-> s]
    ELSE LET c == CutIdx(s, n)
             i == c[1]
             need == n - c[2]
             whole == need = Sz(s[i])
         IN [pre |-> SubSeq(s, 1, i - 1) \o (IF whole THEN <<s[i]>> ELSE <<0 - need>>),
             post |-> (IF whole THEN <<>> ELSE <<0 - (Sz(s[i]) - need)>>)
                      \o SubSeq(s, i + 1, Len(s))]

(* ------------------------------------------------------------------ *)
(* literal announcement at the end of a line piece                     *)
NoLit == [has |-> FALSE, n |-> 0, sync |-> FALSE]

RECURSIVE DigStart(_, _)
DigStart(p, e) == IF e > 1 /\ IsDigit(p[e - 1]) THEN DigStart(p, e - 1) ELSE e
RECURSIVE NumOf(_, _, _)
NumOf(p, d, e) == IF e < d THEN 0 ELSE NumOf(p, d, e - 1) * 10 + (p[e] - 48)

LitInfo(p) ==
    LET b == Len(p) IN
    IF b < 3 \/ p[b] # RBR THEN NoLit
    ELSE LET sync == p[b - 1] # PLUS
             e == IF sync THEN b - 1 ELSE b - 2
         IN IF e < 2 \/ ~IsDigit(p[e]) THEN NoLit
            ELSE LET d == DigStart(p, e) IN
                 IF d < 2 \/ p[d - 1] # LBR THEN NoLit
                 ELSE [has |-> TRUE, sync |-> sync,
                       n |-> IF e - d + 1 > 9 THEN BigN ELSE NumOf(p, d, e)]

(* ------------------------------------------------------------------ *)
(* the reference tokenizer                                              *)
Ev(k, m, c) == [k |-> k, m |-> m, c |-> c]
Q0 == [acc |-> <<>>, st |-> "new", sy |-> 0, ns |-> 0, pc |-> "", ev |-> <<>>,
       cls |-> <<>>, amb |-> FALSE, left |-> <<>>]

LitClass(sy, ns) == IF sy = 0 /\ ns = 0 THEN "plain"
                    ELSE IF ns = 0 THEN "lit-sync"
                    ELSE IF sy = 0 THEN "lit-nonsync" ELSE "lit-mixed"

RECURSIVE Run(_, _, _)
Run(s, q, mx) ==
    LET i == FindCRLF(s, 1) IN
    IF i = 0 THEN [q EXCEPT !.left = s]
    ELSE
    LET p == SubSeq(s, 1, i - 1)
        rest == SubSeq(s, i + 2, Len(s))
        L == LitInfo(p)
        msg == q.acc \o p
        c == Len(q.cls) + 1
        Fresh(evs, cl, a) == [Q0 EXCEPT !.ev = q.ev \o evs, !.cls = Append(q.cls, cl),
                                        !.amb = q.amb \/ a]
        skip == q.st = "skip"
    IN
    IF ~L.has THEN                                         \* the command ends here
        IF skip THEN Run(rest, Fresh(<<>>, q.pc, FALSE), mx)
        ELSE IF msg = <<>> THEN Run(rest, Fresh(<<Ev("b", <<>>, c)>>, "empty", FALSE), mx)
        ELSE IF Size(msg) > mx
             THEN Run(rest, Fresh(<<Ev("B", <<>>, c)>>,
                                  IF q.sy + q.ns = 0 THEN "over-line" ELSE "over-total",
                                  q.sy > 0), mx)
             ELSE Run(rest, Fresh(<<Ev("R", msg, c)>>, LitClass(q.sy, q.ns), FALSE), mx)
    ELSE IF L.n > mx THEN                                  \* over-limit literal
        IF L.sync
        THEN IF skip THEN Run(rest, Fresh(<<>>, q.pc, FALSE), mx)
             ELSE Run(rest, Fresh(<<Ev("B", <<>>, c)>>, "over-literal-sync", FALSE), mx)
        ELSE LET q2 == [q EXCEPT !.acc = <<>>, !.st = "skip",
                                 !.pc = IF skip THEN @ ELSE "over-literal-nonsync",
                                 !.ev = IF skip THEN @ ELSE Append(@, Ev("B", <<>>, c))]
             IN IF Size(rest) < L.n THEN [q2 EXCEPT !.left = s]
                ELSE Run(TakeDrop(rest, L.n).post, q2, mx)
    ELSE                                                   \* literal within the limit
        IF skip /\ L.sync THEN Run(rest, Fresh(<<>>, q.pc, FALSE), mx)
        ELSE IF skip
        THEN IF Size(rest) < L.n THEN [q EXCEPT !.left = s]
             ELSE Run(TakeDrop(rest, L.n).post, q, mx)
        ELSE LET q2 == [q EXCEPT !.ev = IF L.sync THEN Append(@, Ev("C", <<>>, c)) ELSE @] IN
             IF Size(rest) < L.n THEN [q2 EXCEPT !.left = s]
             ELSE LET td == TakeDrop(rest, L.n) IN
                  Run(td.post, [q2 EXCEPT !.acc = msg \o CRLF \o td.pre, !.st = "cont",
                                          !.sy = @ + (IF L.sync THEN 1 ELSE 0),
                                          !.ns = @ + (IF L.sync THEN 0 ELSE 1)], mx)

Expect(s, mx) == Run(s, Q0, mx)

(* POP3: every CRLF-terminated line is one command; braces mean nothing *)
RECURSIVE RunPop(_, _)
RunPop(s, q) ==
    LET i == FindCRLF(s, 1) IN
    IF i = 0 THEN [q EXCEPT !.left = s]
    ELSE LET p == SubSeq(s, 1, i - 1)
             rest == SubSeq(s, i + 2, Len(s))
             c == Len(q.cls) + 1
         IN IF p = <<>>
            THEN RunPop(rest, [q EXCEPT !.ev = Append(@, Ev("b", <<>>, c)),
                                        !.cls = Append(@, "empty")])
            ELSE RunPop(rest, [q EXCEPT !.ev = Append(@, Ev("R", p, c)),
                                        !.cls = Append(@, "plain")])
ExpectPop(s) == RunPop(s, Q0)

ExpectOf(proto, s, mx) == IF proto = "pop3" THEN ExpectPop(s) ELSE Expect(s, mx)

(* the relay of responses: the stream, line by line *)
RECURSIVE Lines(_)
Lines(s) == LET i == FindCRLF(s, 1) IN
            IF i = 0 THEN <<>>
            ELSE <<SubSeq(s, 1, i + 1)>> \o Lines(SubSeq(s, i + 2, Len(s)))

(* longest run of octets without CRLF, terminator included *)
RECURSIVE MaxLine(_, _)
MaxLine(ls, i) == IF i > Len(ls) THEN 0
                  ELSE LET a == Size(ls[i]) b == MaxLine(ls, i + 1) IN IF a > b THEN a ELSE b

(* ------------------------------------------------------------------ *)
(* verdict layer: expected events against observed events               *)
(* observed events have the same shape, kinds:                          *)
(*   "C" continuation written to the client, "B" a BAD (-ERR) written,   *)
(*   "O" any other write, "R" a message framed for the user process,     *)
(*   "F" a relay whose "{len}\n" frame is wrong, "P" a message the real  *)
(*   de-framer of the user process delivered, "X" connection closed      *)
Skel(ev) == SelectSeq(ev, LAMBDA e : e.k \in {"C", "R", "F"})
KindOf(k) == IF k = "F" THEN "R" ELSE k
KindSeq(sk) == [i \in 1..Len(sk) |-> KindOf(sk[i].k)]
Rel(ev) == SelectSeq(ev, LAMBDA e : e.k \in {"R", "F"})
MsgEq(o, e) == LET co == Canon(o) IN co = Canon(e) \/ co = Canon(e \o CRLF)

RECURSIVE GapCount(_, _, _, _)
GapCount(ev, i, K, acc) ==
    IF i > Len(ev) THEN acc
    ELSE IF ev[i].k \in {"C", "R", "F"} THEN GapCount(ev, i + 1, K, Append(acc, 0))
    ELSE IF ev[i].k \in K THEN GapCount(ev, i + 1, K, [acc EXCEPT ![Len(acc)] = @ + 1])
    ELSE GapCount(ev, i + 1, K, acc)
Gaps(ev, K) == GapCount(ev, 1, K, <<0>>)

RefusedCls == {"over-literal-sync", "over-literal-nonsync", "over-line", "over-total"}

SetMax(S) == CHOOSE x \in S : \A y \in S : y <= x
SetMin(S) == CHOOSE x \in S : \A y \in S : x <= y

(* label for a divergence at skeleton position d: the kinds of refusal that precede it
   in the stream (the framing can only be lost at a refusal); when there is none, the
   class of the command the diverging event belongs to *)
RefusedOrder == <<"over-literal-sync", "over-literal-nonsync", "over-total", "over-line">>
RECURSIVE JoinPresent(_, _, _)
JoinPresent(S, i, acc) ==
    IF i > Len(RefusedOrder) THEN acc
    ELSE IF RefusedOrder[i] \in S
         THEN JoinPresent(S, i + 1, IF acc = "" THEN RefusedOrder[i] ELSE acc \o "+" \o RefusedOrder[i])
         ELSE JoinPresent(S, i + 1, acc)
Blame(E, xs, d) ==
    LET cd == IF d >= 1 /\ d <= Len(xs) THEN xs[d].c ELSE Len(E.cls) + 1
        R == {E.cls[j] : j \in {i \in 1..Len(E.cls) : i <= cd}} \cap RefusedCls
    IN IF R # {} THEN JoinPresent(R, 1, "")
       ELSE IF cd <= Len(E.cls) THEN E.cls[cd] ELSE "end"

SkelEq(x, o) == KindOf(x.k) = KindOf(o.k) /\ (x.k = "R" => MsgEq(o.m, x.m))

FirstDiff(xs, os) ==
    LET n == IF Len(xs) < Len(os) THEN Len(xs) ELSE Len(os)
        D == {i \in 1..n : ~SkelEq(xs[i], os[i])}
    IN IF D # {} THEN SetMin(D) ELSE IF Len(xs) = Len(os) THEN 0 ELSE n + 1

(* Set of <<clause, blamed class>> for one observation of the command direction. *)
Verdict(E, obs) ==
    LET hasX == \E i \in 1..Len(obs) : obs[i].k = "X"
        NS == {j \in 1..Len(E.cls) : E.cls[j] = "over-literal-nonsync"}
        k0 == IF NS = {} THEN 0 ELSE SetMin(NS)
        \* RFC 7888: after refusing a non-synchronising literal the server may close
        expEv == IF hasX /\ k0 > 0 THEN SelectSeq(E.ev, LAMBDA e : e.c <= k0) ELSE E.ev
        xs == Skel(expEv)
        os == Skel(obs)
        relE == Rel(xs)
        relO == Rel(os)
        relEq == Len(relE) = Len(relO) /\ \A i \in 1..Len(relE) : MsgEq(relO[i].m, relE[i].m)
        kindsEq == KindSeq(xs) = KindSeq(os)
        d == FirstDiff(xs, os)
        refusing == \E i \in 1..Len(E.cls) : E.cls[i] \in RefusedCls \cup {"empty"}
        need == Gaps(expEv, {"B"})
        opt == Gaps(expEv, {"b"})
        got == Gaps(obs, {"B"})
        badGaps == {g \in 1..Len(need) : got[g] < need[g] \/ (need[g] + opt[g] = 0 /\ got[g] > 0)}
        pO == SelectSeq(obs, LAMBDA e : e.k = "P")
        rOk == SelectSeq(obs, LAMBDA e : e.k = "R")
        wantP == \E i \in 1..Len(obs) : obs[i].k = "PX"
    IN  (IF \E i \in 1..Len(os) : os[i].k = "F"
         THEN {<<"C19.FramingExact", Blame(E, xs, d)>>} ELSE {})
        \cup (IF ~relEq
              THEN {<<IF refusing THEN "C19.StaysInSync" ELSE "C19.RelayedExact",
                      Blame(E, xs, IF d > 0 THEN d ELSE Len(xs) + 1)>>} ELSE {})
        \cup (IF relEq /\ ~kindsEq THEN {<<"C19.ContinuationExact", Blame(E, xs, d)>>} ELSE {})
        \cup (IF relEq /\ kindsEq /\ badGaps # {}
              THEN {<<"C19.OverLimitRefused", Blame(E, xs, SetMin(badGaps))>>} ELSE {})
        \cup (IF hasX /\ k0 = 0 THEN {<<"C19.StaysInSync", "connection-closed">>} ELSE {})
        \cup (IF wantP /\ ~(Len(pO) = Len(rOk)
                            /\ \A i \in 1..Len(pO) : Canon(pO[i].m) = Canon(rOk[i].m))
              THEN {<<"C19.ProxyDeframes", Blame(E, xs, d)>>} ELSE {})

(* responses: what the client was sent is the stream the user process wrote *)
RespClass(s, limit) == LET m == MaxLine(Lines(s), 1) IN
                       IF m > limit THEN "line-longer-than-relay-buffer" ELSE "line-within-relay-buffer"
RespVerdict(s, obs, limit) ==
    LET ws == SelectSeq(obs, LAMBDA e : e.k \in {"C", "B", "O"})
        got == Canon(Concat([i \in 1..Len(ws) |-> ws[i].m]))
    IN IF got # Canon(s) \/ \E i \in 1..Len(obs) : obs[i].k = "X"
       THEN {<<"C19.ResponsesUnmodified", RespClass(s, limit)>>} ELSE {}

(* ------------------------------------------------------------------ *)
(* classification of raw observations                                    *)
Starts(w, pfx) == Len(w) >= Len(pfx) /\ SubSeq(w, 1, Len(pfx)) = pfx
HasBAD(w) == \E i \in 1..(Len(w) - 3) : w[i] = 32 /\ w[i + 1] = 66 /\ w[i + 2] = 65 /\ w[i + 3] = 68
WClass(proto, w) ==
    IF proto = "pop3" THEN (IF Starts(w, <<45, 69, 82, 82>>) THEN "B" ELSE "O")
    ELSE IF Starts(w, <<43>>) THEN "C"
    ELSE IF HasBAD(w) THEN "B" ELSE "O"

RECURSIVE AllDigits(_, _, _)
AllDigits(r, a, b) == IF a > b THEN TRUE ELSE IsDigit(r[a]) /\ AllDigits(r, a + 1, b)
Deframe(r) ==
    LET j == FindOct(r, LF, 1) IN
    IF j < 4 \/ j > 12 \/ r[1] # LBR \/ r[j - 1] # RBR \/ ~AllDigits(r, 2, j - 2)
    THEN [ok |-> FALSE, m |-> r]
    ELSE LET m == SubSeq(r, j + 1, Len(r)) IN [ok |-> NumOf(r, 2, j - 2) = Size(m), m |-> m]

ObsEv(proto, e) ==
    IF e[1] = "W" THEN Ev(WClass(proto, e[2]), e[2], 0)
    ELSE IF e[1] = "R" THEN LET d == Deframe(e[2]) IN Ev(IF d.ok THEN "R" ELSE "F", d.m, 0)
    ELSE Ev(e[1], e[2], 0)
=============================================================================
