------------------------------ MODULE SearchMC ------------------------------
(***************************************************************************)
(* C14 -- bounded-exhaustive model checking of the SEARCH semantics         *)
(* (Search.tla) and generation of the cases that are run on the code.       *)
(*                                                                         *)
(* The space: mailboxes of at most MaxLen messages drawn from a palette of  *)
(* six messages that vary every attribute a key can look at (flags incl.    *)
(* \Recent and a keyword, sizes one octet apart, internal dates at the two  *)
(* ends of a day, Date: headers whose zone moves them across midnight,      *)
(* header and body words in mixed case), with and without gaps in the UID   *)
(* table; programs: every RFC 3501 key with one to three argument values    *)
(* (Leaves), NOT/OR/list of them (depth 1), and all depth-2 combinations    *)
(* over a core of leaves (one per family).                                  *)
(*                                                                         *)
(* TLC visits every <<mailbox, program>> pair (one state each) and checks   *)
(* LawsHold: the set-algebraic denotation coincides with the pointwise      *)
(* evaluator, NOT is complement, the algebraic laws relate programs with    *)
(* equal denotations, UN*/NEW/OLD are their defined combinations, ranges    *)
(* are symmetric, UID SEARCH is SEARCH mapped through the (injective) UID   *)
(* table.  NonVacuous (an ASSUME) shows that every key distinguishes        *)
(* something inside the space.  The same space is written as JSON           *)
(* (env SEARCH_SPACE) and executed on the implementation by                 *)
(* harness/searchrun.py; SearchTrace validates what it returned.            *)
(***************************************************************************)
EXTENDS Search, SequencesExt, Json, IOUtils

CONSTANTS MaxLen,      \* messages per mailbox (<= 3)
          Tier         \* "quick" | "thorough": which part of the space is emitted deep

VARIABLES mi, fmb, p, ph, bk

D == 8803    \* 7-Feb-1994 as a day number (days since 1-Jan-1970)

(* its = <<day, second of the day>> of the internal date (UTC)              *)
(* sent = <<day as written in Date:, time, zone>>                           *)
Palette == <<
  [flags |-> {"Seen"}, size |-> 640, its |-> <<D, 0>>,
   sent |-> <<D, "00:00:01", "+0000">>,
   hdrs |-> << <<"From", "Alice Qzfrom <alice@qzone.example>">>,
               <<"To", "bob@qzto.example">>,
               <<"Subject", "Qzsub alpha">> >>,
   body |-> "qzbody one"],
  [flags |-> {"Answered", "Flagged", "Recent"}, size |-> 700, its |-> <<D - 1, 86399>>,
   sent |-> <<D, "21:52:25", "-0800">>,
   hdrs |-> << <<"From", "carol@qzone.example">>,
               <<"To", "dave@qzto.example">>,
               <<"Cc", "erin@qzcc.example">>,
               <<"Subject", "beta QZSUB">>,
               <<"X-Qz", "zulu yankee">> >>,
   body |-> "second QZBODY two"],
  [flags |-> {"Deleted", "Draft", "k1", "Seen"}, size |-> 701, its |-> <<D + 1, 0>>,
   sent |-> <<D + 1, "01:00:00", "+0900">>,
   hdrs |-> << <<"From", "frank@other.example">>,
               <<"To", "bob@qzto.example">>,
               <<"Bcc", "gina@qzbcc.example">>,
               <<"Subject", "gamma">> >>,
   body |-> "third body, no marker"],
  [flags |-> {"Recent"}, size |-> 699, its |-> <<D, 86399>>,
   sent |-> <<D - 1, "23:59:59", "-0500">>,
   hdrs |-> << <<"From", "Alice Qzfrom <alice@qzone.example>">>,
               <<"To", "heidi@qzto.example">>,
               <<"Subject", "delta qzsub">>,
               <<"X-Qz", "yankee">> >>,
   body |-> "qzbody four alpha"],
  [flags |-> {"Seen", "Flagged", "k1"}, size |-> 900, its |-> <<D + 2, 43200>>,
   sent |-> <<D + 2, "12:00:00", "+0000">>,
   hdrs |-> << <<"From", "frank@other.example">>,
               <<"To", "dave@qzto.example">>,
               <<"Cc", "erin@qzcc.example, ivan@qzcc.example">>,
               <<"Subject", "Alpha Beta">> >>,
   body |-> "five"],
  [flags |-> {"Seen", "Deleted", "Answered", "Draft", "Recent"}, size |-> 640,
   its |-> <<D - 1, 0>>,
   sent |-> <<D - 1, "08:30:00", "+0100">>,
   hdrs |-> << <<"From", "judy@qzone.example">>,
               <<"Subject", "zeta">>,
               <<"X-Rep", "first occurrence">>,
               <<"X-Rep", "second qzrep">> >>,      \* a repeated header field
   body |-> "six qzbody"] >>
NT == Len(Palette)

---------------------------------------------------------------------------
(* mailboxes: sequences of <<palette index, uid>> *)

UidPats(n) == CASE n = 0 -> {<<>>}
                [] n = 1 -> {<<1>>, <<3>>}
                [] n = 2 -> {<<1, 2>>, <<2, 5>>}
                [] n = 3 -> {<<1, 2, 3>>, <<2, 3, 5>>}
Mk(ts, us) == [i \in DOMAIN ts |-> <<ts[i], us[i]>>]
TypeSeqs(n) == [1..n -> 1..NT]
Sum(ts) == IF Len(ts) = 0 THEN 0 ELSE IF Len(ts) = 1 THEN ts[1]
           ELSE IF Len(ts) = 2 THEN ts[1] + ts[2] ELSE ts[1] + ts[2] + ts[3]
PatBy(ts) == IF Sum(ts) % 2 = 0 THEN CHOOSE u \in UidPats(Len(ts)) : Len(u) = 0 \/ u[1] = 1
             ELSE CHOOSE u \in UidPats(Len(ts)) : Len(u) = 0 \/ u[1] # 1
Rot(i) == [k \in 1..3 |-> ((i + k - 2) % NT) + 1]
MailboxSet ==
    IF Tier = "quick"
    THEN {Mk(ts, PatBy(ts)) : ts \in UNION {TypeSeqs(n) : n \in 0..Min2(MaxLen, 2)}}
         \cup (IF MaxLen >= 3 THEN {Mk(Rot(i), u) : i \in 1..NT, u \in UidPats(3)} ELSE {})
    ELSE UNION {{Mk(ts, u) : ts \in TypeSeqs(n), u \in UidPats(n)} : n \in 0..MaxLen}
MailboxSeq == SetToSeq(MailboxSet)
(* mailboxes on which the code is also given the depth-2 programs, the law  *)
(* images and the random deeper programs (TLC itself visits every pair)     *)
Deep(mbx) == /\ Len(mbx) = 3
             /\ \/ Tier = "quick"
                \/ /\ mbx[1][2] # 1
                   /\ Cardinality({mbx[i][1] : i \in DOMAIN mbx}) = 3

Realise(mbx) ==
    [i \in DOMAIN mbx |->
        LET t == Palette[mbx[i][1]] IN
        [seq |-> i, uid |-> mbx[i][2], flags |-> t.flags, size |-> t.size,
         iday |-> t.its[1], sday |-> t.sent[1], hdrs |-> t.hdrs, body |-> t.body,
         memo |-> NoMemo]]

---------------------------------------------------------------------------
(* programs *)

Nullary == {<<k>> : k \in NullaryKeys}
KwLeaves == {<<"KEYWORD", "k1">>, <<"UNKEYWORD", "k1">>, <<"KEYWORD", "k2">>}
DateLeaves == {<<k, d>> : k \in DateKeys, d \in {D, D + 1}}
SizeLeaves == {<<k, n>> : k \in SizeKeys, n \in {699, 700, 701}}
StrLeaves == {<<"FROM", "qzone">>, <<"FROM", "ALICE Q">>, <<"TO", "bob@">>,
              <<"CC", "Erin">>, <<"CC", "ivan">>, <<"BCC", "gina">>,
              <<"SUBJECT", "qzsub">>, <<"SUBJECT", "a b">>, <<"SUBJECT", "">>,
              <<"HEADER", "X-Qz", "yankee">>, <<"HEADER", "x-qz", "">>,
              <<"HEADER", "Subject", "BETA">>, <<"HEADER", "To", "qzto.example">>,
              <<"HEADER", "X-Rep", "first">>, <<"HEADER", "X-Rep", "qzrep">>, <<"TEXT", "qzrep">>,
              <<"BODY", "qzbody">>, <<"BODY", "Alpha">>, <<"BODY", "qzsub">>,
              <<"TEXT", "alpha">>, <<"TEXT", "qzcc">>, <<"TEXT", "x-qz">>,
              <<"TEXT", "no marker">>}
Set1(a, b) == << <<a, b>> >>
SetLeaves == {<<"SEQ", Set1(1, 1)>>, <<"SEQ", Set1(2, 3)>>, <<"SEQ", Set1(Star, Star)>>,
              <<"SEQ", << <<1, 1>>, <<3, 3>> >> >>, <<"SEQ", Set1(2, Star)>>,
              <<"SEQ", Set1(1, Star)>>,
              <<"UID", Set1(2, 2)>>, <<"UID", Set1(3, 5)>>, <<"UID", Set1(Star, Star)>>,
              <<"UID", Set1(4, Star)>>, <<"UID", << <<1, 2>>, <<5, 9>> >> >>,
              <<"UID", Set1(7, 9)>>}
(* forms the RFC defines but that are easy to get wrong *)
OddSetLeaves == {<<"SEQ", Set1(3, 2)>>, <<"SEQ", Set1(Star, 1)>>,
                 <<"UID", Set1(5, 3)>>, <<"UID", Set1(Star, 2)>>, <<"UID", Set1(9, Star)>>}
Leaves == Nullary \cup KwLeaves \cup DateLeaves \cup SizeLeaves \cup StrLeaves
          \cup SetLeaves \cup OddSetLeaves

FMb(i) == MemoMb(FoldMb(Realise(MailboxSeq[i])), StrLeaves)
AllFMbs == [i \in DOMAIN MailboxSeq |-> FMb(i)]

Core == {<<"SEEN">>, <<"NEW">>, <<"SINCE", D>>, <<"LARGER", 700>>, <<"SUBJECT", "qzsub">>,
         <<"UID", Set1(3, 5)>>}
        \cup (IF Tier = "quick" THEN {}
              ELSE {<<"DELETED">>, <<"SENTON", D>>, <<"SEQ", Set1(1, 1)>>})
Core2 == {<<"SEEN">>, <<"SINCE", D>>, <<"BODY", "qzbody">>, <<"UID", Set1(3, 5)>>}
         \cup (IF Tier = "quick" THEN {} ELSE {<<"KEYWORD", "k1">>})

Depth1(L, C) == {Not(l) : l \in L} \cup {Or(a, b) : a \in L, b \in C}
                \cup {And2(a, b) : a \in L, b \in C}
D0 == Leaves
D1 == Depth1(Leaves, Core)
D01c == Core2 \cup Depth1(Core2, Core2)
D2 == {Not(x) : x \in D01c} \cup {Or(x, y) : x, y \in D01c} \cup {And2(x, y) : x, y \in D01c}
      \cup {<<"AND", <<a, b, c>>>> : a, b, c \in Core2}
Shallow == D0 \cup D1
Programs == Shallow \cup D2

(* the same programs, cut into buckets (work units for TLC's workers) *)
NotC == {Not(l) : l \in Core2}
OrC == {Or(a, b) : a, b \in Core2}
AndC == {And2(a, b) : a, b \in Core2}
NBuckets == 10
Bucket(b) ==
    CASE b = 1 -> D0 \cup {Not(l) : l \in Leaves}
      [] b = 2 -> {Or(a, c) : a \in Leaves, c \in Core}
      [] b = 3 -> {And2(a, c) : a \in Leaves, c \in Core}
      [] b = 4 -> {Not(x) : x \in D01c} \cup {<<"AND", <<a, c, d>>>> : a, c, d \in Core2}
      [] b = 5 -> {Or(x, y) : x \in Core2 \cup NotC, y \in D01c}
      [] b = 6 -> {Or(x, y) : x \in OrC, y \in D01c}
      [] b = 7 -> {Or(x, y) : x \in AndC, y \in D01c}
      [] b = 8 -> {And2(x, y) : x \in Core2 \cup NotC, y \in D01c}
      [] b = 9 -> {And2(x, y) : x \in OrC, y \in D01c}
      [] b = 10 -> {And2(x, y) : x \in AndC, y \in D01c}
ASSUME UNION {Bucket(b) : b \in 1..NBuckets} = Programs

(* law images that are run on the code next to their pre-images *)
LawBase == D0 \cup Depth1(Core, Core2)
LawTriples == {<<t[1], t[2], LawImage(t[1], t[2])>> :
                   t \in {u \in Laws \X LawBase : LawApplies(u[1], u[2])}}

---------------------------------------------------------------------------
(* the laws, checked for every <<mailbox, program>> *)

ShapeLaws == {"OrComm", "AndComm", "DeMorganOr", "DeMorganAnd"}
ReverseSet(s) == [k \in DOMAIN s |-> <<s[k][2], s[k][1]>>]

LawsAt(q, mb, shallow) ==
    LET all == DOMAIN mb
        ctx == CtxOf(mb)
        den == Den(q, mb)
    IN /\ WellFormed(q)
       /\ den \subseteq all
       /\ den = {i \in all : Eval(q, mb[i], ctx)}                    \* Coincide
       /\ Den(Not(q), mb) = all \ den                                \* Complement
       /\ \A law \in (IF shallow THEN Laws ELSE ShapeLaws) : LawApplies(law, q) =>
              /\ LawRel(law, q, LawImage(law, q))
              /\ Den(LawImage(law, q), mb) = den                     \* algebra
       /\ (q[1] = "OR") => den = Den(q[2], mb) \cup Den(q[3], mb)
       /\ (q[1] = "AND") => den = {i \in all : \A k \in DOMAIN q[2] : i \in Den(q[2][k], mb)}
       /\ (q[1] \in SetKeys) => Den(<<q[1], ReverseSet(q[2])>>, mb) = den   \* a:b = b:a
       /\ (q[1] = "UID") => den = {i \in all : \E u \in UidsOf(all, mb) :
                                       u = mb[i].uid /\ InSet(u, q[2], ctx.maxuid)}
       \* UID SEARCH = SEARCH through the UID table, which is injective
       /\ UidDen(q, mb) = {u \in UidsOf(all, mb) :
                              \E i \in all : mb[i].uid = u /\ Eval(q, mb[i], ctx)}
       /\ Cardinality(UidDen(q, mb)) = Cardinality(den)

LawsHold == ph = 1 => LawsAt(p, fmb, bk <= 3)

TypeOK == /\ mi \in DOMAIN MailboxSeq
          /\ ph \in {0, 1}
          /\ bk \in 1..NBuckets

(* every key separates something somewhere in the space (non-vacuity) *)
Trivial == {<<"ALL">>, <<"KEYWORD", "k2">>, <<"SUBJECT", "">>, <<"BODY", "qzsub">>,
            <<"SEQ", Set1(1, Star)>>, <<"SEQ", Set1(Star, 1)>>, <<"UID", Set1(7, 9)>>}
NonVacuous ==
    LET FMbs == AllFMbs IN    \* evaluated once here (TLC does not cache it)
    /\ \A l \in Leaves \ Trivial :
          /\ \E i \in DOMAIN FMbs : Den(l, FMbs[i]) # {}
          /\ \E i \in DOMAIN FMbs : Den(l, FMbs[i]) # DOMAIN FMbs[i]
    /\ \A i \in DOMAIN FMbs : Den(<<"ALL">>, FMbs[i]) = DOMAIN FMbs[i]
    /\ \A i \in DOMAIN FMbs : Den(<<"KEYWORD", "k2">>, FMbs[i]) = {}
    /\ \A i \in DOMAIN FMbs : Den(<<"BODY", "qzsub">>, FMbs[i]) = {}
    /\ \A i \in DOMAIN FMbs : Den(<<"UID", Set1(7, 9)>>, FMbs[i]) = {}   \* non-existent UIDs
    \* the space contains judged instances of the unusual set forms
    /\ \A f \in {"set-star-first", "set-reversed-range", "set-beyond-star"} :
          \E l \in OddSetLeaves : \E i \in DOMAIN FMbs :
              /\ f \in Forms(l, CtxOf(FMbs[i]))
              /\ InRange(l, Len(FMbs[i]))
              /\ Den(l, FMbs[i]) # {}

ASSUME NonVacuous

(* the space, for the harness *)
Space == [day0 |-> D,
          palette |-> Palette,
          mailboxes |-> [i \in DOMAIN MailboxSeq |->
                            [slots |-> MailboxSeq[i], deep |-> Deep(MailboxSeq[i])]],
          shallow |-> SetToSeq(Shallow),
          deep |-> SetToSeq(D2 \ Shallow),
          laws |-> SetToSeq(LawTriples),
          leaves |-> SetToSeq(Leaves)]
ASSUME IF "SEARCH_SPACE" \in DOMAIN IOEnv
       THEN JsonSerialize(IOEnv.SEARCH_SPACE, Space) ELSE TRUE

---------------------------------------------------------------------------
(* one initial state per <<mailbox, bucket of programs>> (work units for   *)
(* TLC's workers), one successor per program of the bucket                 *)
Init == /\ mi \in DOMAIN MailboxSeq
        /\ fmb = FMb(mi)
        /\ p = <<"ALL">>
        /\ ph = 0
        /\ bk \in 1..NBuckets
Next == /\ ph = 0
        /\ ph' = 1
        /\ p' \in Bucket(bk)
        /\ UNCHANGED <<mi, fmb, bk>>
Spec == Init /\ [][Next]_<<mi, fmb, p, ph, bk>>
=============================================================================
