---------------------------- MODULE MailProps ----------------------------
(***************************************************************************)
(* Property layer for the mailbox family (C01 C02 C03 C04 C05 C12 C13).   *)
(*                                                                         *)
(* Every clause is a pure operator over an abstract pre-state, an event    *)
(* and an abstract post-state.  The protocol model (MailStore.tla) checks  *)
(* them as action properties on every transition TLC explores; the trace   *)
(* validator (TraceMail.tla) evaluates the very same operators on every    *)
(* step recorded from the implementation.  A clause says only what the     *)
(* property statement says; everything about *when* the code flushes what  *)
(* lives in the protocol layer.                                            *)
(*                                                                         *)
(* Shapes                                                                  *)
(*   Msg  [key, uid, id, d, fl]          fl is a set of flag names         *)
(*   Mb   [vv, next, msgs, files, fseq, nosel, sub, active]                *)
(*        files: set of <<key,id>>   fseq: set of <<key,name>>             *)
(*   Ss   [sel, ro, idle, pend, open]    pend: Seq(<<kind,n>>)             *)
(*   St   [mb: name -> Mb, ss: sess -> Ss]                                 *)
(*   Item [k, n, uid, suid, hasfl, fl, srv, infl, iuid, bid]               *)
(*   Ev   see EvFields                                                     *)
(***************************************************************************)
EXTENDS Naturals, Integers, Sequences, FiniteSets, SequencesExt, FiniteSetsExt, TLC

Star == -1

SysFlags == {"Seen", "Answered", "Flagged", "Deleted", "Draft", "Recent"}

---------------------------------------------------------------------------
(* helpers *)

SeqToSet(s) == {s[i] : i \in DOMAIN s}
Uids(msgs) == [i \in DOMAIN msgs |-> msgs[i].uid]
UidSet(msgs) == {msgs[i].uid : i \in DOMAIN msgs}
IdsOf(msgs) == [i \in DOMAIN msgs |-> msgs[i].id]
RemoveIdx(s, n) == [i \in 1..(Len(s) - 1) |-> IF i < n THEN s[i] ELSE s[i + 1]]
MaxOr0(S) == IF S = {} THEN 0 ELSE Max(S)
Names(st) == DOMAIN st.mb
Has(st, m) == m \in DOMAIN st.mb
StrictlyAscending(s) == \A i \in 1..(Len(s) - 1) : s[i] < s[i + 1]
MsgByUid(msgs, u) == CHOOSE i \in DOMAIN msgs : msgs[i].uid = u
Visible(fl) == fl \ {"Recent", "unseen"}       \* what a client may rely on
Sel(seq, P(_)) == SelectSeq(seq, P)
(* identity of a message as a client can know it; the MH key may change (pack) *)
SameButFlags(x, y) == x.uid = y.uid /\ x.id = y.id
SameMsgs(xs, ys) ==
    Len(xs) = Len(ys) /\ \A i \in DOMAIN xs :
        SameButFlags(xs[i], ys[i]) /\ Visible(xs[i].fl) = Visible(ys[i].fl)

(* Sequence-set denotation (also the C15 reference).  An element is <<a,b>>, *)
(* Star for "*".  Non-UID: numbers in 1..N; UID: uids that exist.            *)
ElemNums(e, N) ==
    LET a == IF e[1] = Star THEN N ELSE e[1]
        b == IF e[2] = Star THEN N ELSE e[2]
        lo == IF a <= b THEN a ELSE b
        hi == IF a <= b THEN b ELSE a
    IN lo..hi
DenoteSeq(set, N) == UNION {ElemNums(set[i], N) : i \in DOMAIN set}
ValidSeq(set, N) == N > 0 /\ DenoteSeq(set, N) \subseteq 1..N
DenoteUid(set, uids) ==
    LET mx == MaxOr0(uids) IN
    {u \in uids : \E i \in DOMAIN set : u \in ElemNums(set[i], mx)}
(* positions addressed by an event in a message list *)
Addressed(ev, msgs) ==
    IF ev.uid THEN {i \in DOMAIN msgs : msgs[i].uid \in DenoteUid(ev.set, UidSet(msgs))}
    ELSE DenoteSeq(ev.set, Len(msgs)) \cap DOMAIN msgs

---------------------------------------------------------------------------
(* C01 -- replaying EXISTS / EXPUNGE / FETCH of one session                 *)

SeqCmd(it) == it.infl \in {"FETCH", "STORE", "SEARCH"} /\ ~it.iuid

ReplayOne(acc, it) ==
    LET v == acc.v IN
    IF it.k = "EXISTS" THEN
        [v |-> IF it.n > Len(v) /\ it.n <= Len(it.srv)
                 THEN v \o SubSeq(it.srv, Len(v) + 1, it.n) ELSE v,
         bad |-> acc.bad
                 \cup (IF it.n < Len(v) THEN {"C01.CountNeverShrinks"} ELSE {})
                 \cup (IF it.n > Len(it.srv) THEN {"C01.ExistsBeyondServer"} ELSE {})]
    ELSE IF it.k = "EXPUNGE" THEN
        [v |-> IF it.n \in 1..Len(v) THEN RemoveIdx(v, it.n) ELSE v,
         bad |-> acc.bad
                 \cup (IF it.n \notin 1..Len(v) THEN {"C01.ExpungeInRange"} ELSE {})
                 \cup (IF SeqCmd(it) THEN {"C01.NoExpungeDuringSeqCmd"} ELSE {})]
    ELSE IF it.k = "FETCH" THEN
        [v |-> v,
         bad |-> acc.bad
                 \cup (IF it.n \notin 1..Len(v) THEN {"C01.FetchInRange"}
                       ELSE IF it.uid # 0 /\ v[it.n] # it.uid THEN {"C01.SentMeansSame"}
                       ELSE IF it.uid = 0 /\ it.suid # 0 /\ v[it.n] # it.suid
                            THEN {"C01.SentMeansSame"}
                       ELSE {})]
    ELSE acc

Replay(view, items) == FoldLeft(ReplayOne, [v |-> view, bad |-> {}], items)

ViewResetting == {"Select", "Examine", "Close", "Unselect", "Logout"}
Flushing == {"Noop", "Check", "Idle", "Done"}

(* view of session s after event ev; [v, bad] *)
C01_Step(s, view, ev, post) ==
    LET start == IF ev.sess = s /\ ev.act \in ViewResetting THEN <<>> ELSE view
        (* out0: what was sent before the command was admitted (flushes, an
           admission resync); out: what was sent from then on *)
        r0 == Replay(start, ev.out0[s])
        r1 == Replay(r0.v, ev.out[s])
        r == [v |-> r1.v, bad |-> r0.bad \cup r1.bad]
        (* the <<number, uid>> pairs the server resolved the command's non-UID
           message set to at the moment it started running *)
        applied == IF ev.sess = s THEN ev.applied ELSE <<>>
        accBad == UNION {
            LET a == applied[i] IN
            IF a[1] \in 1..Len(r0.v) /\ r0.v[a[1]] = a[2] THEN {} ELSE {"C01.AcceptedMeansSame"}
            : i \in DOMAIN applied}
        sel == post.ss[s].sel
        flushBad ==
            IF ev.sess = s /\ ev.act \in Flushing /\ ev.status \in {"OK", "CONT"}
               /\ sel # "" /\ Has(post, sel) /\ post.ss[s].open
               /\ r.v # Uids(post.mb[sel].msgs)
            THEN {"C01.FlushedEqual"} ELSE {}
        gone == ~post.ss[s].open \/ sel = ""
    IN [v |-> IF gone THEN <<>> ELSE r.v, bad |-> r.bad \cup accBad \cup flushBad]

---------------------------------------------------------------------------
(* C02 / C03 -- UIDs                                                        *)

(* per mailbox that keeps its identity (same name, same vv) across the step *)
C02_MbStep(a, b) ==
    LET au == UidSet(a.msgs) bu == UidSet(b.msgs) IN
      (IF ~StrictlyAscending(Uids(b.msgs)) THEN {"C02.Ascending"} ELSE {})
    \cup (IF b.next < a.next THEN {"C02.NextNeverDecreases"} ELSE {})
    \cup (IF \E u \in bu \ au : u < a.next THEN {"C02.UidReused"} ELSE {})
    \cup (IF \E u \in bu : u >= b.next THEN {"C02.NextAboveAll"} ELSE {})

C03_MbStep(a, b) ==
    LET keep == UidSet(a.msgs) \cap UidSet(b.msgs) IN
      (IF \E u \in keep :
             LET x == a.msgs[MsgByUid(a.msgs, u)] y == b.msgs[MsgByUid(b.msgs, u)]
             IN x.id # y.id \/ x.d # y.d
       THEN {"C03.UidNamesSameMessage"} ELSE {})

C03_Bijection(b) ==
    LET n == Len(b.msgs) IN
      (IF Cardinality({b.msgs[i].key : i \in 1..n}) # n
          \/ Cardinality(UidSet(b.msgs)) # n THEN {"C03.Bijection"} ELSE {})
    \cup (IF \E i \in 1..n : b.msgs[i].id = 0
                 \/ <<b.msgs[i].key, b.msgs[i].id>> \notin b.files
          THEN {"C03.MessageBehindKey"} ELSE {})

(* mailboxes that exist (selectable, instantiated) on both sides with the    *)
(* same UIDVALIDITY -- a rename is matched through ev.renames               *)
Live(st, m) == Has(st, m) /\ st.mb[m].active /\ ~st.mb[m].nosel

C0203_Step(pre, ev, post) ==
    UNION {
        IF Live(pre, m) /\ Live(post, m) /\ pre.mb[m].vv = post.mb[m].vv
        THEN C02_MbStep(pre.mb[m], post.mb[m]) \cup C03_MbStep(pre.mb[m], post.mb[m])
        ELSE {} : m \in Names(post)}
    \cup UNION {IF Live(post, m) THEN C03_Bijection(post.mb[m])
                     \cup (IF ~StrictlyAscending(Uids(post.mb[m].msgs)) THEN {"C02.Ascending"} ELSE {})
                     \cup (IF \E u \in UidSet(post.mb[m].msgs) : u >= post.mb[m].next
                           THEN {"C02.NextAboveAll"} ELSE {})
                ELSE {} : m \in Names(post)}
    \cup (IF ev.act \in {"Select", "Examine", "Status"} /\ ev.status = "OK"
             /\ Has(post, ev.mbox)
             /\ (   (ev.told.next # 0 /\ ev.told.next # post.mb[ev.mbox].next)
                 \/ (ev.told.vv # 0 /\ ev.told.vv # post.mb[ev.mbox].vv))
          THEN {"C02.ToldHonest"} ELSE {})
    \cup (IF ev.act = "Append" /\ ev.status = "OK" /\ Live(post, ev.mbox)
          THEN LET b == post.mb[ev.mbox] IN
               IF ev.code.vv # b.vv \/ Len(ev.code.dst) # 1
                  \/ ~(\E i \in DOMAIN b.msgs : b.msgs[i].uid = ev.code.dst[1]
                                               /\ b.msgs[i].id = ev.msgid)
                  \/ (Live(pre, ev.mbox) /\ pre.mb[ev.mbox].vv = b.vv
                      /\ ev.code.dst[1] \in UidSet(pre.mb[ev.mbox].msgs))
               THEN {"C02.AppendUidHonest"} ELSE {}
          ELSE {})
    \cup (IF ev.act \in {"Copy", "Move"} /\ ev.status = "OK" /\ ev.code.name = "COPYUID"
             /\ Live(post, ev.mbox) /\ Live(pre, ev.src)
          THEN LET b == post.mb[ev.mbox] a == pre.mb[ev.src] IN
               IF ev.code.vv # b.vv \/ Len(ev.code.dst) # Len(ev.code.src)
                  \/ (\E i \in DOMAIN ev.code.src :
                        \/ ev.code.src[i] \notin UidSet(a.msgs)
                        \/ ev.code.dst[i] \notin UidSet(b.msgs)
                        \/ (ev.code.src[i] \in UidSet(a.msgs) /\ ev.code.dst[i] \in UidSet(b.msgs)
                            /\ a.msgs[MsgByUid(a.msgs, ev.code.src[i])].id
                               # b.msgs[MsgByUid(b.msgs, ev.code.dst[i])].id)
                        \/ (Live(pre, ev.mbox) /\ pre.mb[ev.mbox].vv = b.vv
                            /\ ev.code.dst[i] \in UidSet(pre.mb[ev.mbox].msgs)))
               THEN {"C02.CopyUidHonest"} ELSE {}
          ELSE {})

(* RENAME moves the whole subtree with every message, UID and flag intact and
   leaves nothing under the old name *)
(* RENAME INBOX x (RFC 3501 6.3.5): every message of INBOX moves to the new
   mailbox x, in order, with its flags and internal date; INBOX stays and is
   empty.  (UIDs are those of the new mailbox.) *)
C03_RenameInbox(pre, ev, post) ==
    IF ev.act = "Rename" /\ ev.status = "OK" /\ ev.src \in {"inbox", "INBOX"}
       /\ Has(pre, "inbox") /\ Live(pre, "inbox") /\ ~Has(pre, ev.mbox)
    THEN (IF ~Has(post, "inbox") \/ ~Live(post, "inbox") \/ post.mb["inbox"].msgs # <<>>
          THEN {"C03.RenameInboxLeavesItEmpty"} ELSE {})
         \cup (IF ~Has(post, ev.mbox) \/ ~Live(post, ev.mbox) THEN {"C03.RenameLostMailbox"}
               ELSE LET a == pre.mb["inbox"].msgs b == post.mb[ev.mbox].msgs
                        known == {a[i].key : i \in DOMAIN a}
                        (* mail an MH agent has put into the folder and the server has not noticed
                           yet moves along with the rest (after the messages it knows) *)
                        waiting == {f[2] : f \in {x \in pre.mb["inbox"].files : x[1] \notin known}}
                    IN
                    IF Len(b) < Len(a) \/ Len(b) > Len(a) + Cardinality(waiting)
                       \/ \E i \in DOMAIN a \cap DOMAIN b :
                              a[i].id # b[i].id \/ a[i].d # b[i].d \/ Visible(a[i].fl) # Visible(b[i].fl)
                       \/ \E j \in DOMAIN b : j > Len(a) /\ b[j].id \notin waiting
                    THEN {"C03.RenameInboxKeepsMessages"} ELSE {})
    ELSE {}

C03_Rename(pre, ev, post) ==
    IF ev.act = "Rename" /\ ev.status = "OK" /\ ev.src \in {"inbox", "INBOX"} THEN C03_RenameInbox(pre, ev, post)
    ELSE IF ev.act = "Rename" /\ ev.status = "OK" /\ ev.src # "inbox" /\ ev.src # "INBOX" THEN
        UNION {
            LET o == ev.renames[i][1] n == ev.renames[i][2] IN
            IF ~Live(pre, o) THEN {}
            ELSE (IF Has(post, o) THEN {"C03.RenameLeftOldName"} ELSE {})
                 \cup (IF ~Live(post, n) THEN {"C03.RenameLostMailbox"}
                       ELSE IF post.mb[n].vv # pre.mb[o].vv \/ post.mb[n].next # pre.mb[o].next
                               \/ ~SameMsgs(pre.mb[o].msgs, post.mb[n].msgs)
                            THEN {"C03.RenameKeepsMessages"} ELSE {})
            : i \in DOMAIN ev.renames}
    ELSE {}

(* what a body FETCH returns is the message its sequence number / UID names *)
C03_Fetched(pre, ev, post) ==
    IF ev.act = "Fetch" /\ ev.status = "OK" /\ ev.sess \in DOMAIN pre.ss
       /\ Live(post, pre.ss[ev.sess].sel) THEN
        LET ms == post.mb[pre.ss[ev.sess].sel].msgs
            its == ev.out[ev.sess]
            a == pre.mb[pre.ss[ev.sess].sel].msgs
        IN
        (* a UID FETCH answers for every message its UID set names *)
        (IF ev.uid /\ Live(pre, pre.ss[ev.sess].sel)
            /\ \E u \in DenoteUid(ev.set, UidSet(a)) \cap UidSet(ms) :
                  ~\E k \in DOMAIN its : its[k].k = "FETCH" /\ its[k].uid = u
         THEN {"C03.UidFetchAnswers"} ELSE {})
        \cup UNION {
             LET it == its[k] IN
             IF it.k = "FETCH" /\ it.bid # 0 /\ it.infl = "FETCH" THEN
                (IF it.n \in DOMAIN ms /\ ms[it.n].id # it.bid THEN {"C03.SeqFetchReturnsMessage"} ELSE {})
                \cup (IF it.uid # 0 /\ ~\E i \in DOMAIN ms : ms[i].uid = it.uid /\ ms[i].id = it.bid
                      THEN {"C03.UidFetchReturnsMessage"} ELSE {})
             ELSE {} : k \in DOMAIN its}
    ELSE {}

(* UIDVALIDITY: vvh is the set of <<name, vv>> incarnations seen so far; an   *)
(* incarnation continues when name and vv are unchanged, or it is the target  *)
(* of the rename this event performed.                                        *)
NsActs == {"Create", "Delete", "Rename", "Restart", "Start"}
C02_Vv(pre, ev, post, vvh) ==
    UNION {
        LET b == post.mb[m] IN
        IF ~b.active THEN {}
        ELSE IF Has(pre, m) /\ pre.mb[m].active /\ pre.mb[m].vv = b.vv THEN {}
        ELSE IF ev.act = "Rename" /\ ev.status = "OK" /\ m # "inbox"
                /\ \E r \in SeqToSet(ev.renames) : r[2] = m /\ Has(pre, r[1])
                      /\ pre.mb[r[1]].active /\ pre.mb[r[1]].vv = b.vv
             THEN {}     \* the renamed mailbox is the same incarnation under another name - also when it
                         \* comes back to a name it had before (a/b -> c -> a/b keeps its UIDVALIDITY)
        ELSE   (IF <<m, b.vv>> \in vvh THEN {"C02.VvPairReused"} ELSE {})
          \cup (IF \E p \in vvh : p[1] = m /\ p[2] >= b.vv THEN {"C02.VvFresh"} ELSE {})
          \cup (IF Has(pre, m) /\ pre.mb[m].active /\ ev.act \notin NsActs
                THEN {"C02.VvChanged"} ELSE {})
        : m \in Names(post)}
VvHist(post, vvh) == vvh \cup {<<m, post.mb[m].vv>> : m \in {x \in Names(post) : post.mb[x].active}}

---------------------------------------------------------------------------
(* C04 -- flags                                                             *)

StoreResult(mode, fl, F) ==
    LET F2 == F \ {"Recent"} IN
    IF mode = "+" THEN fl \cup F2
    ELSE IF mode = "-" THEN fl \ F2
    ELSE F2 \cup (fl \cap {"Recent"})

SeenComplement(b) ==
    IF \E i \in DOMAIN b.msgs : ("Seen" \in b.msgs[i].fl) = ("unseen" \in b.msgs[i].fl)
    THEN {"C04.SeenUnseenComplement"} ELSE {}


(* flags (without Recent / unseen marker) of the messages both sides have *)
FlagsKept(a, b, except) ==
    \A u \in (UidSet(a.msgs) \cap UidSet(b.msgs)) \ except :
        Visible(a.msgs[MsgByUid(a.msgs, u)].fl) = Visible(b.msgs[MsgByUid(b.msgs, u)].fl)

(* SELECT / EXAMINE / STATUS report aggregates of the flags: the number of
   messages, of \Recent messages, of unseen messages (STATUS) and the position of
   the first unseen message (SELECT: OK [UNSEEN n], absent when there is none).
   They are reports about flags like any FETCH FLAGS: they agree with the
   mailbox as it is when the command completes. *)
CountWith(ms, f) == Cardinality({i \in DOMAIN ms : f \in ms[i].fl})
FirstWith(ms, f) == LET I == {i \in DOMAIN ms : f \in ms[i].fl} IN
                    IF I = {} THEN 0 ELSE CHOOSE i \in I : \A j \in I : i <= j
C04_Counts(ev, post) ==
    IF ev.act \in {"Select", "Examine", "Status"} /\ ev.status = "OK" /\ ev.told.counts
       /\ Has(post, ev.mbox) /\ Live(post, ev.mbox)
    THEN LET ms == post.mb[ev.mbox].msgs IN
         (IF ev.told.exists # Len(ms) THEN {"C04.CountsAgree:exists"} ELSE {})
         \cup (IF ev.told.recent # CountWith(ms, "Recent") THEN {"C04.CountsAgree:recent"} ELSE {})
         \cup (IF ev.act = "Status" /\ ev.told.unseen # CountWith(ms, "unseen")
               THEN {"C04.CountsAgree:unseen"} ELSE {})
         \cup (IF ev.act # "Status" /\ ev.told.first # FirstWith(ms, "unseen")
               THEN {"C04.CountsAgree:first-unseen"} ELSE {})
    ELSE {}

(* SEARCH by flags agrees with the flags (of the mailbox as it is when the
   command runs; SEARCH changes nothing).  Keys outside this table are not judged
   here (C14 decides SEARCH in general). *)
KnownKeys == {"ALL", "1:*", "DELETED", "NOT DELETED", "UNSEEN", "SEEN", "FLAGGED", "KEYWORD k1", "RECENT",
              "ANSWERED", "UNDELETED", "NEW", "OLD"}
KeyHolds(key, x) ==
    CASE key \in {"ALL", "1:*"} -> TRUE
      [] key = "DELETED" -> "Deleted" \in x.fl
      [] key \in {"NOT DELETED", "UNDELETED"} -> "Deleted" \notin x.fl
      [] key = "UNSEEN" -> "unseen" \in x.fl
      [] key = "SEEN" -> "unseen" \notin x.fl
      [] key = "FLAGGED" -> "Flagged" \in x.fl
      [] key = "ANSWERED" -> "Answered" \in x.fl
      [] key = "KEYWORD k1" -> "k1" \in x.fl
      [] key = "RECENT" -> "Recent" \in x.fl
      [] key = "NEW" -> "Recent" \in x.fl /\ "unseen" \in x.fl
      [] key = "OLD" -> "Recent" \notin x.fl
      [] OTHER -> TRUE
C04_Search(pre, ev, post) ==
    IF ev.act = "Search" /\ ev.status = "OK" /\ ev.key \in KnownKeys
       /\ Has(pre, ev.src) /\ Live(pre, ev.src) /\ Has(post, ev.src) /\ Live(post, ev.src)
       /\ pre.mb[ev.src].msgs = post.mb[ev.src].msgs
    THEN LET ms == post.mb[ev.src].msgs
             hit == {i \in DOMAIN ms : KeyHolds(ev.key, ms[i])}
             want == IF ev.uid THEN {ms[i].uid : i \in hit} ELSE hit
         IN IF SeqToSet(ev.found) # want \/ Len(ev.found) # Cardinality(want)
            THEN {"C04.SearchAgrees"} ELSE {}
    ELSE {}

C04_Step(pre, ev, post) ==
    LET s == ev.sess
        m == IF ev.act \in {"Store", "Fetch"} THEN ev.src ELSE ""
    IN
    C04_Counts(ev, post) \cup C04_Search(pre, ev, post) \cup
    (* memory-level complement everywhere *)
    UNION {IF Live(post, x) THEN SeenComplement(post.mb[x]) ELSE {} : x \in Names(post)}
    \cup
    (* only STORE and a non-PEEK body FETCH change flags of existing messages *)
    UNION {IF Live(pre, x) /\ Live(post, x) /\ pre.mb[x].vv = post.mb[x].vv
              /\ ~(x = m /\ ev.act = "Store")
              /\ ~(x = m /\ ev.act = "Fetch" /\ ~ev.peek)
              /\ ~FlagsKept(pre.mb[x], post.mb[x], {})
           THEN {"C04.OnlyStoreChangesFlags"} ELSE {} : x \in Names(post)}
    \cup
    (IF ev.act = "Store" /\ Live(pre, m) /\ Live(post, m) THEN
        LET a == pre.mb[m] b == post.mb[m]
            addr == Addressed(ev, a.msgs)
            F == SeqToSet(ev.flags)
            ro == pre.ss[s].ro
        IN
        IF "Recent" \in F THEN
            (IF ev.status = "OK" THEN {"C04.RecentNotSettable"} ELSE {})
            \cup (IF ~FlagsKept(a, b, {}) THEN {"C04.RefusedStoreChanged"} ELSE {})
        ELSE IF ev.status # "OK" THEN
            (IF ~FlagsKept(a, b, {}) THEN {"C04.RefusedStoreChanged"} ELSE {})
        ELSE IF ro THEN {}   \* C05.ExamineChangesNothing decides read-only sessions
        ELSE
            (IF Len(a.msgs) # Len(b.msgs)
                \/ \E i \in DOMAIN a.msgs \cap DOMAIN b.msgs : ~SameButFlags(a.msgs[i], b.msgs[i])
             THEN {"C04.StoreTouchedMessages"}
             ELSE
               (IF \E i \in DOMAIN a.msgs :
                      Visible(b.msgs[i].fl) #
                        Visible(IF i \in addr THEN StoreResult(ev.mode, a.msgs[i].fl, F)
                                ELSE a.msgs[i].fl)
                THEN {"C04.StoreExact"} ELSE {})
               \cup (IF \E i \in DOMAIN a.msgs :
                        ("Recent" \in a.msgs[i].fl) # ("Recent" \in b.msgs[i].fl)
                     THEN {"C04.RecentNotSettable"} ELSE {})
               \cup
               (* the issuer is told (unless SILENT) ... *)
               (IF ~ev.silent /\ \E i \in addr :
                      ~\E k \in DOMAIN ev.out[s] :
                          LET it == ev.out[s][k] IN
                          it.k = "FETCH" /\ it.n = i /\ it.hasfl
                          /\ Visible(it.fl) = Visible(b.msgs[i].fl)
                THEN {"C04.IssuerTold"} ELSE {})
               \cup (IF ev.silent /\ \E k \in DOMAIN ev.out[s] : ev.out[s][k].k = "FETCH" /\ ~ev.out[s][k].st
                     THEN {"C04.SilentLeak"} ELSE {})      \* (st: came out of the notification queue)
               \cup
               (* ... and every other session on the mailbox has the change  *)
               (* delivered or queued                                        *)
               (IF \E t \in DOMAIN post.ss : t # s /\ post.ss[t].open /\ pre.ss[t].sel = m
                      /\ post.ss[t].sel = m
                      /\ \E i \in addr :
                            Visible(a.msgs[i].fl) # Visible(b.msgs[i].fl)
                            /\ ~(\E k \in DOMAIN ev.out[t] :
                                    ev.out[t][k].k = "FETCH" /\ ev.out[t][k].n = i)
                            /\ ~(\E k \in DOMAIN post.ss[t].pend :
                                    post.ss[t].pend[k] = <<"FETCH", i>>)
                THEN {"C04.OthersTold"} ELSE {}))
     ELSE {})
    \cup
    (IF ev.act = "Fetch" /\ ev.status = "OK" /\ Live(pre, m) /\ Live(post, m) THEN
        LET a == pre.mb[m] b == post.mb[m]
            addr == Addressed(ev, a.msgs)
        IN
        IF Len(a.msgs) # Len(b.msgs) THEN {}
        ELSE
          (IF ~ev.peek /\ ~pre.ss[s].ro
              /\ \E i \in addr : "Seen" \notin b.msgs[i].fl
           THEN {"C04.ImplicitSeen"} ELSE {})
          \cup (IF \E i \in DOMAIN a.msgs :
                     Visible(b.msgs[i].fl) \ {"Seen"} # Visible(a.msgs[i].fl) \ {"Seen"}
                     \/ ("Seen" \in a.msgs[i].fl /\ "Seen" \notin b.msgs[i].fl)
                     \/ (i \notin addr /\ Visible(b.msgs[i].fl) # Visible(a.msgs[i].fl))
                THEN {"C04.FetchChangedOtherFlags"} ELSE {})
          \cup
          (* what the FETCH reported agrees with the state *)
          (IF \E k \in DOMAIN ev.out[s] :
                 LET it == ev.out[s][k] IN
                 it.k = "FETCH" /\ it.hasfl /\ it.infl = "FETCH" /\ it.n \in DOMAIN a.msgs
                 /\ Visible(it.fl) \ {"Seen"} # Visible(a.msgs[it.n].fl) \ {"Seen"}
           THEN {"C04.ReportedAgrees"} ELSE {})
     ELSE {})
    \cup
    (* a pend queue never survives a flush point *)
    (IF ev.act \in Flushing /\ ev.status \in {"OK", "CONT"} /\ post.ss[s].open
        /\ post.ss[s].pend # <<>> THEN {"C04.SyncPointFlushes"} ELSE {})

(* What a session has been told about flags: fv is a set of <<uid, flagset>>,
   one entry per uid it has received a FETCH FLAGS for since it selected the
   mailbox.  At its synchronisation points the entries must agree with the
   server (every change reaches every other selected session by then). *)
FvTold(fv, items) ==
    FoldLeft(LAMBDA acc, it :
                IF it.k = "FETCH" /\ it.hasfl /\ (it.uid # 0 \/ it.suid # 0)
                THEN LET u == IF it.uid # 0 THEN it.uid ELSE it.suid IN
                     {e \in acc : e[1] # u} \cup {<<u, Visible(it.fl)>>}
                ELSE acc,
             fv, items)
C04_Fv(s, fv, ev, post) ==
    LET start == IF ev.sess = s /\ ev.act \in ViewResetting THEN {} ELSE fv
        f1 == FvTold(FvTold(start, ev.out0[s]), ev.out[s])
        sel == post.ss[s].sel
        (* after its own STORE.SILENT the client knows the new value by itself *)
        f2 == IF ev.sess = s /\ ev.act = "Store" /\ ev.silent /\ ev.status = "OK"
                 /\ sel # "" /\ Live(post, sel)
              THEN {e \in f1 : ~\E i \in DOMAIN post.mb[sel].msgs : post.mb[sel].msgs[i].uid = e[1]}
                   \cup {<<post.mb[sel].msgs[i].uid, Visible(post.mb[sel].msgs[i].fl)>> :
                            i \in {k \in DOMAIN post.mb[sel].msgs :
                                      \E e \in f1 : e[1] = post.mb[sel].msgs[k].uid}}
              ELSE f1
        bad == IF ev.sess = s /\ ev.act \in Flushing /\ ev.status \in {"OK", "CONT"}
                  /\ sel # "" /\ Live(post, sel) /\ post.ss[s].open
                  /\ \E i \in DOMAIN post.mb[sel].msgs :
                        \E e \in f2 : e[1] = post.mb[sel].msgs[i].uid
                                      /\ e[2] # Visible(post.mb[sel].msgs[i].fl)
               THEN {"C04.SyncedFlagsAgree"} ELSE {}
    IN [fv |-> IF ~post.ss[s].open \/ sel = "" THEN {} ELSE f2, bad |-> bad]

---------------------------------------------------------------------------
(* C05 -- removal / addition                                                *)

RemainIds(a, gone) == Sel(a.msgs, LAMBDA x : x.uid \notin gone)
(* messages present in the folder but not yet known to the server *)
Unnoticed(a) == {f \in a.files : \A i \in DOMAIN a.msgs : a.msgs[i].key # f[1]}

IsPrefixOf(xs, ys) ==
    Len(xs) <= Len(ys) /\ SameMsgs(xs, SubSeq(ys, 1, Len(xs)))
SameIdent(xs, ys) ==
    Len(xs) = Len(ys) /\ \A i \in DOMAIN xs : SameButFlags(xs[i], ys[i])
IsIdPrefixOf(xs, ys) ==
    Len(xs) <= Len(ys) /\ SameIdent(xs, SubSeq(ys, 1, Len(xs)))
DropN(xs, n) == SubSeq(xs, n + 1, Len(xs))
BagOfIds(ms) == [i \in {ms[k].id : k \in DOMAIN ms} |->
                    Cardinality({k \in DOMAIN ms : ms[k].id = i})]
BagOfFileIds(F) == [i \in {f[2] : f \in F} |-> Cardinality({f \in F : f[2] = i})]

Removers == {"Expunge", "Close", "Move", "Delete", "Rename", "PopQuit", "Restart", "Crash"}

C05_Step(pre, ev, post) ==
    LET s == ev.sess IN
    (* nothing disappears unless a removing command ran *)
    UNION {IF Live(pre, x) /\ Live(post, x) /\ pre.mb[x].vv = post.mb[x].vv
              /\ ev.act \notin Removers
              /\ ~IsIdPrefixOf(pre.mb[x].msgs, post.mb[x].msgs)
           THEN {"C05.NoOtherLoss"} ELSE {} : x \in Names(post)}
    \cup
    UNION {IF Live(pre, x) /\ ~Has(post, x) /\ ev.act \notin {"Delete", "Rename"}
           THEN {"C05.MailboxVanished"} ELSE {} : x \in Names(pre)}
    \cup
    (IF ev.act \in {"Expunge", "Close"} /\ Live(pre, ev.src) /\ Live(post, ev.src) THEN
        LET a == pre.mb[ev.src] b == post.mb[ev.src]
            del == {a.msgs[i].uid : i \in {k \in DOMAIN a.msgs : "Deleted" \in a.msgs[k].fl}}
            want == IF pre.ss[s].ro \/ ev.status # "OK" THEN {}
                    ELSE IF ev.uid THEN del \cap DenoteUid(ev.set, UidSet(a.msgs))
                    ELSE del
        IN IF IsIdPrefixOf(RemainIds(a, want), b.msgs) THEN {} ELSE {"C05.ExpungeExact"}
     ELSE {})
    \cup
    (IF ev.act = "Move" /\ Live(pre, ev.src) /\ Live(post, ev.src) THEN
        LET a == pre.mb[ev.src] b == post.mb[ev.src]
            want == IF ev.status # "OK" THEN {}
                    ELSE {a.msgs[i].uid : i \in Addressed(ev, a.msgs)}
        IN IF IsIdPrefixOf(RemainIds(a, want), b.msgs) THEN {} ELSE {"C05.MoveExact"}
     ELSE {})
    \cup
    (IF ev.act \in {"Append", "Copy", "Move"} /\ ev.status = "OK"
        /\ Live(pre, ev.mbox) /\ Live(post, ev.mbox) /\ pre.mb[ev.mbox].vv = post.mb[ev.mbox].vv
        /\ (ev.act = "Append" \/ Live(pre, ev.src))
        /\ ~(ev.act = "Move" /\ ev.src = ev.mbox) THEN
        LET a == pre.mb[ev.mbox] b == post.mb[ev.mbox]
            src == IF ev.act = "Append" THEN <<>> ELSE pre.mb[ev.src].msgs
            addr == IF ev.act = "Append" THEN {} ELSE Addressed(ev, src)
            added == DropN(b.msgs, Len(a.msgs))
            srcm == Sel(src, LAMBDA x : \E i \in addr : src[i] = x)
            (* flags/date the new copies must carry, by id *)
            okCopy(x) ==
                IF ev.act = "Append"
                THEN x.id = ev.msgid
                     /\ Visible(x.fl) = Visible(SeqToSet(ev.flags))
                     /\ (ev.date = 0 \/ x.d = ev.date)
                ELSE \E i \in addr : src[i].id = x.id /\ src[i].d = x.d
                                     /\ Visible(src[i].fl) = Visible(x.fl)
            fromAgent(x) == <<x.key, x.id>> \in Unnoticed(a)
            mine == Sel(added, LAMBDA x : ~fromAgent(x))
        IN
          (IF ~IsIdPrefixOf(a.msgs, b.msgs) THEN {"C05.AddKeepsExisting"} ELSE {})
          \cup (IF IsIdPrefixOf(a.msgs, b.msgs) /\
                   (\/ Len(mine) # (IF ev.act = "Append" THEN 1 ELSE Cardinality(addr))
                    \/ \E k \in DOMAIN mine : ~okCopy(mine[k])
                    \/ (ev.act # "Append" /\ BagOfIds(mine) # BagOfIds(srcm)))
                THEN {"C05.AddExact"} ELSE {})
     ELSE {})
    \cup
    (* refused for its arguments => nothing changed *)
    (IF ev.status \in {"NO", "BAD"} /\ ev.act \notin {"Select", "Examine"}
        /\ \E x \in Names(pre) : Live(pre, x) /\
              (~Live(post, x) \/ ~SameMsgs(pre.mb[x].msgs, SubSeq(post.mb[x].msgs, 1,
                         IF Len(post.mb[x].msgs) < Len(pre.mb[x].msgs)
                         THEN Len(post.mb[x].msgs) ELSE Len(pre.mb[x].msgs)))
               \/ Len(post.mb[x].msgs) < Len(pre.mb[x].msgs))
     THEN {"C05.RefusedChangesNothing"} ELSE {})
    \cup
    (* an EXAMINE session never changes messages or flags *)
    (IF s # "" /\ s \in DOMAIN pre.ss /\ pre.ss[s].ro /\ pre.ss[s].sel # ""
        /\ ev.act \in {"Store", "Fetch", "Expunge", "Close", "Move", "Search", "Noop", "Check"}
        /\ Live(pre, pre.ss[s].sel) /\ Live(post, pre.ss[s].sel)
        /\ ~IsPrefixOf(pre.mb[pre.ss[s].sel].msgs, post.mb[pre.ss[s].sel].msgs)
     THEN {"C05.ExamineChangesNothing"} ELSE {})

---------------------------------------------------------------------------
(* C13 -- MH agent <-> IMAP                                                 *)

NameOfFlag(f) == f    \* fseq already uses flag names ("Seen", "Answered", ...) + "unseen"

(* .mh_sequences agrees with what sessions see, for the keys the server knows, *)
(* and mentions no key whose file is gone.                                     *)
FileAgrees(b) ==
    LET keys == {b.msgs[i].key : i \in DOMAIN b.msgs}
        onDisk == {f[1] : f \in b.files}
    IN
      (IF \E e \in b.fseq : e[1] \notin onDisk THEN {"C13.FileMentionsRemoved"} ELSE {})
    \cup (IF \E i \in DOMAIN b.msgs :
              LET k == b.msgs[i].key
                  ffl == {e[2] : e \in {x \in b.fseq : x[1] = k}}
              IN Visible(ffl) # Visible(b.msgs[i].fl)
                 \/ ("Seen" \in b.msgs[i].fl) = (<<k, "unseen">> \in b.fseq)
          THEN {"C13.FileAgreesAfterCommand"} ELSE {})

FlagOrRemove == {"Store", "Expunge", "Close", "Move", "Copy", "Append", "PopQuit"}

C13_Step(pre, ev, post, agent) ==
    (IF ev.act \in FlagOrRemove /\ ev.status = "OK" THEN
        UNION {IF Live(post, x) /\ (x = ev.src \/ x = ev.mbox)
                  /\ ~(ev.act = "Fetch" /\ ev.peek)
               THEN FileAgrees(post.mb[x]) ELSE {} : x \in Names(post)}
     ELSE IF ev.act = "Fetch" /\ ~ev.peek /\ ev.status = "OK" /\ Live(post, ev.src)
     THEN FileAgrees(post.mb[ev.src])
     ELSE {})
    \cup
    (* newly announced messages: at the end, fresh larger UIDs, \Recent, and   *)
    (* exactly the agent's flags; existing ones untouched                      *)
    UNION {IF Live(pre, x) /\ Live(post, x) /\ pre.mb[x].vv = post.mb[x].vv
              /\ IsIdPrefixOf(pre.mb[x].msgs, post.mb[x].msgs)
           THEN LET a == pre.mb[x] b == post.mb[x]
                    added == DropN(b.msgs, Len(a.msgs))
                    (* messages the command itself put there (named by its APPENDUID / COPYUID) are not the
                       agent's, even when file number and content coincide with an old delivery *)
                    byCmd == IF ev.act \in {"Copy", "Move", "Append"} /\ x = ev.mbox /\ ev.status = "OK"
                             THEN SeqToSet(ev.code.dst) ELSE {}
                IN UNION {
                     LET y == added[k] IN
                     IF y.uid \notin byCmd /\ \E g \in agent : g[1] = x /\ g[2] = y.key /\ g[3] = y.id THEN
                        (IF Visible(y.fl) #
                            (IF (CHOOSE g \in agent : g[1] = x /\ g[2] = y.key /\ g[3] = y.id)[4]
                             THEN {} ELSE {"Seen"})
                         THEN {"C13.AgentFlagsKept"} ELSE {})
                        \cup (IF "Recent" \notin y.fl THEN {"C13.AnnouncedRecent"} ELSE {})
                     ELSE {} : k \in DOMAIN added}
           ELSE {} : x \in Names(post)}

(* a delivery whose mtime advanced is announced by the next sync point / poll *)
C13_Announced(pre, ev, post) ==
    IF ev.act \in {"Poll", "Noop", "Check"} /\ ev.status \in {"OK", "CONT"} THEN
       UNION {IF Live(post, x) /\ ev.dirty[x] /\ Unnoticed(post.mb[x]) # {}
                 /\ (ev.mbox = "" \/ ev.mbox = x)
                 /\ (IF ev.act = "Poll"
                     THEN \E t \in DOMAIN pre.ss : pre.ss[t].open /\ pre.ss[t].sel = x
                                                    /\ post.ss[t].sel = x
                     ELSE post.ss[ev.sess].sel = x)
              THEN {"C13.AnnouncedBySyncPoint"} ELSE {} : x \in DOMAIN ev.dirty}
    ELSE {}

---------------------------------------------------------------------------
(* C12 -- an orderly restart changes nothing visible                        *)

(* An orderly restart may notice mail an MH agent delivered meanwhile (that is
   not a change made by the restart); everything else a client can observe
   must be identical. *)
C12_MbSame(a, b) ==
    LET added == DropN(b.msgs, Len(a.msgs)) IN
    /\ a.vv = b.vv /\ a.sub = b.sub /\ a.nosel = b.nosel
    /\ IsPrefixOf(a.msgs, b.msgs)
    /\ \A k \in DOMAIN added : added[k].id \in {f[2] : f \in Unnoticed(a)}    \* (a pack may renumber keys)
    /\ b.next = a.next + Len(added)

C12_Step(pre, ev, post) ==
    IF ev.act = "Restart" THEN
        (IF \E x \in Names(pre) : pre.mb[x].active /\ ~Has(post, x)
         THEN {"C12.MailboxLost"} ELSE {})
        \cup (IF \E x \in Names(post) : x \notin Names(pre) /\ x \notin SeqToSet(ev.special)
              THEN {"C12.MailboxAppeared"} ELSE {})
        \cup UNION {IF pre.mb[x].active /\ Has(post, x) /\ post.mb[x].active
                       /\ ~C12_MbSame(pre.mb[x], post.mb[x])
                    THEN {"C12.RestartChangedMailbox"} ELSE {} : x \in Names(pre)}
    ELSE {}

=============================================================================
