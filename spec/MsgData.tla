------------------------------ MODULE MsgData ------------------------------
(***************************************************************************)
(* C16 -- message data items are mutually consistent and faithful to what   *)
(* was stored.                                                              *)
(*                                                                         *)
(* (a) The space of message SHAPES (a finite product; the harness turns     *)
(*     every point into octets, see harness/msgdata.py).                    *)
(* (b) The RELATIONS between the data items of one stored message, over     *)
(*     octet sequences (Seq(0..255)), as the verdict function Bad(r, src).  *)
(* (c) A REFERENCE rendering of a stored octet string (one of the many      *)
(*     renderings the property allows) used to check the relations' laws    *)
(*     and that the verdict function accepts a conforming server and        *)
(*     rejects each kind of corruption (non-vacuity).                       *)
(*                                                                         *)
(* MsgDataMC.tla enumerates (a) and checks (c) exhaustively over small      *)
(* octet strings; MsgDataTrace.tla applies (b) to what the real server      *)
(* returned.                                                                *)
(***************************************************************************)
EXTENDS Integers, Sequences, FiniteSets, SequencesExt, TLC

CR == 13
LF == 10

---------------------------------------------------------------------------
(* (a) shapes *)
Eols    == {"lf", "crlf", "mixed"}         \* line terminators in the stored octets
Finals  == {"yes", "no"}                   \* is the last line terminated?
Hdrs    == {"plain", "eightbit", "encoded", "folded", "missing", "long"}
Bodies  == {"ascii", "eightbit", "empty", "nosep"}   \* nosep: no blank line and no body
Structs == {"plain", "multi2", "nested", "rfc822top", "rfc822nested"}
Shapes  == [eol : Eols, final : Finals, hdr : Hdrs, body : Bodies, struct : Structs]
(* raw 8-bit octets in a header field have no defined character set: the    *)
(* "same header fields" clause is not applied to them                       *)
WellFormedShape(sh) == sh.hdr # "eightbit"

---------------------------------------------------------------------------
(* (b) octet-level definitions *)
Min2(a, b) == IF a <= b THEN a ELSE b
Max2(a, b) == IF a >= b THEN a ELSE b

(* <o.n>: n octets starting at (0-based) origin o, clipped at the end *)
Slice(s, o, n) == SubSeq(s, o + 1, Min2(o + n, Len(s)))

(* every line ends in CRLF: no LF without a CR before it, and the last octet *)
(* (if any) ends a line                                                      *)
AllLinesCRLF(s) ==
    /\ \A i \in 1..Len(s) : s[i] = LF => (i > 1 /\ s[i - 1] = CR)
    /\ s # <<>> => s[Len(s)] = LF

(* the LF-normal form: CR LF -> LF (what "the same content" is blind to) *)
DeCR(s) ==
    LET keep == {i \in 1..Len(s) : ~(s[i] = CR /\ i < Len(s) /\ s[i + 1] = LF)}
        K == SetToSortSeq(keep, <)
    IN [j \in 1..Len(K) |-> s[K[j]]]
(* index of the LF that is the first empty line of an LF-normal x, 0 if none *)
BlankAt(x) ==
    LET B == {i \in 1..Len(x) : x[i] = LF /\ (i = 1 \/ x[i - 1] = LF)}
    IN IF B = {} THEN 0 ELSE CHOOSE i \in B : \A j \in B : i <= j
BodyOf(x) == IF BlankAt(x) = 0 THEN <<>> ELSE SubSeq(x, BlankAt(x) + 1, Len(x))
(* without one final line terminator (a missing final newline may be added) *)
Chop(x) == IF x # <<>> /\ x[Len(x)] = LF THEN SubSeq(x, 1, Len(x) - 1) ELSE x
SameBodyContent(sent, text) == Chop(BodyOf(DeCR(sent))) = Chop(DeCR(text))

(* MIME-structured messages: the same leaf parts, in order, each with the   *)
(* same type and the same content (a renderer may re-space the delimiters) *)
SameLeaves(a, b) ==
    /\ Len(a) = Len(b)
    /\ \A i \in 1..Len(a) :
          /\ a[i].ct = b[i].ct
          /\ IF a[i].body.big \/ b[i].body.big THEN TRUE
             ELSE Chop(DeCR(a[i].body.b)) = Chop(DeCR(b[i].body.b))

(* header fields as bags of <<name, value>> *)
Count(q, x) == Cardinality({i \in 1..Len(q) : q[i] = x})
SameFields(a, b) ==
    /\ Len(a) = Len(b)
    /\ \A i \in 1..Len(a) : Count(a, a[i]) = Count(b, a[i])

---------------------------------------------------------------------------
(* Items.  A literal is [n |-> length, big |-> BOOLEAN, b |-> octets (empty *)
(* when big), h |-> SHA-256 hex].  Large literals are compared by length and *)
(* digest only (digest-level relation).                                      *)
Item(b) == [n |-> Len(b), big |-> FALSE, b |-> b, h |-> "-"]
Same(x, y) == /\ x.n = y.n
              /\ x.h = y.h
              /\ (~x.big /\ ~y.big) => x.b = y.b

Names(r) == {r.secs[i].name : i \in 1..Len(r.secs)}
Sec(r, nm) == r.secs[CHOOSE i \in 1..Len(r.secs) : r.secs[i].name = nm]
Judgeable(r) == {"", "HEADER", "TEXT"} \subseteq Names(r) /\ r.rfc_a.ok

(* how BODY[HEADER] o BODY[TEXT] misses BODY[] (a diagnosis, not a verdict) *)
HTDiagnosis(full, hdr, txt, harnessDiag) ==
    IF full.big \/ hdr.big \/ txt.big THEN "L:" \o harnessDiag
    ELSE IF hdr.b = full.b /\ txt.b = <<CR, LF>> THEN "empty-text-as-CRLF"
    ELSE IF IsPrefix(hdr.b, full.b) THEN "text-not-the-rest"
    ELSE IF \E k \in 1..(Len(full.b) - Len(hdr.b)) : SubSeq(full.b, k + 1, k + Len(hdr.b)) = hdr.b
         THEN "header-from-inside"
    ELSE "header-not-the-start"

(* The verdict: the set of <<clause, where>> that record r violates.  where  *)
(* is the index of the section in r.secs (of the source's section for COPY) *)
(* as a string, an item name, a diagnosis, or the way of storing; it is kept *)
(* short because TLC wraps printed tuples at 80 columns.  src is the record  *)
(* of the message r was copied from (only read when r.how = "copy").         *)
Bad(r, src) ==
    LET full == Sec(r, "").a
        hdr  == Sec(r, "HEADER").a
        txt  == Sec(r, "TEXT").a
        S    == 1..Len(r.secs)
    IN
    (IF r.rfc_a.size # full.n THEN {<<"C16.SizeIsOctetCount", "RFC822.SIZE">>} ELSE {})
    \cup
    (IF (IF full.big \/ hdr.big \/ txt.big THEN Same(r.cat, full) ELSE hdr.b \o txt.b = full.b)
     THEN {} ELSE {<<"C16.HeaderThenTextIsBody", HTDiagnosis(full, hdr, txt, r.catdiag)>>})
    \cup
    (IF Same(r.rfc_a.full, full) THEN {} ELSE {<<"C16.Rfc822SameAsBody", "RFC822">>})
    \cup
    (IF Same(r.rfc_a.header, hdr) THEN {} ELSE {<<"C16.Rfc822SameAsBody", "RFC822.HEADER">>})
    \cup
    (IF Same(r.rfc_a.text, txt) THEN {} ELSE {<<"C16.Rfc822SameAsBody", "RFC822.TEXT">>})
    \cup
    {<<"C16.PartialIsSlice", ToString(i)>> : i \in
        {i \in S : \E k \in 1..Len(r.secs[i].parts) :
            LET p == r.secs[i].parts[k] IN
            /\ p.present
            /\ ~(IF r.secs[i].a.big THEN Same(p.got, p.ref)
                 ELSE ~p.got.big /\ p.got.b = Slice(r.secs[i].a.b, p.o, p.c))}}
    \cup
    {<<"C16.LinesEndInCRLF", ToString(i)>> : i \in
        {i \in S : ~r.secs[i].a.big /\ ~AllLinesCRLF(r.secs[i].a.b)}}
    \cup
    {<<"C16.RepeatIsIdentical", ToString(i)>> : i \in
        {i \in S : ~(r.secs[i].twice /\ Same(r.secs[i].a, r.secs[i].b))}}
    \cup
    (IF /\ r.rfc_b.ok /\ r.rfc_b.size = r.rfc_a.size /\ Same(r.rfc_b.full, r.rfc_a.full)
        /\ Same(r.rfc_b.header, r.rfc_a.header) /\ Same(r.rfc_b.text, r.rfc_a.text)
     THEN {} ELSE {<<"C16.RepeatIsIdentical", "RFC822*">>})
    \cup
    (IF r.how = "copy"
     THEN (IF src.rfc_a.size = r.rfc_a.size THEN {} ELSE {<<"C16.CopyIsIdentical", "RFC822.SIZE">>})
          \cup {<<"C16.CopyIsIdentical", ToString(i)>> : i \in
                    {i \in 1..Len(src.secs) : LET nm == src.secs[i].name IN
                        nm \notin Names(r) \/ ~Same(src.secs[i].a, Sec(r, nm).a)}}
     ELSE {})
    \cup
    (IF r.how \in {"append", "deliver"} /\ r.wellformed /\ ~SameFields(r.sentFields, r.fields)
     THEN {<<"C16.SameHeaderFields",       \* diagnosis: do the values differ in white space only?
             r.how \o (IF SameFields(r.sentFieldsNoWS, r.fieldsNoWS) THEN ":white-space" ELSE ":value")>>}
     ELSE {})
    \cup
    (IF r.how \in {"append", "deliver"} /\ r.wellformed /\
        \/ r.opaque /\ ~r.sent.big /\ ~txt.big /\ ~SameBodyContent(r.sent.b, txt.b)
        \/ ~SameLeaves(r.sentLeaves, r.leaves)
     THEN {<<"C16.SameBodyContent", r.how>>} ELSE {})

---------------------------------------------------------------------------
(* (c) a reference rendering of a stored octet string and its record *)
RECURSIVE ToCRLF(_)
ToCRLF(x) == IF x = <<>> THEN <<>>
             ELSE (IF Head(x) = LF THEN <<CR, LF>> ELSE <<Head(x)>>) \o ToCRLF(Tail(x))
EnsureNL(x) == IF x # <<>> /\ x[Len(x)] = LF THEN x ELSE Append(x, LF)
(* an LF-normal stored string always gets its header/body separator *)
WithSep(x) == IF BlankAt(EnsureNL(x)) = 0 THEN Append(EnsureNL(x), LF) ELSE EnsureNL(x)
RefFull(s)   == ToCRLF(WithSep(DeCR(s)))
RefHeader(s) == LET x == WithSep(DeCR(s)) IN ToCRLF(SubSeq(x, 1, BlankAt(x)))
RefText(s)   == LET x == WithSep(DeCR(s)) IN ToCRLF(SubSeq(x, BlankAt(x) + 1, Len(x)))

RefPart(b, o, c) == [o |-> o, c |-> c, present |-> TRUE, got |-> Item(Slice(b, o, c)), ref |-> Item(<<>>)]
RefSec(nm, b, R) == [name |-> nm, a |-> Item(b), b |-> Item(b), twice |-> TRUE,
                     parts |-> SetToSeq({RefPart(b, x[1], x[2]) : x \in R})]
RefRfc(s) == [ok |-> TRUE, size |-> Len(RefFull(s)), full |-> Item(RefFull(s)),
              header |-> Item(RefHeader(s)), text |-> Item(RefText(s))]
(* R: the partial ranges <<o, c>> to include *)
RefRecord(s, how, R) ==
    [how |-> how, wellformed |-> TRUE, opaque |-> TRUE, sent |-> Item(s), sentFields |-> <<>>, fields |-> <<>>,
     sentFieldsNoWS |-> <<>>, fieldsNoWS |-> <<>>,
     sentLeaves |-> <<[ct |-> "text/plain", body |-> Item(ToCRLF(BodyOf(DeCR(s))))]>>,
     leaves |-> <<[ct |-> "text/plain", body |-> Item(RefText(s))]>>,
     secs |-> <<RefSec("", RefFull(s), R), RefSec("HEADER", RefHeader(s), R), RefSec("TEXT", RefText(s), R)>>,
     rfc_a |-> RefRfc(s), rfc_b |-> RefRfc(s), cat |-> Item(<<>>), catdiag |-> "-"]

Clauses(V) == {v[1] : v \in V}
=============================================================================
