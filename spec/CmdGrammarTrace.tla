--------------------------- MODULE CmdGrammarTrace ---------------------------
(* Validation of what the real parser did with the texts generated from      *)
(* CmdGrammar (and their mutations) against the verdict layer CmdGrammarAst. *)
(* Input: JSON array of case records (env TRACE_FILE).  Output, one line per  *)
(* failing clause: <<"VIOL", index, clause>>; <<"DONE", index>> per case.     *)
EXTENDS CmdGrammarAst, Json, IOUtils

VARIABLES i, done
Cases == JsonDeserialize(IOEnv.TRACE_FILE)
ASSUME OracleSane

Init == i \in 1..Len(Cases) /\ done = FALSE
Next == /\ ~done
        /\ \A c \in CaseBad(Cases[i]) : PrintT(<<"VIOL", i, c>>)
        /\ PrintT(<<"DONE", i>>)
        /\ done' = TRUE /\ UNCHANGED i
Spec == Init /\ [][Next]_<<i, done>>
=============================================================================
