---------------------------- MODULE SeqSetTrace ----------------------------
(***************************************************************************)
(* Validation of what the implementation did with the enumerated sequence  *)
(* sets against the reference denotation (SeqSet.tla).                     *)
(*                                                                         *)
(* Input: a JSON file (env C15_RESULTS) holding an array of groups         *)
(*   [gid, layer, mode, uids, cases]                                       *)
(* a case being one set text in one mailbox                                *)
(*   [set,                    the set as enumerated by SeqSetLaws          *)
(*    uids (optional),        the mailbox before the command(s), when it   *)
(*                            is not the group's                           *)
(*    pst, parsed (optional), what the command parser made of the text     *)
(*    ops]                    sequence of <<op, key, kind, st, got>>       *)
(* where op names the interpreter called directly (layer 1) or the         *)
(* complete command sent to the server (layer 2), key is the reading of    *)
(* the set ("seq"/"uid"), and kind/st/got are as described in SeqSet.tla.  *)
(*                                                                         *)
(* Output: <<"VIOL", gid, case index, op, what>> per disagreement and      *)
(* <<"DONE", gid, number of cases>> when a group has been consumed.        *)
(***************************************************************************)
EXTENDS SeqSet, Json, IOUtils, TLCExt

VARIABLES gid, i

Results == JsonDeserialize(IOEnv.C15_RESULTS)

Init == gid \in 1..Len(Results) /\ i = 1

Grp == Results[gid]

(* The parser may normalise what it reads; what it hands on must be a set   *)
(* that denotes the same messages in this mailbox (and is refused alike).  *)
WellFormed(p) == Len(p) >= 1 /\ \A k \in DOMAIN p : Len(p[k]) \in {1, 2}
ParseBad(c, uids) ==
    IF "pst" \notin DOMAIN c THEN {}
    ELSE IF c.pst = "BAD" /\ HasZero(c.set) THEN {}
    ELSE IF /\ c.pst = "OK"
            /\ WellFormed(c.parsed)
            /\ Msgs(Grp.mode, c.parsed, uids) = Msgs(Grp.mode, c.set, uids)
            /\ Rejected(Grp.mode, c.parsed, uids) = Rejected(Grp.mode, c.set, uids)
         THEN {}
    ELSE {<<"parser", "Wrong_parsed">>}

CaseBad(c) ==
    LET uids == IF "uids" \in DOMAIN c THEN c.uids ELSE Grp.uids IN
    ParseBad(c, uids) \cup
    UNION {{<<c.ops[k][1], w>> :
               w \in Verdict(c.ops[k][2], c.ops[k][3], c.set, uids, c.ops[k][4], c.ops[k][5])} :
           k \in DOMAIN c.ops}

Next ==
    /\ i <= Len(Grp.cases)
    /\ LET c == Grp.cases[i]
           bad == CaseBad(c)
       IN /\ \A b \in bad : PrintT(<<"VIOL", Grp.gid, i, b[1], b[2]>>)
          /\ (i = Len(Grp.cases)) => PrintT(<<"DONE", Grp.gid, i>>)
    /\ i' = i + 1
    /\ UNCHANGED gid

Spec == Init /\ [][Next]_<<gid, i>>
=============================================================================
