----------------------------- MODULE TraceSched -----------------------------
(***************************************************************************)
(* Validation of recorded admissions (code -> spec) against SchedRules.    *)
(* Input (env TRACE_FILE): JSON array of records                           *)
(*   [k, peek, nums, hasdel, ans, live: [[k, peek, nums]...]]               *)
(* one per call of Mailbox.would_conflict on the real server: the command   *)
(* that asks to run, the commands executing on the mailbox at that instant, *)
(* whether the mailbox has \Deleted messages, and the code's answer.        *)
(*   "RULE"  <<"RULE", i>>  the answer differs from ConflictsRec: the       *)
(*           admission model (Sched.tla) no longer describes the code       *)
(*           -> MODEL-DRIFT (the outcome-level verdict is LinStore's)       *)
(*   "ASYM"  <<"ASYM", i>>  admitted next to a command that the symmetric   *)
(*           closure of the rule would exclude (information only: the rule  *)
(*           depends on the order of arrival)                               *)
(***************************************************************************)
EXTENDS SchedRules, Sequences, Json, IOUtils, TLC

VARIABLE i
Recs == JsonDeserialize(IOEnv.TRACE_FILE)
SeqToSet(s) == {s[j] : j \in DOMAIN s}
R(x) == [k |-> x.k, peek |-> x.peek, set |-> SeqToSet(x.nums)]

(* the designed rule covers what the properties need, over a finite universe *)
Kinds == {"FETCH", "STORE", "SEARCH", "COPY", "MOVE", "EXPUNGE", "CLOSE", "APPEND", "DELETE", "RENAME",
          "NOOP", "STATUS", "SELECT", "EXAMINE", "CHECK"}
Universe == [k : Kinds, peek : BOOLEAN, set : {{}, {1}, {2}, {1, 2}}]
ASSUME \A hd \in BOOLEAN :
    \A c \in Universe : \A d \in Universe :
        MustExclude(c, d, hd) => (ConflictsRec(c, {d}, hd) \/ ConflictsRec(d, {c}, hd))

Init == i = 1
Next ==
    /\ i <= Len(Recs)
    /\ LET x == Recs[i]
           c == R(x)
           live == {R(x.live[j]) : j \in DOMAIN x.live}
       IN /\ (ConflictsRec(c, live, x.hasdel) # x.ans) => PrintT(<<"RULE", i>>)
          /\ (~x.ans /\ \E d \in live : MustExclude(c, d, x.hasdel)) => PrintT(<<"ASYM", i>>)
          /\ (i = Len(Recs)) => PrintT(<<"DONE", i>>)
    /\ i' = i + 1
Spec == Init /\ [][Next]_i
=============================================================================
