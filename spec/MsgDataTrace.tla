---------------------------- MODULE MsgDataTrace ----------------------------
(***************************************************************************)
(* Validation of what the real server returned against the relations of     *)
(* module MsgData (code -> spec).  Input ($TRACE_FILE): a JSON array of     *)
(* records, one per stored message (see harness/msgdata.py):                *)
(*   how         "deliver" | "append" | "copy"                              *)
(*   copyof      1 when the record before this one is the COPY source       *)
(*   wellformed  the faithfulness clauses apply (no raw 8-bit header)       *)
(*   sent        the octets handed to APPEND / written to the folder        *)
(*   opaque      not MIME-structured: BODY[TEXT] itself is the body content  *)
(*   sentLeaves, leaves   leaf parts [ct, body] of sent / of BODY[]         *)
(*   sentFields, fields   header fields of sent / of the fetched BODY[]     *)
(*   sentFieldsNoWS, fieldsNoWS   the same with all spaces removed (only for  *)
(*               the diagnosis "differs in white space only")                *)
(*   secs        [name, a, b, twice, parts] per section: first and second   *)
(*               fetch and the partial ranges [o, c, present, got, ref]     *)
(*   rfc_a, rfc_b  [ok, size, full, header, text]: RFC822.SIZE, RFC822,     *)
(*               RFC822.HEADER, RFC822.TEXT of the first / second round     *)
(*   cat         BODY[HEADER] o BODY[TEXT] as computed by the harness,      *)
(*               read only when a literal is too large to be sent as octets *)
(* Output: <<"VIOL", record, clause, where>> per violated clause,           *)
(* <<"UNJUDGED", record>> when BODY[], BODY[HEADER] or BODY[TEXT] was not   *)
(* returned at all, <<"DONE", record>> for every record.  <<"INFO", record,  *)
(* "nested-header-text", k>> is an observation outside the property: for a  *)
(* part k, BODY[k.HEADER] followed by BODY[k.TEXT] is not BODY[k].           *)
(***************************************************************************)
EXTENDS MsgData, Json, IOUtils

VARIABLES cid, done
Cases == JsonDeserialize(IOEnv.TRACE_FILE)

Init == cid \in 1..Len(Cases) /\ done = FALSE
Next ==
    /\ ~done
    /\ LET r == Cases[cid]
           src == IF r.how = "copy" /\ cid > 1 THEN Cases[cid - 1] ELSE r
       IN /\ IF Judgeable(r) /\ (r.how = "copy" => Judgeable(src))
             THEN \A v \in Bad(r, src) : PrintT(<<"VIOL", cid, v[1], v[2]>>)
             ELSE PrintT(<<"UNJUDGED", cid>>)
          /\ \A k \in {"1", "2"} :
                (/\ {k, k \o ".HEADER", k \o ".TEXT"} \subseteq Names(r)
                 /\ ~Sec(r, k).a.big
                 /\ Sec(r, k \o ".HEADER").a.b \o Sec(r, k \o ".TEXT").a.b # Sec(r, k).a.b)
                => PrintT(<<"INFO", cid, "nested-header-text", k>>)
          /\ PrintT(<<"DONE", cid>>)
    /\ done' = TRUE
    /\ UNCHANGED cid
Spec == Init /\ [][Next]_<<cid, done>>
=============================================================================
