------------------------------- MODULE Sched -------------------------------
(***************************************************************************)
(* The admission protocol between command tasks and the per-mailbox        *)
(* management task (parse.py ready_and_okay, mbox.py management_task /     *)
(* command_can_proceed / would_conflict / shutdown, client.py do_copy /    *)
(* do_move), at the granularity of the code's await points.                *)
(*                                                                         *)
(* A command is a sequence of phases, each phase being one passage through *)
(* a mailbox's queue:                                                      *)
(*    FETCH a            <<[a, FETCH]>>                                    *)
(*    COPY a -> b        <<[a, COPY], [b, APPEND]>>                         *)
(*    MOVE a -> b        <<[a, MOVE], [b, APPEND], [a, EXPUNGE]>>           *)
(*    DELETE a           <<[a, DELETE]>>  (its body shuts the mailbox down) *)
(* Phase life: enq -> (queue) -> pulled/held by the management task ->      *)
(* resolve -> wait for non-conflict -> [resync] -> admit (ready) -> run ->  *)
(* complete.  The watchdog is deliberately NOT an action: C06 says no       *)
(* command may depend on it, so the closed system must make progress        *)
(* without it (deadlock freedom + liveness under weak fairness).            *)
(***************************************************************************)
EXTENDS Naturals, Sequences, FiniteSets, TLC, SchedRules

CONSTANTS
    Mbox,       \* mailbox names
    Cmds,       \* function: command id -> [sess, phases: Seq([mb, k]), bad: BOOLEAN, peek: BOOLEAN, set: SUBSET Nat]
    HasDeleted  \* function: mailbox -> BOOLEAN (\Deleted sequence non-empty)

Cmd == DOMAIN Cmds
NoCmd == "none"

VARIABLES
    pc,        \* command -> "new" | "wait" | "run" | "replied"
    ph,        \* command -> index of the current phase
    ready,     \* command -> BOOLEAN   (the phase's ready event)
    exc,       \* command -> BOOLEAN   (management task handed it an exception)
    completed, \* command -> BOOLEAN   (the phase's completed flag)
    queue,     \* mailbox -> Seq(command)
    held,      \* mailbox -> command the management task has taken off the queue | NoCmd
    mpc,       \* mailbox -> "get" | "resolve" | "wait" | "admit" | "dead"
    executing, \* mailbox -> set of commands in executing_tasks
    deleted,   \* mailbox -> BOOLEAN
    result,    \* command -> "" | "OK" | "NO" | "BAD"
    replies    \* command -> number of tagged replies sent

vars == <<pc, ph, ready, exc, completed, queue, held, mpc, executing, deleted, result, replies>>

Phase(c) == Cmds[c].phases[ph[c]]
MbOf(c) == Phase(c).mb
KindOf(c) == Phase(c).k
LastPhase(c) == ph[c] = Len(Cmds[c].phases)

Rec(c) == [k |-> KindOf(c), peek |-> Cmds[c].peek, set |-> Cmds[c].set]
Overlap(c, d) == Cmds[c].set \cap Cmds[d].set # {}

(* mbox.would_conflict, transcribed (spec/SchedRules.tla) *)
Conflicts(c, E, m) == ConflictsRec(Rec(c), {Rec(d) : d \in E}, HasDeleted[m])

Init ==
    /\ pc = [c \in Cmd |-> "new"]
    /\ ph = [c \in Cmd |-> 1]
    /\ ready = [c \in Cmd |-> FALSE]
    /\ exc = [c \in Cmd |-> FALSE]
    /\ completed = [c \in Cmd |-> FALSE]
    /\ queue = [m \in Mbox |-> <<>>]
    /\ held = [m \in Mbox |-> NoCmd]
    /\ mpc = [m \in Mbox |-> "get"]
    /\ executing = [m \in Mbox |-> {}]
    /\ deleted = [m \in Mbox |-> FALSE]
    /\ result = [c \in Cmd |-> ""]
    /\ replies = [c \in Cmd |-> 0]

---------------------------------------------------------------------------
(* command task *)

(* one command at a time per session *)
SessionFree(c) == \A d \in Cmd \ {c} : Cmds[d].sess = Cmds[c].sess => pc[d] \in {"new", "replied"}

Enqueue(c) ==
    /\ pc[c] = "new" /\ SessionFree(c)
    /\ IF deleted[MbOf(c)] THEN          \* get_mailbox fails: NO at once
            /\ pc' = [pc EXCEPT ![c] = "replied"]
            /\ result' = [result EXCEPT ![c] = "NO"]
            /\ replies' = [replies EXCEPT ![c] = @ + 1]
            /\ UNCHANGED <<queue>>
       ELSE /\ pc' = [pc EXCEPT ![c] = "wait"]
            /\ queue' = [queue EXCEPT ![MbOf(c)] = Append(@, c)]
            /\ UNCHANGED <<result, replies>>
    /\ UNCHANGED <<ph, ready, exc, completed, held, mpc, executing, deleted>>

Reply(c, r) ==
    /\ pc' = [pc EXCEPT ![c] = "replied"]
    /\ result' = [result EXCEPT ![c] = r]
    /\ replies' = [replies EXCEPT ![c] = @ + 1]

(* ready.wait() returns *)
Wake(c) ==
    /\ pc[c] = "wait" /\ ready[c]
    /\ IF exc[c] THEN
            /\ Reply(c, "BAD")
            /\ completed' = [completed EXCEPT ![c] = TRUE]
       ELSE IF deleted[MbOf(c)] THEN
            /\ Reply(c, "NO")
            /\ completed' = [completed EXCEPT ![c] = TRUE]
       ELSE /\ pc' = [pc EXCEPT ![c] = "run"]
            /\ UNCHANGED <<result, replies, completed>>
    /\ UNCHANGED <<ph, ready, exc, queue, held, mpc, executing, deleted>>

(* shutdown of mailbox m by the running DELETE: cancel the task, release the *)
(* queue and (the repaired code) the held command                            *)
Shutdown(m) ==
    /\ deleted' = [deleted EXCEPT ![m] = TRUE]
    /\ mpc' = [mpc EXCEPT ![m] = "dead"]
    /\ ready' = [d \in Cmd |-> IF (\E i \in DOMAIN queue[m] : queue[m][i] = d) \/ held[m] = d
                               THEN TRUE ELSE ready[d]]
    /\ queue' = [queue EXCEPT ![m] = <<>>]
    /\ held' = [held EXCEPT ![m] = NoCmd]

(* the running DELETE shuts its mailbox down (Mailbox.delete -> shutdown): a  *)
(* step of its own, before the command completes - the released commands may *)
(* wake up (and be refused) while the DELETE is still running                *)
ShutdownBy(c) ==
    /\ pc[c] = "run" /\ KindOf(c) = "DELETE" /\ ~completed[c] /\ ~deleted[MbOf(c)]
    /\ Shutdown(MbOf(c))
    /\ UNCHANGED <<pc, ph, exc, completed, executing, result, replies>>

(* the server stops (orderly exit, restart) or expires an inactive mailbox:   *)
(* the same shutdown without a DELETE.  Environment action: not part of Next  *)
(* (the scenarios are closed systems); the trace specification allows it.    *)
StopMailbox(m) ==
    /\ ~deleted[m]
    /\ Shutdown(m)
    /\ UNCHANGED <<pc, ph, exc, completed, executing, result, replies>>

(* the body of the current phase finishes *)
Finish(c) ==
    /\ pc[c] = "run"
    \* (a DELETE that is refused - INBOX, a mailbox with inferiors that only
    \* becomes \Noselect - completes without having shut the mailbox down)
    /\ completed' = [completed EXCEPT ![c] = TRUE]
    /\ UNCHANGED <<deleted, mpc, ready, queue, held>>
    /\ IF LastPhase(c) THEN
            /\ Reply(c, "OK")
            /\ UNCHANGED <<ph, exc>>
       ELSE UNCHANGED <<pc, result, replies, ph, exc>>
    /\ UNCHANGED <<executing>>

(* next phase of COPY / MOVE: put the phony command on the next mailbox *)
NextPhase(c) ==
    /\ pc[c] = "run" /\ completed[c] /\ ~LastPhase(c)
    /\ LET m2 == Cmds[c].phases[ph[c] + 1].mb IN
       IF deleted[m2] THEN
            /\ Reply(c, "BAD")
            /\ UNCHANGED <<ph, ready, completed, queue>>
       ELSE /\ ph' = [ph EXCEPT ![c] = @ + 1]
            /\ pc' = [pc EXCEPT ![c] = "wait"]
            /\ ready' = [ready EXCEPT ![c] = FALSE]
            /\ completed' = [completed EXCEPT ![c] = FALSE]
            /\ queue' = [queue EXCEPT ![m2] = Append(@, c)]
            /\ UNCHANGED <<result, replies>>
    /\ UNCHANGED <<exc, held, mpc, executing, deleted>>

---------------------------------------------------------------------------
(* management task of mailbox m *)

(* the executing list is cleaned of completed phases whenever the task looks *)
(* (a command in a later phase on another mailbox is `completed` here)       *)
(* A phase counts from the instant it is admitted (appended to the list, its  *)
(* `ready` set), not from the instant its task wakes up: between the two the *)
(* code's would_conflict already sees it.  (Found when the model was bound   *)
(* to recorded steps: with pc = "run" here the model admitted an EXPUNGE     *)
(* next to a FETCH that had been admitted but had not woken yet.)            *)
Live(m) == {d \in executing[m] : pc[d] \in {"wait", "run"} /\ ready[d] /\ ~exc[d]
                                   /\ MbOf(d) = m /\ ~completed[d]}

Get(m) ==
    /\ mpc[m] = "get" /\ queue[m] # <<>>
    /\ held' = [held EXCEPT ![m] = Head(queue[m])]
    /\ queue' = [queue EXCEPT ![m] = Tail(@)]
    /\ mpc' = [mpc EXCEPT ![m] = "resolve"]
    /\ UNCHANGED <<pc, ph, ready, exc, completed, executing, deleted, result, replies>>

(* msg_set_to_msg_seq_set: may raise Bad; the exception is handed to the command *)
Resolve(m) ==
    /\ mpc[m] = "resolve"
    /\ LET c == held[m] IN
       IF Cmds[c].bad /\ ph[c] = 1 THEN
            \/ /\ exc' = [exc EXCEPT ![c] = TRUE]
               /\ ready' = [ready EXCEPT ![c] = TRUE]
               /\ held' = [held EXCEPT ![m] = NoCmd]
               /\ mpc' = [mpc EXCEPT ![m] = "get"]
            \* the set is still valid now and stops being so while the command waits
            \* (the message it names is expunged): the second resolution fails, below
            \/ /\ mpc' = [mpc EXCEPT ![m] = "wait"]
               /\ UNCHANGED <<exc, ready, held>>
       ELSE /\ mpc' = [mpc EXCEPT ![m] = "wait"]
            /\ UNCHANGED <<exc, ready, held>>
    /\ UNCHANGED <<pc, ph, completed, queue, executing, deleted, result, replies>>

(* command_can_proceed: poll until no conflict; then (resync and) admit *)
(* the wait is over, the set is resolved again against the mailbox as it is  *)
(* now (management_task, second msg_set_to_msg_seq_set) and that fails: the  *)
(* exception is handed to the command, which is not admitted                 *)
ReResolveFailWith(m, hasdel) ==
    /\ mpc[m] = "wait"
    /\ LET c == held[m] IN
       /\ Cmds[c].bad /\ ph[c] = 1
       /\ ~ConflictsRec(Rec(c), {Rec(d) : d \in Live(m)}, hasdel)
       /\ exc' = [exc EXCEPT ![c] = TRUE]
       /\ ready' = [ready EXCEPT ![c] = TRUE]
    /\ held' = [held EXCEPT ![m] = NoCmd]
    /\ mpc' = [mpc EXCEPT ![m] = "get"]
    /\ UNCHANGED <<pc, ph, completed, queue, executing, deleted, result, replies>>
ReResolveFail(m) == ReResolveFailWith(m, HasDeleted[m])

AdmitWith(m, hasdel) ==
    /\ mpc[m] = "wait"
    /\ ~(Cmds[held[m]].bad /\ ph[held[m]] = 1)
    /\ LET c == held[m] IN
       /\ ~ConflictsRec(Rec(c), {Rec(d) : d \in Live(m)}, hasdel)
       /\ executing' = [executing EXCEPT ![m] = Live(m) \cup {c}]
       /\ ready' = [ready EXCEPT ![c] = TRUE]
    /\ held' = [held EXCEPT ![m] = NoCmd]
    /\ mpc' = [mpc EXCEPT ![m] = "get"]
    /\ UNCHANGED <<pc, ph, exc, completed, queue, deleted, result, replies>>

Admit(m) == AdmitWith(m, HasDeleted[m])

Terminated == \A c \in Cmd : pc[c] = "replied"

Next ==
    \/ \E c \in Cmd : Enqueue(c) \/ Wake(c) \/ ShutdownBy(c) \/ Finish(c) \/ NextPhase(c)
    \/ \E m \in Mbox : Get(m) \/ Resolve(m) \/ Admit(m) \/ ReResolveFail(m)
    \/ (Terminated /\ UNCHANGED vars)

Fairness ==
    /\ \A c \in Cmd : WF_vars(Enqueue(c)) /\ WF_vars(Wake(c)) /\ WF_vars(Finish(c)) /\ WF_vars(NextPhase(c))
                      /\ WF_vars(ShutdownBy(c))
    /\ \A m \in Mbox : WF_vars(Get(m)) /\ WF_vars(Resolve(m)) /\ WF_vars(Admit(m)) /\ WF_vars(ReResolveFail(m))

Spec == Init /\ [][Next]_vars /\ Fairness

---------------------------------------------------------------------------
(* properties *)

ExactlyOneTagged == \A c \in Cmd : replies[c] <= 1 /\ (pc[c] = "replied" <=> replies[c] = 1)

(* a command awaiting `ready` is in its mailbox's queue, or held by the      *)
(* management task, or already released                                      *)
WaitingIsTracked ==
    \A c \in Cmd : pc[c] = "wait" =>
        \/ ready[c]
        \/ \E i \in DOMAIN queue[MbOf(c)] : queue[MbOf(c)][i] = c
        \/ held[MbOf(c)] = c

QueueHasConsumer == \A m \in Mbox : queue[m] # <<>> => mpc[m] # "dead"

(* no two conflicting phases run on a mailbox at the same time *)
MutualExclusion ==
    \A m \in Mbox : \A c, d \in Live(m) :
        c # d => ~(KindOf(c) \in Blocking \/ KindOf(d) \in Blocking)

(* every command is answered (no watchdog in the model) *)
AllAnswered == \A c \in Cmd : <>(pc[c] = "replied")
---------------------------------------------------------------------------
(* scenario families for TLC (CONSTANT Cmds <- ...) *)
C(s, phases, bad, peek, set) == [sess |-> s, phases |-> phases, bad |-> bad, peek |-> peek, set |-> set]
P(m, k) == [mb |-> m, k |-> k]
Mv(s, x, y) == C(s, <<P(x, "MOVE"), P(y, "APPEND"), P(x, "EXPUNGE")>>, FALSE, TRUE, {1})
Cp(s, x, y) == C(s, <<P(x, "COPY"), P(y, "APPEND")>>, FALSE, TRUE, {1})
One(s, m, k, set) == C(s, <<P(m, k)>>, FALSE, TRUE, set)

Scn_OppositeMoves == [x |-> Mv("A", "a", "b"), y |-> Mv("B", "b", "a"), z |-> One("C", "a", "FETCH", {1})]
Scn_OppositeCopies == [x |-> Cp("A", "a", "b"), y |-> Cp("B", "b", "a"), z |-> One("C", "b", "EXPUNGE", {})]
Scn_DeleteQueued == [d |-> One("A", "a", "DELETE", {}), s1 |-> One("B", "a", "STATUS", {}),
                     s2 |-> One("C", "a", "APPEND", {}), m |-> Mv("D", "b", "a")]
Scn_BadSet == [f |-> C("A", <<P("a", "FETCH")>>, TRUE, TRUE, {}), e |-> One("B", "a", "EXPUNGE", {}),
               u |-> One("C", "a", "FETCH", {2}), g |-> C("A", <<P("a", "COPY"), P("b", "APPEND")>>, TRUE, TRUE, {})]
Scn_StoreFetch == [s |-> One("A", "a", "STORE", {1, 2}), f |-> C("B", <<P("a", "FETCH")>>, FALSE, FALSE, {2}),
                   q |-> One("C", "a", "SEARCH", {}), n |-> One("D", "a", "NOOP", {})]
Scn_SameSession == [p |-> One("A", "a", "STORE", {1}), q |-> One("A", "a", "EXPUNGE", {}),
                    r |-> Cp("B", "a", "b"), t |-> One("B", "b", "DELETE", {})]
AllDeleted == [m \in Mbox |-> TRUE]
=============================================================================
