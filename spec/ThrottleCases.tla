--------------------------- MODULE ThrottleCases ---------------------------
(***************************************************************************)
(* Static part of C18, evaluated by TLC while it processes the ASSUMEs:    *)
(*                                                                         *)
(*  1. the abstract pre-states of the per-transition implementation tests  *)
(*     (every entry of the user table / address table together with a      *)
(*     failure history that the Link invariant admits) are printed for the *)
(*     driver: <<"UCASES", ...>>, <<"ACASES", ...>>;                        *)
(*  2. an inductive argument with the real constants: from EVERY pair of   *)
(*     entries admitted by Link, an attempt decided by the mechanism       *)
(*     violates no clause of the property layer and leads to entries       *)
(*     admitted by Link again, and so does the passing of time.            *)
(*     With Full = TRUE ages range over 0..Purge+1, otherwise over one     *)
(*     representative per region (<, =, > Purge).                          *)
(***************************************************************************)
EXTENDS ThrottleDefs, TLC

CONSTANT Full

VARIABLE x

Cap == Purge + 1
Ages == IF Full THEN 0..Cap ELSE {RepAge(r) : r \in Regions}

(* concrete entry pairs <<t, g>> admitted by Link                            *)
Pairs(max) ==
    {<<[c |-> 0, age |-> 0], GNone>>}
    \cup {<<[c |-> 0, age |-> 0], [s |-> s, l |-> l, age |-> Cap]>> :
              s \in 1..(max + 1), l \in 1..(max + 1)}
    \cup {<<[c |-> l, age |-> ag], [s |-> s, l |-> l, age |-> ag]>> :
              s \in 1..(max + 1), l \in 1..(max + 1), ag \in Ages}

LinkPairs(max) == {p \in Pairs(max) : LinkEntry(p[1], p[2], max)}

CapE(e) == IF e.age > Cap THEN [e EXCEPT !.age = Cap] ELSE e

AttemptInductive ==
    \A pu \in LinkPairs(MaxUser), pa \in LinkPairs(MaxAddr), good \in BOOLEAN :
        LET out == MOut(pu[1], pa[1], good)
        IN /\ AttemptClauses(pu[2], pa[2], good, out) = {}
           /\ LinkEntry(MPost(pu[1], out), GAfter(pu[2], out), MaxUser)
           /\ LinkEntry(MPost(pa[1], out), GAfter(pa[2], out), MaxAddr)
           /\ (MustRefuse(pu[2], pa[2]) => out = "refused")
           /\ (~MayRefuse(pu[2], pa[2]) => out # "refused")
           /\ (out = "ok" => good)

TickInductive ==
    \A max \in {MaxUser, MaxAddr} : \A p \in LinkPairs(max) : \A d \in 1..Cap :
        LinkEntry(CapE(TAdvance(p[1], d)), CapE(GAdvance(p[2], d)), max)

(* the region abstraction used for the implementation tests covers exactly  *)
(* the Link-admitted pairs                                                  *)
Region(ag) == IF ag < Purge THEN "lt" ELSE IF ag = Purge THEN "eq" ELSE "gt"
AbsOf(p) == [c |-> p[1].c, s |-> p[2].s, l |-> p[2].l,
             r |-> IF p[2].l = 0 THEN "gt" ELSE Region(p[2].age)]
AbstractionCovers ==
    \A max \in {MaxUser, MaxAddr} : {AbsOf(p) : p \in LinkPairs(max)} = EntryCases(max)

ASSUME PrintT(<<"UCASES", {<<e.c, e.s, e.l, e.r>> : e \in EntryCases(MaxUser)}>>)
ASSUME PrintT(<<"ACASES", {<<e.c, e.s, e.l, e.r>> : e \in EntryCases(MaxAddr)}>>)
ASSUME PrintT(<<"NPAIRS", Cardinality(LinkPairs(MaxUser)), Cardinality(LinkPairs(MaxAddr))>>)
ASSUME PrintT(<<"AttemptInductive", AttemptInductive>>)
ASSUME PrintT(<<"TickInductive", TickInductive>>)
ASSUME PrintT(<<"AbstractionCovers", AbstractionCovers>>)

Init == x = 0
Next == UNCHANGED x
Spec == Init /\ [][Next]_x
=============================================================================
