----------------------------- MODULE MailStore -----------------------------
(***************************************************************************)
(* Protocol layer: one user's server as the code implements it (mbox.py,   *)
(* client.py), at command granularity.  State: per mailbox the in-memory   *)
(* message list, the MH folder (files, .mh_sequences), UIDNEXT; per        *)
(* session the selected mailbox, read-only / idling bits and the queue of  *)
(* pended untagged responses.  `view` is the history variable a client     *)
(* obtains by replaying what it was sent; `last` describes the transition  *)
(* just taken in the vocabulary of MailProps (it is an observation and is  *)
(* hidden from the fingerprint by VIEW).                                   *)
(*                                                                         *)
(* Emission discipline transcribed from the code (DESIGN Appendix A):      *)
(*   - EXISTS is pushed directly to every session of the mailbox, except   *)
(*     that a session with pended EXPUNGEs gets it queued behind them;     *)
(*   - EXPUNGE / FETCH notifications go to idling sessions at once and to  *)
(*     the pend queue of the others (dispatch-or-pend); the issuer of      *)
(*     EXPUNGE/MOVE receives its EXPUNGEs at once ("idling hack");         *)
(*   - a command flushes its session's pend queue at the points the code   *)
(*     does; non-UID FETCH/STORE/SEARCH are refused while EXPUNGEs are     *)
(*     pended.                                                             *)
(* A resync (check_new_msgs_and_flags) is its own action: it runs when the *)
(* folder's mtime has advanced (dirty) before a command is admitted or on  *)
(* the management task's poll; commands that force one (APPEND, COPY/MOVE  *)
(* destination) contain it.                                                *)
(***************************************************************************)
EXTENDS MailProps

CONSTANTS Sess, Mbox, MaxId, StoreFlags, Acts, MaxPend, Sets, Modes, Silents, MaxDepth

VARIABLES msgs, files, fseq, next, dirty, force, ss, view, nextId, last, agent

core == <<msgs, files, fseq, next, dirty, force, ss, nextId, agent>>
vars == <<msgs, files, fseq, next, dirty, force, ss, view, nextId, last, agent>>

Vv(m) == IF m = "inbox" THEN 1 ELSE 2

---------------------------------------------------------------------------
(* abstract state in the MailProps shape *)
PendKinds(p) == [i \in DOMAIN p |-> <<p[i].k, p[i].n>>]
StRec(ms, fs, fq, nx, sx) ==
    [mb |-> [m \in Mbox |-> [vv |-> Vv(m), next |-> nx[m], msgs |-> ms[m], files |-> fs[m],
                              fseq |-> fq[m], nosel |-> FALSE, sub |-> FALSE, active |-> TRUE]],
     ss |-> [s \in Sess |-> [sel |-> sx[s].sel, ro |-> sx[s].ro, idle |-> sx[s].idle,
                              pend |-> PendKinds(sx[s].pend), open |-> sx[s].open]]]
Cur == StRec(msgs, files, fseq, next, ss)
Nxt == StRec(msgs', files', fseq', next', ss')

NoOut == [s \in Sess |-> <<>>]
NoCode == [name |-> "", vv |-> 0, src |-> <<>>, dst |-> <<>>]
NoTold == [next |-> 0, vv |-> 0, exists |-> 0, counts |-> FALSE, recent |-> 0, unseen |-> 0, first |-> 0]
Ev(act, s) ==
    [act |-> act, sess |-> s, uid |-> FALSE, status |-> "OK", set |-> <<>>, mode |-> "",
     flags |-> <<>>, silent |-> FALSE, mbox |-> "", src |-> "", msgid |-> 0, date |-> 0,
     peek |-> TRUE, code |-> NoCode, told |-> NoTold, out0 |-> NoOut, out |-> NoOut,
     applied |-> <<>>, renames |-> <<>>, special |-> <<>>, dirty |-> [m \in Mbox |-> FALSE],
     delivered |-> <<>>, key |-> "", found |-> <<>>]

---------------------------------------------------------------------------
(* items *)
It(k, n, srv) == [k |-> k, n |-> n, uid |-> 0, suid |-> IF k = "FETCH" /\ n \in DOMAIN srv THEN srv[n] ELSE 0,
                  hasfl |-> FALSE, fl |-> {}, srv |-> srv, infl |-> "", iuid |-> FALSE, bid |-> 0, st |-> FALSE]
FetchIt(n, ms, withUid) ==
    [k |-> "FETCH", n |-> n, uid |-> IF withUid THEN ms[n].uid ELSE 0, suid |-> ms[n].uid,
     hasfl |-> TRUE, fl |-> ms[n].fl, srv |-> Uids(ms), infl |-> "", iuid |-> FALSE, bid |-> 0, st |-> FALSE]
Stamp(its, kind, u) == [i \in DOMAIN its |-> [its[i] EXCEPT !.infl = kind, !.iuid = u]]
HasPendExp(sx, s) == \E i \in DOMAIN sx[s].pend : sx[s].pend[i].k = "EXPUNGE"

Watchers(sx, m) == {t \in Sess : sx[t].open /\ sx[t].sel = m}

(* [ss, out]: give `its` to the sessions in W: directly when idling (or in  *)
(* `direct`), otherwise onto their pend queue                              *)
Dispatch(acc, W, its, direct) ==
    [ss |-> [t \in Sess |-> IF t \in W /\ ~(acc.ss[t].idle \/ t \in direct)
                            THEN [acc.ss[t] EXCEPT !.pend = @ \o its] ELSE acc.ss[t]],
     out |-> [t \in Sess |-> IF t \in W /\ (acc.ss[t].idle \/ t \in direct)
                             THEN acc.out[t] \o its ELSE acc.out[t]]]

(* EXISTS: direct, but behind pended EXPUNGEs where there are some *)
PushExists(acc, W, it) ==
    [ss |-> [t \in Sess |-> IF t \in W /\ HasPendExp(acc.ss, t)
                            THEN [acc.ss[t] EXCEPT !.pend = @ \o <<it>>] ELSE acc.ss[t]],
     out |-> [t \in Sess |-> IF t \in W /\ ~HasPendExp(acc.ss, t)
                             THEN acc.out[t] \o <<it>> ELSE acc.out[t]]]

(* flush of s's pend queue into out *)
Flush(acc, s, kind, u) ==
    [ss |-> [acc.ss EXCEPT ![s].pend = <<>>],
     out |-> [acc.out EXCEPT ![s] = @ \o [i \in DOMAIN acc.ss[s].pend |->
                                              [Stamp(acc.ss[s].pend, kind, u)[i] EXCEPT !.st = TRUE]]]]

---------------------------------------------------------------------------
(* folder helpers *)
MemKeys(m) == {msgs[m][i].key : i \in DOMAIN msgs[m]}
FileKeys(m) == {f[1] : f \in files[m]}
NewKeys(m) == FileKeys(m) \ MemKeys(m)
FreeKey(fs) == 1 + MaxOr0({f[1] : f \in fs})
IdAt(fs, k) == (CHOOSE f \in fs : f[1] = k)[2]
AsFile(ms) == UNION {{<<ms[i].key, f>> : f \in ms[i].fl} : i \in DOMAIN ms}
SortedSeq(S) == SetToSortSeq(S, <)
Foreign(fq, ms) == {e \in fq : e[1] \notin {ms[i].key : i \in DOMAIN ms}}

(* messages the resync creates for the new keys of folder state (fs, fq) *)
NewMsgs(ms, fs, fq, nx) ==
    LET ks == SortedSeq({f[1] : f \in fs} \ {ms[i].key : i \in DOMAIN ms}) IN
    [i \in DOMAIN ks |->
        LET k == ks[i]
            names == {e[2] : e \in {x \in fq : x[1] = k}} \ {"Seen", "unseen"}
            uns == <<k, "unseen">> \in fq
        IN [key |-> k, uid |-> nx + i - 1, id |-> IdAt(fs, k), d |-> 0,
            fl |-> names \cup {"Recent"} \cup (IF uns THEN {"unseen"} ELSE {"Seen"})]]

(* the resync proper on mailbox m given folder (fs, fq): result record *)
ResyncRes(m, ms, fs, fq, nx, acc) ==
    LET add == NewMsgs(ms, fs, fq, nx)
        ms2 == ms \o add
        W == Watchers(acc.ss, m)
        a1 == IF add = <<>> THEN acc     \* nothing new: the resync announces nothing
              ELSE PushExists(acc, W, It("EXISTS", Len(ms2), Uids(ms2)))
        fet == [i \in DOMAIN add |-> FetchIt(Len(ms) + i, ms2, FALSE)]
        a2 == Dispatch(a1, W, fet, {})
    IN [ms |-> ms2, fq |-> AsFile(ms2), nx |-> nx + Len(add), acc |-> a2, n |-> Len(add)]

---------------------------------------------------------------------------
Init ==
    /\ msgs = [m \in Mbox |-> <<>>]
    /\ files = [m \in Mbox |-> {}]
    /\ fseq = [m \in Mbox |-> {}]
    /\ next = [m \in Mbox |-> 1]
    /\ dirty = [m \in Mbox |-> FALSE]
    /\ force = [m \in Mbox |-> FALSE]
    /\ ss = [s \in Sess |-> [sel |-> "", ro |-> FALSE, idle |-> FALSE, pend |-> <<>>, open |-> TRUE]]
    /\ view = [s \in Sess |-> <<>>]
    /\ nextId = 1
    /\ agent = {}
    /\ last = Ev("Init", "")

Acc0 == [ss |-> ss, out |-> NoOut]
CanRun(s) == ss[s].open /\ ~ss[s].idle
Selected(s) == ss[s].sel # ""
(* `force`: the code's optional_resync = False (set by an expunge): the next
   resync looks at the folder even if its mtime has not advanced *)
Clean(m) == ~dirty[m] /\ ~force[m]

(* common tail: install session state and the event *)
Finish(acc0, acc, ev) ==
    /\ ss' = TLCEval(acc.ss)
    /\ last' = TLCEval([ev EXCEPT !.out0 = acc0.out, !.out = acc.out])

---------------------------------------------------------------------------
(* external MH agent *)
Deliver(m, unseen, adv) ==
    /\ "Deliver" \in Acts /\ nextId <= MaxId
    /\ LET k == FreeKey(files[m]) IN
       /\ files' = [files EXCEPT ![m] = @ \cup {<<k, nextId>>}]
       /\ fseq' = [fseq EXCEPT ![m] = IF unseen THEN @ \cup {<<k, "unseen">>} ELSE @]
       /\ agent' = {g \in agent : ~(g[1] = m /\ g[2] = k)} \cup {<<m, k, nextId, unseen>>}
       /\ last' = [Ev("Deliver", "") EXCEPT !.mbox = m,
                       !.delivered = <<<<k, nextId, unseen>>>>]
    /\ dirty' = [dirty EXCEPT ![m] = @ \/ adv]
    /\ nextId' = nextId + 1
    /\ UNCHANGED <<msgs, next, ss, force>>

(* management-task poll / admission resync: the mtime has advanced *)
Resync(m) ==
    /\ "Deliver" \in Acts /\ (dirty[m] \/ force[m])
    /\ LET r == ResyncRes(m, msgs[m], files[m], fseq[m], next[m], Acc0) IN
       /\ msgs' = TLCEval([msgs EXCEPT ![m] = r.ms])
       /\ fseq' = [fseq EXCEPT ![m] = IF r.n > 0 THEN r.fq ELSE @]
       /\ next' = [next EXCEPT ![m] = r.nx]
       /\ Finish(Acc0, r.acc, [Ev("Resync", "") EXCEPT !.mbox = m])
    /\ dirty' = [dirty EXCEPT ![m] = FALSE]
    /\ force' = [force EXCEPT ![m] = FALSE]
    /\ UNCHANGED <<files, nextId, agent>>

---------------------------------------------------------------------------
Select(s, m, ro) ==
    /\ "Select" \in Acts /\ CanRun(s) /\ Clean(m)
    /\ LET a1 == [ss |-> [ss EXCEPT ![s] = [sel |-> m, ro |-> ro, idle |-> FALSE,
                                            pend |-> <<>>, open |-> TRUE]],
                  out |-> [NoOut EXCEPT ![s] = <<It("EXISTS", Len(msgs[m]), Uids(msgs[m]))>>]]
       IN Finish(Acc0, a1, [Ev(IF ro THEN "Examine" ELSE "Select", s) EXCEPT !.mbox = m,
                    !.told = [next |-> next[m], vv |-> Vv(m), exists |-> Len(msgs[m]), counts |-> TRUE,
                              recent |-> CountWith(msgs[m], "Recent"), unseen |-> 0,
                              first |-> FirstWith(msgs[m], "unseen")]])
    /\ UNCHANGED <<msgs, files, fseq, next, dirty, force, nextId, agent>>

Unselect(s) ==
    /\ "Select" \in Acts /\ CanRun(s) /\ Selected(s)
    /\ Finish(Acc0, [ss |-> [ss EXCEPT ![s].sel = "", ![s].pend = <<>>, ![s].ro = FALSE],
                     out |-> NoOut],
              [Ev("Unselect", s) EXCEPT !.src = ss[s].sel])
    /\ UNCHANGED <<msgs, files, fseq, next, dirty, force, nextId, agent>>

Noop(s) ==
    /\ "Noop" \in Acts /\ CanRun(s)
    /\ Selected(s) => Clean(ss[s].sel)
    /\ LET a1 == IF Selected(s) THEN Flush(Acc0, s, "NOOP", FALSE) ELSE Acc0 IN
       Finish(a1, [ss |-> a1.ss, out |-> NoOut], [Ev("Noop", s) EXCEPT !.src = ss[s].sel])
    /\ UNCHANGED <<msgs, files, fseq, next, dirty, force, nextId, agent>>

(* STATUS m (do_status): what is queued for the session goes out first; then the
   aggregates of mailbox m as the server has them *)
Status(s, m) ==
    /\ "Status" \in Acts /\ CanRun(s) /\ Clean(m)
    /\ Selected(s) => Clean(ss[s].sel)
    /\ LET a1 == IF Selected(s) THEN Flush(Acc0, s, "STATUS", FALSE) ELSE Acc0 IN
       Finish(a1, [ss |-> a1.ss, out |-> NoOut],
              [Ev("Status", s) EXCEPT !.mbox = m, !.src = ss[s].sel,
                  !.told = [next |-> next[m], vv |-> Vv(m), exists |-> Len(msgs[m]), counts |-> TRUE,
                            recent |-> CountWith(msgs[m], "Recent"), unseen |-> CountWith(msgs[m], "unseen"),
                            first |-> 0]])
    /\ UNCHANGED <<msgs, files, fseq, next, dirty, force, nextId, agent>>

Idle(s) ==
    /\ "Idle" \in Acts /\ CanRun(s)
    /\ LET a1 == Flush(Acc0, s, "IDLE", FALSE) IN
       Finish(a1, [ss |-> [a1.ss EXCEPT ![s].idle = TRUE], out |-> NoOut],
              [Ev("Idle", s) EXCEPT !.status = "CONT", !.src = ss[s].sel])
    /\ UNCHANGED <<msgs, files, fseq, next, dirty, force, nextId, agent>>

Done(s) ==
    /\ "Idle" \in Acts /\ ss[s].open /\ ss[s].idle
    /\ LET a1 == Flush([ss |-> [ss EXCEPT ![s].idle = FALSE], out |-> NoOut], s, "DONE", FALSE) IN
       Finish(a1, [ss |-> a1.ss, out |-> NoOut], [Ev("Done", s) EXCEPT !.src = ss[s].sel])
    /\ UNCHANGED <<msgs, files, fseq, next, dirty, force, nextId, agent>>

---------------------------------------------------------------------------
(* the gate of non-UID FETCH / STORE / SEARCH; UID forms flush instead *)
Gate(s, kind, u) ==
    IF HasPendExp(ss, s) /\ ~u THEN [ok |-> FALSE, acc |-> Acc0]
    ELSE [ok |-> TRUE, acc |-> Flush(Acc0, s, kind, u)]

AddrOf(u, set, ms) ==
    IF u THEN {i \in DOMAIN ms : ms[i].uid \in DenoteUid(set, UidSet(ms))}
    ELSE DenoteSeq(set, Len(ms))
AppliedOf(u, set, ms) ==
    IF u THEN <<>> ELSE LET ns == SortedSeq(DenoteSeq(set, Len(ms)) \cap DOMAIN ms)
                        IN [i \in DOMAIN ns |-> <<ns[i], ms[ns[i]].uid>>]

Store(s, u, set, mode, F, silent) ==
    /\ "Store" \in Acts /\ CanRun(s) /\ Selected(s)
    /\ LET m == ss[s].sel
           g == Gate(s, "STORE", u)
           ev0 == [Ev("Store", s) EXCEPT !.uid = u, !.set = set, !.mode = mode,
                      !.flags = SetToSeq(F), !.silent = silent, !.src = m]
       IN
       /\ Clean(m)
       /\ IF ss[s].ro \/ ~g.ok THEN      \* EXAMINE session: read-only; or EXPUNGEs pended
            /\ Finish(Acc0, Acc0, [ev0 EXCEPT !.status = "NO"])
            /\ UNCHANGED <<msgs, fseq>>
          ELSE IF ~u /\ ~ValidSeq(set, Len(msgs[m])) THEN
            /\ Finish(g.acc, [ss |-> g.acc.ss, out |-> NoOut], [ev0 EXCEPT !.status = "BAD"])
            /\ UNCHANGED <<msgs, fseq>>
          ELSE IF "Recent" \in F THEN        \* \Recent can not be stored
            /\ Finish(g.acc, [ss |-> g.acc.ss, out |-> NoOut], [ev0 EXCEPT !.status = "NO"])
            /\ UNCHANGED <<msgs, fseq>>
          ELSE
            LET addr == AddrOf(u, set, msgs[m])
                upd(x) == LET r == StoreResult(mode, x.fl \ {"unseen"}, F) IN
                          [x EXCEPT !.fl = r \cup (IF "Seen" \in r THEN {} ELSE {"unseen"})]
                ms2 == [i \in DOMAIN msgs[m] |-> IF i \in addr THEN upd(msgs[m][i]) ELSE msgs[m][i]]
                ns == SortedSeq(addr)
                fet == [i \in DOMAIN ns |-> FetchIt(ns[i], ms2, u)]
                a1 == [ss |-> g.acc.ss, out |-> NoOut]
                a2 == Dispatch(a1, Watchers(ss, m) \ {s}, [i \in DOMAIN ns |-> FetchIt(ns[i], ms2, FALSE)], {})
                a3 == IF silent THEN a2
                      ELSE [a2 EXCEPT !.out[s] = @ \o Stamp(fet, "STORE", u)]
            IN /\ msgs' = TLCEval([msgs EXCEPT ![m] = ms2])
               /\ fseq' = [fseq EXCEPT ![m] = AsFile(ms2) \cup Foreign(@, ms2)]
               /\ Finish(g.acc, a3, [ev0 EXCEPT !.applied = AppliedOf(u, set, msgs[m])])
    /\ UNCHANGED <<files, next, dirty, force, nextId, agent>>

Fetch(s, u, set, peek) ==
    /\ "Fetch" \in Acts /\ CanRun(s) /\ Selected(s)
    /\ LET m == ss[s].sel
           g == Gate(s, "FETCH", u)
           ev0 == [Ev("Fetch", s) EXCEPT !.uid = u, !.set = set, !.peek = peek, !.src = m]
       IN
       /\ Clean(m)
       /\ IF ~g.ok THEN
            /\ Finish(Acc0, Acc0, [ev0 EXCEPT !.status = "NO"])
            /\ UNCHANGED <<msgs, fseq>>
          ELSE IF ~u /\ ~ValidSeq(set, Len(msgs[m])) THEN
            /\ Finish(g.acc, [ss |-> g.acc.ss, out |-> NoOut], [ev0 EXCEPT !.status = "BAD"])
            /\ UNCHANGED <<msgs, fseq>>
          ELSE
            LET addr == AddrOf(u, set, msgs[m])
                ns == SortedSeq(addr)
                seen(x) == IF peek \/ ss[s].ro THEN x
                           ELSE [x EXCEPT !.fl = (@ \ {"unseen"}) \cup {"Seen"}]
                ms2 == [i \in DOMAIN msgs[m] |->
                          IF i \in addr /\ ~ss[s].ro
                          THEN [seen(msgs[m][i]) EXCEPT !.fl = @ \ {"Recent"}]
                          ELSE msgs[m][i]]
                chg == {i \in addr : ms2[i].fl # msgs[m][i].fl}
                cs == SortedSeq(chg)
                direct == [i \in DOMAIN ns |-> FetchIt(ns[i], msgs[m], u)]
                a1 == [ss |-> g.acc.ss, out |-> [NoOut EXCEPT ![s] = Stamp(direct, "FETCH", u)]]
                a2 == Dispatch(a1, Watchers(ss, m), [i \in DOMAIN cs |-> FetchIt(cs[i], ms2, FALSE)], {})
                a3 == Flush(a2, s, "FETCH", u)
            IN /\ msgs' = TLCEval([msgs EXCEPT ![m] = ms2])
               /\ fseq' = [fseq EXCEPT ![m] = IF chg = {} THEN @ ELSE AsFile(ms2) \cup Foreign(@, ms2)]
               /\ Finish(g.acc, a3, [ev0 EXCEPT !.applied = AppliedOf(u, set, msgs[m])])
    /\ UNCHANGED <<files, next, dirty, force, nextId, agent>>

---------------------------------------------------------------------------
(* removal of the positions `gone` of mailbox m; issuer s receives its      *)
(* EXPUNGEs directly (idling hack), everyone else dispatch-or-pend          *)
ExpungeRes(acc, m, ms, gone, s) ==
    LET order == SetToSortSeq(gone, >)           \* highest first
        step(a, n) ==
            LET ms1 == a.ms
                ms2 == RemoveIdx(ms1, n)
                it == It("EXPUNGE", n, Uids(ms2))
            IN [ms |-> ms2,
                acc |-> Dispatch(a.acc, Watchers(a.acc.ss, m), <<it>>, {s})]
    IN FoldLeft(step, [ms |-> ms, acc |-> acc], order)

(* SEARCH by a flag key (do_search: pended EXPUNGEs refuse a non-UID SEARCH and are
   sent first for a UID SEARCH; nothing else is flushed; nothing changes) *)
SearchKeys == {"DELETED", "UNSEEN", "RECENT"}
Search(s, u, key) ==
    /\ "Search" \in Acts /\ CanRun(s) /\ Selected(s)
    /\ LET m == ss[s].sel
           ev0 == [Ev("Search", s) EXCEPT !.uid = u, !.src = m, !.key = key]
       IN
       /\ Clean(m)
       /\ IF HasPendExp(ss, s) /\ ~u THEN Finish(Acc0, Acc0, [ev0 EXCEPT !.status = "NO"])
          ELSE LET a1 == IF HasPendExp(ss, s) THEN Flush(Acc0, s, "SEARCH", u) ELSE Acc0
                   hit == {i \in DOMAIN msgs[m] : KeyHolds(key, msgs[m][i])}
               IN Finish(a1, [ss |-> a1.ss, out |-> NoOut],
                         [ev0 EXCEPT !.found = SortedSeq(IF u THEN {msgs[m][i].uid : i \in hit} ELSE hit)])
    /\ UNCHANGED <<msgs, files, fseq, next, dirty, force, nextId, agent>>

Expunge(s, u, set) ==
    /\ "Expunge" \in Acts /\ CanRun(s) /\ Selected(s)
    /\ LET m == ss[s].sel
           a0 == Flush(Acc0, s, "EXPUNGE", u)
           del == {i \in DOMAIN msgs[m] : "Deleted" \in msgs[m][i].fl}
           gone == IF ss[s].ro THEN {}
                   ELSE IF u THEN {i \in del : msgs[m][i].uid \in DenoteUid(set, UidSet(msgs[m]))}
                   ELSE del
           r == ExpungeRes([ss |-> a0.ss, out |-> NoOut], m, msgs[m], gone, s)
           stamped == [r.acc EXCEPT !.out[s] = Stamp(@, "EXPUNGE", u)]
           keysGone == {msgs[m][i].key : i \in gone}
       IN
       /\ Clean(m)
       /\ msgs' = TLCEval([msgs EXCEPT ![m] = r.ms])
       /\ files' = [files EXCEPT ![m] = {f \in @ : f[1] \notin keysGone}]
       /\ fseq' = [fseq EXCEPT ![m] = {e \in @ : e[1] \notin keysGone}]
       /\ Finish(a0, stamped, [Ev("Expunge", s) EXCEPT !.uid = u, !.set = set, !.src = m])
       /\ force' = [force EXCEPT ![m] = @ \/ (del # {} /\ ~ss[s].ro)]
    /\ UNCHANGED <<next, dirty, nextId, agent>>

Close(s) ==
    /\ "Expunge" \in Acts /\ CanRun(s) /\ Selected(s)
    /\ LET m == ss[s].sel
           left == [ss |-> [ss EXCEPT ![s].sel = "", ![s].pend = <<>>], out |-> NoOut]
           del == {i \in DOMAIN msgs[m] : "Deleted" \in msgs[m][i].fl}
           gone == IF ss[s].ro THEN {} ELSE del
           r == ExpungeRes(left, m, msgs[m], gone, s)
           keysGone == {msgs[m][i].key : i \in gone}
       IN
       /\ (gone # {}) => Clean(m)
       /\ msgs' = TLCEval([msgs EXCEPT ![m] = r.ms])
       /\ files' = [files EXCEPT ![m] = {f \in @ : f[1] \notin keysGone}]
       /\ fseq' = [fseq EXCEPT ![m] = {e \in @ : e[1] \notin keysGone}]
       /\ Finish(Acc0, [r.acc EXCEPT !.ss[s].ro = FALSE], [Ev("Close", s) EXCEPT !.src = m])
       /\ force' = [force EXCEPT ![m] = @ \/ (gone # {})]
    /\ UNCHANGED <<next, dirty, nextId, agent>>

---------------------------------------------------------------------------
(* additions: files are written, then a forced resync of the destination   *)
DoAppendId(s, m, F, newId) ==
    /\ "Append" \in Acts /\ CanRun(s) /\ nextId <= MaxId /\ Clean(m)
    /\ LET a0 == Flush(Acc0, s, "APPEND", FALSE)
           k == FreeKey(files[m])
           fs2 == files[m] \cup {<<k, newId>>}
           fl == F \cup {"Recent"} \cup (IF "Seen" \in F THEN {} ELSE {"unseen"})
           fq2 == AsFile(msgs[m]) \cup Foreign(fseq[m], msgs[m]) \cup {<<k, f>> : f \in fl}
           r == ResyncRes(m, msgs[m], fs2, fq2, next[m], [ss |-> a0.ss, out |-> NoOut])
           a2 == Flush(r.acc, s, "APPEND", FALSE)
           uidNew == (CHOOSE x \in SeqToSet(r.ms) : x.key = k).uid
       IN
       /\ files' = [files EXCEPT ![m] = fs2]
       /\ msgs' = TLCEval([msgs EXCEPT ![m] = r.ms])
       /\ fseq' = [fseq EXCEPT ![m] = r.fq]
       /\ next' = [next EXCEPT ![m] = r.nx]
       /\ Finish(a0, a2, [Ev("Append", s) EXCEPT !.mbox = m, !.flags = SetToSeq(F \ {"Recent"}),
                             !.msgid = newId,
                             !.code = [name |-> "APPENDUID", vv |-> Vv(m), src |-> <<>>,
                                       dst |-> <<uidNew>>]])
    /\ nextId' = nextId + 1
    /\ dirty' = [dirty EXCEPT ![m] = FALSE]
    /\ force' = [force EXCEPT ![m] = FALSE]
    /\ UNCHANGED <<agent>>

DoAppend(s, m, F) == DoAppendId(s, m, F, nextId)

CopyMove(s, u, set, dst, move) ==
    /\ (IF move THEN "Move" ELSE "Copy") \in Acts /\ CanRun(s) /\ Selected(s)
    /\ LET m == ss[s].sel
           a0 == Flush(Acc0, s, IF move THEN "MOVE" ELSE "COPY", u)
           ev0 == [Ev(IF move THEN "Move" ELSE "Copy", s) EXCEPT !.uid = u, !.set = set,
                      !.mbox = dst, !.src = m]
       IN
       /\ Clean(m) /\ Clean(dst) /\ m # dst
       /\ IF move /\ ss[s].ro THEN          \* MOVE through an EXAMINE session: refused
            /\ Finish(Acc0, Acc0, [ev0 EXCEPT !.status = "NO"])
            /\ UNCHANGED <<msgs, files, fseq, next, dirty, force>>
          ELSE IF ~u /\ ~ValidSeq(set, Len(msgs[m])) THEN
            /\ Finish(a0, [ss |-> a0.ss, out |-> NoOut], [ev0 EXCEPT !.status = "BAD"])
            /\ UNCHANGED <<msgs, files, fseq, next, dirty, force>>
          ELSE IF msgs[m] = <<>> THEN      \* UID form on an empty mailbox: nothing to do
            /\ Finish(a0, [ss |-> a0.ss, out |-> NoOut], ev0)
            /\ UNCHANGED <<msgs, files, fseq, next, dirty, force>>
          ELSE
            LET addr == AddrOf(u, set, msgs[m])
                ns == SortedSeq(addr)
                k0 == FreeKey(files[dst])
                newf == {<<k0 + i - 1, msgs[m][ns[i]].id>> : i \in DOMAIN ns}
                newq == UNION {{<<k0 + i - 1, f>> : f \in msgs[m][ns[i]].fl \ {"Recent"}} : i \in DOMAIN ns}
                fs2 == files[dst] \cup newf
                fq2 == fseq[dst] \cup newq
                r == ResyncRes(dst, msgs[dst], fs2, fq2, next[dst], [ss |-> a0.ss, out |-> NoOut])
                srcU == [i \in DOMAIN ns |-> msgs[m][ns[i]].uid]
                dstU == [i \in DOMAIN ns |-> (CHOOSE x \in SeqToSet(r.ms) : x.key = k0 + i - 1).uid]
                code == IF addr = {} THEN NoCode
                        ELSE [name |-> "COPYUID", vv |-> Vv(dst), src |-> srcU, dst |-> dstU]
                x == IF move /\ addr # {} THEN ExpungeRes(r.acc, m, msgs[m], addr, s)
                     ELSE [ms |-> msgs[m], acc |-> r.acc]
                keysGone == IF move THEN {msgs[m][i].key : i \in addr} ELSE {}
                stamped == [x.acc EXCEPT !.out[s] = Stamp(@, IF move THEN "MOVE" ELSE "COPY", u)]
            IN /\ msgs' = TLCEval([msgs EXCEPT ![dst] = r.ms, ![m] = x.ms])
               /\ files' = [files EXCEPT ![dst] = fs2, ![m] = {f \in @ : f[1] \notin keysGone}]
               /\ fseq' = [fseq EXCEPT ![dst] = IF r.n > 0 THEN r.fq ELSE fq2,
                                        ![m] = {e \in @ : e[1] \notin keysGone}]
               /\ next' = [next EXCEPT ![dst] = r.nx]
               /\ dirty' = [dirty EXCEPT ![dst] = FALSE]
               /\ force' = [force EXCEPT ![dst] = FALSE, ![m] = @ \/ (move /\ addr # {})]
               /\ Finish(a0, stamped, [ev0 EXCEPT !.code = code,
                                           !.applied = AppliedOf(u, set, msgs[m])])
    /\ UNCHANGED <<nextId, agent>>

---------------------------------------------------------------------------
(* orderly shutdown and restart of the user server: every session is gone, the
   state comes back from the database and the folders; start-up activates every
   mailbox with a forced resync, so mail delivered meanwhile is noticed *)
RestartSrv ==
    /\ "Restart" \in Acts
    /\ \A s \in Sess : ~ss[s].idle
    /\ LET res == [m \in Mbox |-> ResyncRes(m, msgs[m], files[m], fseq[m], next[m],
                                            [ss |-> [s \in Sess |-> [sel |-> "", ro |-> FALSE, idle |-> FALSE,
                                                                     pend |-> <<>>, open |-> TRUE]],
                                             out |-> NoOut])]
           (* Mailbox.new: the resync at activation is forced only for a mailbox that is
              \Marked (had unseen or recent messages at its last resync - approximated by
              its current flags); otherwise it happens when the folder's mtime moved *)
           sync == [m \in Mbox |-> dirty[m] \/ \E i \in DOMAIN msgs[m] :
                                       msgs[m][i].fl \cap {"unseen", "Recent"} # {}]
       IN /\ msgs' = TLCEval([m \in Mbox |-> IF sync[m] THEN res[m].ms ELSE msgs[m]])
          /\ fseq' = [m \in Mbox |-> IF sync[m] /\ res[m].n > 0 THEN res[m].fq ELSE fseq[m]]
          /\ next' = [m \in Mbox |-> IF sync[m] THEN res[m].nx ELSE next[m]]
    /\ ss' = [s \in Sess |-> [sel |-> "", ro |-> FALSE, idle |-> FALSE, pend |-> <<>>, open |-> TRUE]]
    /\ dirty' = [m \in Mbox |-> FALSE]
    /\ force' = [m \in Mbox |-> FALSE]
    /\ last' = Ev("Restart", "")
    /\ UNCHANGED <<files, nextId, agent>>

---------------------------------------------------------------------------
Next ==
    \/ RestartSrv
    \/ \E m \in Mbox, un \in BOOLEAN, adv \in BOOLEAN : Deliver(m, un, adv)
    \/ \E m \in Mbox : Resync(m)
    \/ \E s \in Sess, m \in Mbox, ro \in BOOLEAN : Select(s, m, ro)
    \/ \E s \in Sess : Unselect(s) \/ Noop(s) \/ Idle(s) \/ Done(s) \/ Close(s)
    \/ \E s \in Sess, m \in Mbox : Status(s, m)
    \/ \E s \in Sess, u \in BOOLEAN, set \in Sets, mode \in Modes,
          F \in StoreFlags, silent \in Silents : Store(s, u, set, mode, F, silent)
    \/ \E s \in Sess, u \in BOOLEAN, set \in Sets, peek \in BOOLEAN : Fetch(s, u, set, peek)
    \/ \E s \in Sess, u \in BOOLEAN, key \in SearchKeys : Search(s, u, key)
    \/ \E s \in Sess : Expunge(s, FALSE, <<>>)
    \/ \E s \in Sess, set \in Sets : Expunge(s, TRUE, set)
    \/ \E s \in Sess, m \in Mbox, F \in StoreFlags \cup {{}} : DoAppend(s, m, F)
    \/ \E s \in Sess, u \in BOOLEAN, set \in Sets, d \in Mbox, mv \in BOOLEAN : CopyMove(s, u, set, d, mv)

(* history variable: the client's replayed view *)
ViewNext ==
    view' = TLCEval([s \in Sess |-> C01_Step(s, view[s], last', Nxt).v])

Spec == Init /\ [][Next /\ ViewNext]_vars

---------------------------------------------------------------------------
(* what TLC checks: the property layer on every transition *)
StepBad ==
    UNION {C01_Step(s, view[s], last', Nxt).bad : s \in Sess}
    \cup C0203_Step(Cur, last', Nxt)
    \cup C04_Step(Cur, last', Nxt)
    \cup C05_Step(Cur, last', Nxt)
    \cup C13_Step(Cur, last', Nxt, agent')
    \cup C12_Step(Cur, last', Nxt)
PropertyLayer == [][StepBad = {}]_vars

P_C01 == [][UNION {C01_Step(s, view[s], last', Nxt).bad : s \in Sess} = {}]_vars
P_C0203 == [][C0203_Step(Cur, last', Nxt) = {}]_vars
P_C04 == [][C04_Step(Cur, last', Nxt) = {}]_vars
P_C05 == [][C05_Step(Cur, last', Nxt) = {}]_vars
P_C13 == [][C13_Step(Cur, last', Nxt, agent') = {}]_vars
P_C12 == [][C12_Step(Cur, last', Nxt) \cup C0203_Step(Cur, last', Nxt) = {}]_vars

TypeOK ==
    /\ \A m \in Mbox : next[m] \in Nat \ {0}
    /\ \A s \in Sess : ss[s].sel \in Mbox \cup {""}

PendBound == \A s \in Sess : Len(ss[s].pend) <= MaxPend
CoreView == <<core, view>>
Bounded == PendBound /\ (MaxDepth = 0 \/ TLCGet("level") <= MaxDepth)
SetsSmall == {<<<<1, 1>>>>, <<<<2, 2>>>>, <<<<1, Star>>>>, <<<<Star, Star>>>>}
SetsMedium == SetsSmall \cup {<<<<3, 3>>>>, <<<<2, 1>>>>, <<<<2, Star>>>>, <<<<1, 1>>, <<3, 3>>>>, <<<<4, 4>>>>}
=============================================================================
