----------------------------- MODULE Lifecycle -----------------------------
(***************************************************************************)
(* C06: the life of one command as the client sees it, for every command    *)
(* class, argument class, mailbox state and session state.                  *)
(*                                                                         *)
(* The state machine tracks, abstractly, what the classes depend on:        *)
(* session state (authenticated / selected rw / selected ro / idling /      *)
(* closed), which mailbox is selected and in which state each mailbox is    *)
(* (missing, exists-empty, exists-with-messages, \Noselect placeholder),    *)
(* and whether the server was restarted since the placeholder was made.     *)
(* TLC enumerates the histories of command classes; the harness renders     *)
(* each step to real IMAP bytes, runs it against the real server and        *)
(* records what the client saw; TLC validates the record with `LifeBad`.    *)
(*                                                                         *)
(* The oracle is the statement of C06 only: exactly one tagged OK/NO/BAD    *)
(* carrying the command's tag (IDLE: after DONE), after all its untagged    *)
(* data; the session stays usable unless it was told BYE; the answer comes  *)
(* within the bound and not from the watchdog.                              *)
(***************************************************************************)
EXTENDS LifeProps

CONSTANTS Sess, Names, MaxSteps

MbStates == {"missing", "empty", "msgs", "nosel"}
ArgClasses == {"inrange", "beyond", "zero", "star", "rev", "uidmissing"}

(* command classes: [k, uid, arg, mb, mb2] *)
NoArg == "-"
Simple == {"NOOP", "CAPABILITY", "NAMESPACE", "ID", "CHECK", "CLOSE", "UNSELECT", "EXPUNGE",
           "IDLE", "LOGOUT", "LIST", "LSUB", "LOGIN", "AUTHENTICATE"}
OnMbox == {"SELECT", "EXAMINE", "CREATE", "DELETE", "SUBSCRIBE", "UNSUBSCRIBE", "STATUS", "APPEND"}
OnMsgs == {"FETCH", "FETCHBODY", "STORE", "SEARCHSET"}
OnMsgsMbox == {"COPY", "MOVE"}
Garbage == {"UNKNOWNCMD", "NOTAG", "TRUNCATED", "BADLITERAL", "BADDATE", "TRAILING", "EMPTY",
            "DEEPNEST", "BADSET", "UIDONLY"}

Classes ==
    {[k |-> k, uid |-> FALSE, arg |-> NoArg, mb |-> NoArg, mb2 |-> NoArg] : k \in Simple \cup Garbage}
    \cup {[k |-> k, uid |-> FALSE, arg |-> NoArg, mb |-> m, mb2 |-> NoArg] : k \in OnMbox, m \in Names}
    \cup {[k |-> "RENAME", uid |-> FALSE, arg |-> NoArg, mb |-> m, mb2 |-> m2] : m \in Names, m2 \in Names}
    \cup {[k |-> k, uid |-> u, arg |-> a, mb |-> NoArg, mb2 |-> NoArg] :
              k \in OnMsgs, u \in BOOLEAN, a \in ArgClasses}
    \cup {[k |-> k, uid |-> u, arg |-> a, mb |-> m, mb2 |-> NoArg] :
              k \in OnMsgsMbox, u \in BOOLEAN, a \in ArgClasses, m \in Names}
    \cup {[k |-> "UIDEXPUNGE", uid |-> TRUE, arg |-> a, mb |-> NoArg, mb2 |-> NoArg] : a \in ArgClasses}

VARIABLES ss,      \* session -> [st: "auth"|"sel"|"selro"|"idle"|"closed", mb]
          mbs,     \* mailbox name -> MbStates
          fresh,   \* mailbox name -> BOOLEAN: placeholder instantiated by a restart (no client touched it)
          step, last

vars == <<ss, mbs, fresh, step, last>>

Init ==
    /\ ss = [s \in Sess |-> [st |-> "auth", mb |-> NoArg]]
    /\ mbs = [m \in Names |-> IF m = "inbox" THEN "msgs" ELSE "missing"]
    /\ fresh = [m \in Names |-> FALSE]
    /\ step = 0
    /\ last = [s |-> "", c |-> [k |-> "INIT", uid |-> FALSE, arg |-> NoArg, mb |-> NoArg, mb2 |-> NoArg]]

Children(m) == {x \in Names : x # m /\ \E i \in 1..Len(x) : SubSeq(x, 1, i) = m \o "/"}
Exists(m) == mbs[m] \in {"empty", "msgs"}

(* abstract effect of a class on the tracked state (approximate on purpose:  *)
(* it steers coverage, the oracle does not depend on it)                     *)
Do(s, c) ==
    /\ step < MaxSteps
    /\ ss[s].st # "closed"
    /\ (ss[s].st = "idle") => c.k \in {"DONE", "NOOP"}
    /\ step' = step + 1
    /\ last' = [s |-> s, c |-> c]
    /\ fresh' = [m \in Names |-> IF c.mb = m \/ c.mb2 = m THEN FALSE ELSE fresh[m]]
    /\ CASE c.k \in {"SELECT", "EXAMINE"} ->
              /\ ss' = [ss EXCEPT ![s] = IF Exists(c.mb)
                                         THEN [st |-> IF c.k = "SELECT" THEN "sel" ELSE "selro", mb |-> c.mb]
                                         ELSE [st |-> "auth", mb |-> NoArg]]
              /\ UNCHANGED mbs
         [] c.k \in {"CLOSE", "UNSELECT"} ->
              /\ ss' = [ss EXCEPT ![s] = [st |-> "auth", mb |-> NoArg]]
              /\ UNCHANGED mbs
         [] c.k = "IDLE" -> ss' = [ss EXCEPT ![s].st = "idle"] /\ UNCHANGED mbs
         [] c.k = "LOGOUT" -> ss' = [ss EXCEPT ![s] = [st |-> "closed", mb |-> NoArg]] /\ UNCHANGED mbs
         [] c.k = "CREATE" ->
              /\ mbs' = [m \in Names |-> IF m = c.mb /\ mbs[m] \in {"missing", "nosel"} /\ m # "inbox"
                                         THEN "empty" ELSE mbs[m]]
              /\ UNCHANGED ss
         [] c.k = "DELETE" ->
              /\ mbs' = [m \in Names |-> IF m = c.mb /\ m # "inbox" /\ Exists(m)
                                         THEN (IF \E x \in Children(m) : mbs[x] # "missing" THEN "nosel" ELSE "missing")
                                         ELSE mbs[m]]
              /\ ss' = [t \in Sess |-> IF ss[t].mb = c.mb /\ c.mb # "inbox" THEN [st |-> "auth", mb |-> NoArg] ELSE ss[t]]
         [] c.k = "APPEND" ->
              /\ mbs' = [m \in Names |-> IF m = c.mb /\ mbs[m] = "empty" THEN "msgs" ELSE mbs[m]]
              /\ UNCHANGED ss
         [] c.k = "RENAME" ->
              /\ mbs' = [m \in Names |-> IF Exists(c.mb) /\ mbs[c.mb2] = "missing" /\ c.mb # "inbox"
                                         THEN (IF m = c.mb2 THEN mbs[c.mb] ELSE IF m = c.mb THEN "missing" ELSE mbs[m])
                                         ELSE mbs[m]]
              /\ UNCHANGED ss
         [] OTHER -> UNCHANGED <<ss, mbs>>

Done(s) ==
    /\ step < MaxSteps /\ ss[s].st = "idle"
    /\ step' = step + 1
    /\ ss' = [ss EXCEPT ![s].st = IF ss[s].mb = NoArg THEN "auth" ELSE "sel"]
    /\ last' = [s |-> s, c |-> [k |-> "DONE", uid |-> FALSE, arg |-> NoArg, mb |-> NoArg, mb2 |-> NoArg]]
    /\ UNCHANGED <<mbs, fresh>>

Restart ==
    /\ step < MaxSteps /\ \E m \in Names : mbs[m] = "nosel"
    /\ step' = step + 1
    /\ ss' = [s \in Sess |-> [st |-> "auth", mb |-> NoArg]]
    /\ fresh' = [m \in Names |-> mbs[m] = "nosel"]
    /\ last' = [s |-> "", c |-> [k |-> "RESTART", uid |-> FALSE, arg |-> NoArg, mb |-> NoArg, mb2 |-> NoArg]]
    /\ UNCHANGED mbs

Next == (\E s \in Sess, c \in Classes : Do(s, c)) \/ (\E s \in Sess : Done(s)) \/ Restart

Spec == Init /\ [][Next]_vars

TypeOK == /\ \A s \in Sess : ss[s].st \in {"auth", "sel", "selro", "idle", "closed"}
          /\ \A m \in Names : mbs[m] \in MbStates

(* coverage targets (used as "never" invariants to make TLC exhibit them) *)
ReachNoselAfterRestart == ~(\E m \in Names : fresh[m] /\ last.c.mb = m /\ last.c.k \in {"STATUS", "APPEND", "DELETE"})

=============================================================================
