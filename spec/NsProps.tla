------------------------------ MODULE NsProps ------------------------------
(***************************************************************************)
(* Property layer for the mailbox namespace (C17) and for confinement of   *)
(* mailbox names to the user's mail directory (C09).                       *)
(*                                                                         *)
(* Names and patterns are sequences of one-character strings (TLC cannot   *)
(* look inside a string).  A tree is a set of nodes                        *)
(*     [name, nosel, sub]                                                  *)
(* "exists" = is a node; nosel = deleted-but-kept placeholder.             *)
(***************************************************************************)
EXTENDS Naturals, Integers, Sequences, FiniteSets, SequencesExt, TLC

Sep == "/"
Lower(c) ==
    CASE c = "I" -> "i" [] c = "N" -> "n" [] c = "B" -> "b" [] c = "O" -> "o" [] c = "X" -> "x" [] OTHER -> c
LowerSeq(s) == [i \in DOMAIN s |-> Lower(s[i])]
Inbox == <<"i", "n", "b", "o", "x">>
IsInbox(n) == LowerSeq(n) = Inbox
Canon(n) == IF IsInbox(n) THEN Inbox ELSE n          \* stored form

(* IMAP LIST wildcard match: "*" any run, "%" any run without the delimiter *)
RECURSIVE MatchFrom(_, _, _, _)
MatchFrom(p, i, n, j) ==
    IF i > Len(p) THEN j > Len(n)
    ELSE IF p[i] = "*" THEN
        \E k \in j..(Len(n) + 1) : MatchFrom(p, i + 1, n, k)
    ELSE IF p[i] = "%" THEN
        \E k \in j..(Len(n) + 1) :
            /\ \A x \in j..(k - 1) : n[x] # Sep
            /\ MatchFrom(p, i + 1, n, k)
    ELSE j <= Len(n) /\ p[i] = n[j] /\ MatchFrom(p, i + 1, n, j + 1)
Match(p, n) == MatchFrom(p, 1, n, 1)

(* reference + pattern as the client means it; INBOX is matched case-insensitively *)
FullPattern(ref, pat) == ref \o pat
MatchesName(ref, pat, n) ==
    \/ Match(FullPattern(ref, pat), n)
    \/ (IsInbox(n) /\ IsInbox(FullPattern(ref, pat)))

IsBelow(x, n) == Len(x) > Len(n) + 1 /\ SubSeq(x, 1, Len(n)) = n /\ x[Len(n) + 1] = Sep
Names(tree) == {t.name : t \in tree}
Node(tree, n) == CHOOSE t \in tree : t.name = n
HasChildren(tree, n) == \E t \in tree : IsBelow(t.name, n)
Parent(n) ==
    LET idx == {i \in DOMAIN n : n[i] = Sep} IN
    IF idx = {} THEN <<>> ELSE SubSeq(n, 1, CHOOSE i \in idx : \A k \in idx : k <= i) \* up to and incl. last "/"
ParentName(n) == IF Parent(n) = <<>> THEN <<>> ELSE SubSeq(Parent(n), 1, Len(Parent(n)) - 1)
Ancestors(n) == {SubSeq(n, 1, i - 1) : i \in {k \in DOMAIN n : n[k] = Sep}}

---------------------------------------------------------------------------
(* C17: LIST / LSUB.  listed: set of [name, nosel, haschildren, hasnochildren] *)
(* pats: the set of patterns of the command (one for LIST/LSUB of RFC 3501,
   several for the multi-pattern LIST of RFC 5258: the union is listed) *)
ListExpected(tree, ref, pats, subscribedOnly) ==
    {t \in tree : (\E pat \in pats : MatchesName(ref, pat, t.name)) /\ (subscribedOnly => t.sub)}

ListBad(tree, ref, pats, lsub, listed, dup) ==
    LET want == ListExpected(tree, ref, pats, lsub)
        wantNames == {t.name : t \in want}
        gotNames == {Canon(l.name) : l \in listed}
    IN
      (IF dup THEN {"C17.ListedOnce"} ELSE {})
    \cup (IF wantNames \ gotNames # {} THEN {"C17.ListMissing"} ELSE {})
    \cup (IF gotNames \ wantNames # {} THEN {"C17.ListExtra"} ELSE {})
    \cup (IF \E l \in listed : Canon(l.name) \in wantNames
               /\ l.nosel # Node(tree, Canon(l.name)).nosel
          THEN {"C17.NoselectExact"} ELSE {})
    \cup (IF ~lsub /\ \E l \in listed : Canon(l.name) \in wantNames
               /\ (l.haschildren # HasChildren(tree, Canon(l.name))
                   \/ l.hasnochildren = HasChildren(tree, Canon(l.name)))
          THEN {"C17.HasChildrenExact"} ELSE {})

(* RFC 5258: with the SUBSCRIBED selection option or the SUBSCRIBED return option
   every listed mailbox carries \Subscribed exactly when it is subscribed.
   listed entries here also have the field `subscribed`. *)
SubAttrBad(tree, listed) ==
    IF \E l \in listed : Canon(l.name) \in Names(tree) /\ l.subscribed # Node(tree, Canon(l.name)).sub
    THEN {"C17.SubscribedAttrExact"} ELSE {}

(* RFC 5258 RECURSIVEMATCH with SUBSCRIBED (section 3.5 and example 8 of section 5):
   a mailbox matching the pattern is returned when it is subscribed, or when it has
   a subscribed descendant that does NOT match the pattern (that descendant would
   otherwise not be heard of); when all its subscribed descendants match the
   pattern returning it is redundant (SHOULD NOT, but allowed).  Nothing else is
   returned.  One that is returned without being subscribed itself carries
   CHILDINFO ("SUBSCRIBED"); CHILDINFO is never given to a mailbox without a
   subscribed descendant.  (Whether a subscribed mailbox with subscribed
   descendants also carries CHILDINFO is left open.)
   listed entries here have the fields name, subscribed, childinfo. *)
HasSubDesc(tree, n) == \E t \in tree : IsBelow(t.name, n) /\ t.sub
RecursiveBad(tree, ref, pats, listed) ==
    LET M(n) == \E p \in pats : MatchesName(ref, p, n)
        matches == {t \in tree : M(t.name)}
        hidden(n) == \E t \in tree : IsBelow(t.name, n) /\ t.sub /\ ~M(t.name)
        must == {t.name : t \in {x \in matches : x.sub \/ hidden(x.name)}}
        may == {t.name : t \in {x \in matches : x.sub \/ HasSubDesc(tree, x.name)}}
        got == {Canon(l.name) : l \in listed}
    IN (IF must \ got # {} THEN {"C17.RecursiveMissing"} ELSE {})
       \cup (IF got \ may # {} THEN {"C17.RecursiveExtra"} ELSE {})
       \cup (IF \E l \in listed : Canon(l.name) \in may /\ l.childinfo /\ ~HasSubDesc(tree, Canon(l.name))
             THEN {"C17.ChildInfoExact"} ELSE {})
       \cup (IF \E l \in listed : Canon(l.name) \in may /\ ~Node(tree, Canon(l.name)).sub /\ ~l.childinfo
             THEN {"C17.ChildInfoExact"} ELSE {})

---------------------------------------------------------------------------
(* C17: namespace commands.  ev: [act, status, name, name2]; trees are the   *)
(* projected (disk + database) trees before and after.                        *)
Refused(ev) == ev.status \in {"NO", "BAD"}
SameTree(a, b) == a = b

Subtree(tree, n) == {t \in tree : t.name = n \/ IsBelow(t.name, n)}
Renamed(t, o, n) == [t EXCEPT !.name = n \o SubSeq(t.name, Len(o) + 1, Len(t.name))]

NsStepBad(pre, ev, post) ==
    LET n == Canon(ev.name) n2 == Canon(ev.name2) IN
    IF ev.act \notin {"Create", "Delete", "Rename", "Subscribe", "Unsubscribe"} THEN
        (IF ~SameTree(pre, post) THEN {"C17.OnlyNamespaceCommandsChangeTree"} ELSE {})
    ELSE IF Refused(ev) THEN
        (IF ~SameTree(pre, post) THEN {"C17.RefusedChangesNothing"} ELSE {})
    ELSE IF ev.act = "Create" THEN
        (IF n \notin Names(post) \/ Node(post, n).nosel THEN {"C17.CreatedExists"} ELSE {})
        \cup (IF \E a \in Ancestors(n) : a \notin Names(post) THEN {"C17.CreateMakesSuperiors"} ELSE {})
        \cup (IF \E t \in pre : t.name # n /\ t.name \notin Ancestors(n) /\ t \notin post
              THEN {"C17.CreateTouchedOthers"} ELSE {})
        \cup (IF \E t \in post : t.name # n /\ t.name \notin Ancestors(n) /\ t \notin pre
              THEN {"C17.CreateTouchedOthers"} ELSE {})
    ELSE IF ev.act = "Delete" THEN
        (IF IsInbox(n) THEN {"C17.InboxUndeletable"} ELSE {})
        \cup (IF n \in Names(pre) /\ ~HasChildren(pre, n) /\ ~Node(pre, n).sub /\ n \in Names(post)
              THEN {"C17.DeletedLeafGone"} ELSE {})
        \cup (IF n \in Names(pre) /\ (HasChildren(pre, n) \/ Node(pre, n).sub)
                 /\ (n \notin Names(post) \/ ~Node(post, n).nosel)
              THEN {"C17.DeletedParentBecomesNoselect"} ELSE {})
        \cup (IF \E t \in pre : t.name # n /\ t \notin post THEN {"C17.DeleteTouchedOthers"} ELSE {})
        \cup (IF \E t \in post : t.name # n /\ t \notin pre THEN {"C17.DeleteTouchedOthers"} ELSE {})
    ELSE IF ev.act = "Rename" /\ ~IsInbox(n) THEN
        LET moved == Subtree(pre, n)
            want == (pre \ moved) \cup {Renamed(t, n, n2) : t \in moved}
            (* superiors of the new name may have been created *)
            extra == {t \in post : t.name \in Ancestors(n2) /\ t.name \notin Names(pre)}
        IN (IF post \ extra # want THEN {"C17.RenameMovesSubtree"} ELSE {})
           \cup (IF \E t \in post : t.name = n \/ IsBelow(t.name, n) THEN {"C17.RenameLeavesNothing"} ELSE {})
    ELSE IF ev.act = "Rename" THEN      \* RENAME INBOX x: x is created, INBOX stays
        (IF n2 \notin Names(post) \/ Inbox \notin Names(post) THEN {"C17.RenameInbox"} ELSE {})
    ELSE IF ev.act \in {"Subscribe", "Unsubscribe"} THEN
        (IF n \in Names(post) /\ Node(post, n).sub # (ev.act = "Subscribe") THEN {"C17.SubscriptionSet"} ELSE {})
        \cup (IF {[t EXCEPT !.sub = FALSE] : t \in pre} # {[t EXCEPT !.sub = FALSE] : t \in post}
              THEN {"C17.SubscribeTouchedTree"} ELSE {})
    ELSE {}

(* the tree on disk and the tree in the database (what LIST reads) agree *)
DiskDbBad(disk, db) == IF disk # {t.name : t \in db} THEN {"C17.DiskAndListAgree"} ELSE {}

---------------------------------------------------------------------------
(* C09: a mailbox name as path components ("" for an empty component, ".."   *)
(* ".").  The server tolerates and ignores one leading "/".                   *)
RECURSIVE Walk(_, _, _)
Walk(comps, i, depth) ==          \* minimal depth reached while walking; < 0 = left the root
    IF i > Len(comps) THEN depth
    ELSE LET c == comps[i] IN
         IF c = ".." THEN (IF depth - 1 < 0 THEN -1 ELSE Walk(comps, i + 1, depth - 1))
         ELSE IF c = "." \/ c = "" THEN Walk(comps, i + 1, depth)
         ELSE Walk(comps, i + 1, depth + 1)
(* name: [slashes: number of leading "/", comps: Seq(component)].  The server
   resolves a name like a path inside a chroot at the mail directory
   (os.path.normpath, then one leading "/" is ignored): in an absolute name
   ".." can not climb above the top; exactly two leading slashes survive
   normalisation (POSIX) and the name is still absolute after one is ignored;
   a relative name that climbs above the top leads outside. *)
RECURSIVE LeadEmpty(_, _)
LeadEmpty(comps, i) == IF i <= Len(comps) /\ comps[i] = "" THEN LeadEmpty(comps, i + 1) ELSE i - 1
Escapes(name) ==
    LET k == LeadEmpty(name.comps, 1)
        L == name.slashes + (IF name.slashes > 0 \/ k > 0 THEN k ELSE 0)
        rest == SubSeq(name.comps, k + 1, Len(name.comps))
    IN IF L = 0 THEN Walk(name.comps, 1, 0) < 0
       ELSE IF L = 2 THEN \E i \in DOMAIN rest : rest[i] \notin {"", ".", ".."}
       ELSE FALSE

(* A LIST/LSUB reference or pattern that leads outside may also be answered OK
   with nothing listed from outside (checked by NoLeak); every other command
   naming such a mailbox must be refused. *)
ConfineBad(ev) ==
    IF ev.escapes THEN
        (IF ev.status = "OK" /\ ~ev.listslot THEN {"C09.Refused"} ELSE {})
        \cup (IF ev.outside_changed THEN {"C09.Confined"} ELSE {})
        \cup (IF ev.leaked THEN {"C09.NoLeak"} ELSE {})
    ELSE (IF ev.outside_changed THEN {"C09.Confined"} ELSE {})
=============================================================================
