------------------------------ MODULE Pop3Trace ------------------------------
(***************************************************************************)
(* Validation of recorded sessions of the real server against the property  *)
(* layer of C20 (Pop3Props).  Input ($TRACE_FILE): a JSON array of runs     *)
(*   [cat |-> catalogue of message texts (see Pop3Props),                   *)
(*    steps |-> the events of the run in order]                             *)
(* The history (snapshot, marks, announced sizes) is carried by TLC along   *)
(* each run.  Output: <<"VIOL", run, step, act, clause, signature>> per     *)
(* violated clause and <<"DONE", run, steps>> when a run is consumed.       *)
(***************************************************************************)
EXTENDS Pop3Props, Json, IOUtils

VARIABLES tid, l, h
Runs == JsonDeserialize(IOEnv.TRACE_FILE)

Init == tid \in 1..Len(Runs) /\ l = 1 /\ h = H0
Next ==
    /\ l <= Len(Runs[tid].steps)
    /\ LET e == Runs[tid].steps[l]
           cat == Runs[tid].cat IN
       /\ \A c \in StepBad(cat, h, e) : PrintT(<<"VIOL", tid, l, e.act, c, Sig(cat, h, e, c)>>)
       /\ (l = Len(Runs[tid].steps)) => PrintT(<<"DONE", tid, l>>)
       /\ h' = Advance(h, e)
    /\ l' = l + 1 /\ UNCHANGED tid
Spec == Init /\ [][Next]_<<tid, l, h>>
=============================================================================
