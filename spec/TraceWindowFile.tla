-------------------------- MODULE TraceWindowFile --------------------------
(***************************************************************************)
(* C13 under concurrency: after every window of commands issued at the     *)
(* same moment by several sessions (harness/concdriver.py; all of them     *)
(* have been answered), the folder's .mh_sequences mentions no removed     *)
(* message and shows the flags the sessions see (MailProps!FileAgrees).    *)
(* Input (env TRACE_FILE): JSON array of windows with field `final`:       *)
(*   final.mb[m] = [msgs: <<key, uid, id, date, flags>>.., files, fseq]    *)
(***************************************************************************)
EXTENDS MailProps, Json, IOUtils

VARIABLE i
Wins == JsonDeserialize(IOEnv.TRACE_FILE)
SeqSet(s) == {s[j] : j \in DOMAIN s}
Mb(x) == [msgs |-> [j \in DOMAIN x.msgs |-> [key |-> x.msgs[j][1], uid |-> x.msgs[j][2], id |-> x.msgs[j][3],
                                             fl |-> SeqSet(x.msgs[j][5])]],
          files |-> {<<f[1], f[2]>> : f \in SeqSet(x.files)},
          fseq |-> {<<e[1], e[2]>> : e \in SeqSet(x.fseq)}]

Init == i = 1
Next ==
    /\ i <= Len(Wins)
    /\ \A m \in DOMAIN Wins[i].final.mb :
          \A c \in FileAgrees(Mb(Wins[i].final.mb[m])) : PrintT(<<"VIOL", i, m, c>>)
    \* a window during which an external agent delivered (folder mtime advanced): once every session has
    \* passed a sync point (`settled` = the state after the NOOPs that follow), every message file of the
    \* folder is a message of the mailbox (C13: "announced ... once the modification time has advanced")
    /\ ("settled" \in DOMAIN Wins[i]) =>
          \A m \in {mm \in DOMAIN Wins[i].settled.mb :       \* (a mailbox somebody still has selected: its NOOP is the sync point)
                        \E s \in DOMAIN Wins[i].settled.ss : Wins[i].settled.ss[s].sel = mm} :
              LET x == Mb(Wins[i].settled.mb[m]) IN
              (\E f \in x.files : \A j \in DOMAIN x.msgs : x.msgs[j].key # f[1])
                  => PrintT(<<"VIOL", i, m, "C13.AnnouncedAfterSync">>)
    /\ (i = Len(Wins)) => PrintT(<<"DONE", i>>)
    /\ i' = i + 1
Spec == Init /\ [][Next]_i
=============================================================================
