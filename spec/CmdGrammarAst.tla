---------------------------- MODULE CmdGrammarAst ----------------------------
(***************************************************************************)
(* C08, the verdict layer: what it means for the result of parsing one text *)
(* to agree with what module CmdGrammar says about that text.               *)
(*                                                                         *)
(* A case record (all fields strings or sequences of strings):              *)
(*   cat, verdict, ast   from CmdGrammar ("OK": text denotes ast; "BAD":    *)
(*                       text is not a sentence)                            *)
(*   out      what IMAPClientCommand(text).parse() did: "parsed" | "bad"    *)
(*            (a BadCommand: the caller answers BAD) | "exc:<type>" |       *)
(*            "hang"                                                        *)
(*   iast     projection of the parsed object to the ast vocabulary         *)
(*   rest     the input left unconsumed                                     *)
(*   mut      outcomes (as `out`) of the byte-level mutations of the text   *)
(*   e2e      [ran, ntag, status, others, usable, handed]: the text sent    *)
(*            through the real IMAPClientProxy.run; handed = the text the   *)
(*            proxy constructed the parser with                             *)
(*   text     the text itself                                               *)
(***************************************************************************)
EXTENDS Naturals, Sequences, FiniteSets, TLC

CRLF == "\r\n"

(* Equalities of denotation that RFC 3501 states: INBOX in any case is one
   name; searched strings, header field names, charset and mechanism names
   and system flags are case-insensitive; the two ends of a range are
   unordered. *)
FoldPairs == {
    <<"m:INBOX", "m:inbox">>, <<"m:InBoX", "m:inbox">>,
    <<"p:INBOX", "p:inbox">>, <<"p:InBoX", "p:inbox">>,
    <<"h:Subject", "h:subject">>,
    <<"s:Hello World", "s:hello world">>,
    <<"c:UTF-8", "c:utf-8">>, <<"c:US-ASCII", "c:us-ascii">>, <<"mech:plain", "mech:PLAIN">>,
    <<"f:\\seen", "f:\\Seen">>, <<"f:\\deleted", "f:\\Deleted">>, <<"f:\\flagged", "f:\\Flagged">>,
    <<"f:\\answered", "f:\\Answered">>, <<"f:\\draft", "f:\\Draft">>, <<"f:\\recent", "f:\\Recent">>,
    <<"i:4:2", "i:2:4">>, <<"i:*:2", "i:2:*">> }
Canon(t) == IF \E p \in FoldPairs : p[1] = t THEN (CHOOSE p \in FoldPairs : p[1] = t)[2] ELSE t
CanonSeq(a) == [i \in 1..Len(a) |-> Canon(a[i])]
SameDenotation(a, b) == CanonSeq(a) = CanonSeq(b)

Answered(o) == o \in {"parsed", "bad"}

CaseBad(c) ==
       (IF ~Answered(c.out) THEN {"C08.Total"} ELSE {})
  \cup (IF \E i \in 1..Len(c.mut) : ~Answered(c.mut[i]) THEN {"C08.TotalUnderMutation"} ELSE {})
  \cup (IF c.verdict = "BAD" /\ c.out = "parsed" THEN {"C08.RejectsInvalid"} ELSE {})
  \cup (IF c.verdict = "OK" /\ c.out = "bad" THEN {"C08.AcceptsValid"} ELSE {})
  \cup (IF c.verdict = "OK" /\ c.out = "parsed" /\ ~SameDenotation(c.iast, c.ast) THEN {"C08.Faithful"} ELSE {})
  \cup (IF c.verdict = "OK" /\ c.out = "parsed" /\ c.rest \notin {"", CRLF} THEN {"C08.NothingLeft"} ELSE {})
  \cup (IF c.e2e[1] = "yes" /\ ~(c.e2e[2] = "1" /\ c.e2e[3] = "BAD" /\ c.e2e[4] = "0" /\ c.e2e[5] = "yes")
        THEN {"C08.BadReachesClient"} ELSE {})
  \cup (IF c.e2e[1] = "yes" /\ c.e2e[6] # c.text THEN {"C08.OctetsReachParser"} ELSE {})

(* sanity of the verdict layer *)
NoE2E == <<"no", "0", "NONE", "0", "no", "">>
Good == [text |-> "a1 SELECT INBOX", cat |-> "ok", verdict |-> "OK", ast |-> <<"tag:a1", "cmd", "select", "nouid", "m:INBOX">>,
         out |-> "parsed", iast |-> <<"tag:a1", "cmd", "select", "nouid", "m:inbox">>, rest |-> "",
         mut |-> <<"bad", "parsed">>, e2e |-> NoE2E]
Neg == [Good EXCEPT !.cat = "garbage", !.verdict = "BAD", !.out = "bad", !.iast = <<>>,
                    !.e2e = <<"yes", "1", "BAD", "0", "yes", "a1 SELECT INBOX">>]
OracleSane ==
    /\ CaseBad(Good) = {}
    /\ CaseBad([Good EXCEPT !.rest = CRLF]) = {}
    /\ CaseBad([Good EXCEPT !.rest = "es"]) = {"C08.NothingLeft"}
    /\ CaseBad([Good EXCEPT !.ast = <<"tag:a1", "cmd", "select", "nouid", "m:inboxes">>]) = {"C08.Faithful"}
    /\ CaseBad([Good EXCEPT !.iast = <<"tag:a1", "cmd", "select", "nouid", "m:inbox", "x">>]) = {"C08.Faithful"}
    /\ CaseBad([Good EXCEPT !.out = "bad"]) = {"C08.AcceptsValid"}
    /\ CaseBad([Good EXCEPT !.out = "exc:ValueError"]) = {"C08.Total"}
    /\ CaseBad([Good EXCEPT !.mut = <<"bad", "hang">>]) = {"C08.TotalUnderMutation"}
    /\ CaseBad(Neg) = {}
    /\ CaseBad([Neg EXCEPT !.out = "parsed"]) = {"C08.RejectsInvalid"}
    /\ CaseBad([Neg EXCEPT !.e2e = <<"yes", "0", "NONE", "0", "no", "a1 SELECT INBOX">>]) = {"C08.BadReachesClient"}
    /\ CaseBad([Neg EXCEPT !.e2e = <<"yes", "1", "BAD", "0", "no", "a1 SELECT INBOX">>]) = {"C08.BadReachesClient"}
    /\ CaseBad([Neg EXCEPT !.e2e = <<"yes", "1", "BAD", "0", "yes", "a1 SELECT INBO">>]) = {"C08.OctetsReachParser"}
    /\ SameDenotation(<<"i:4:2", "s:Hello World">>, <<"i:2:4", "s:hello world">>)
    /\ ~SameDenotation(<<"m:inboxes">>, <<"m:inbox">>)
=============================================================================
