------------------------------ MODULE DurProps ------------------------------
(***************************************************************************)
(* Property layer of C11: what must hold after the per-user server was      *)
(* killed at an arbitrary instant and started again.                        *)
(*                                                                         *)
(* An experiment record x:                                                  *)
(*   ack[m]    acknowledged state of mailbox m before the kill:             *)
(*             [vv, next, msgs: Seq(<<uid, id, flagset>>), sel: BOOLEAN]    *)
(*   infl      the command that was in flight and NOT acknowledged:         *)
(*             [kind, src, dst, uid, set, flags, mode]  (kind "" = none)    *)
(*   revealed  set of <<mailbox, vv, uid, id>> ever shown to a client       *)
(*   obs       [started, sel: m -> status, mb: m -> [vv, next, msgs]]       *)
(*   unnoticed[m]  ids of files an MH agent had delivered that the server   *)
(*             had not announced yet                                        *)
(***************************************************************************)
EXTENDS MailProps

Ids(ms) == {ms[i][2] : i \in DOMAIN ms}
BagIds(ms) == [i \in Ids(ms) |-> Cardinality({k \in DOMAIN ms : ms[k][2] = i})]
CountId(ms, i) == Cardinality({k \in DOMAIN ms : ms[k][2] = i})
AsMsgs(ms) == [i \in DOMAIN ms |-> [key |-> 0, uid |-> ms[i][1], id |-> ms[i][2], d |-> 0, fl |-> ms[i][3]]]

(* positions of ack[m].msgs the unacknowledged command addresses *)
InflAddr(x, m) ==
    IF x.infl.kind = "" \/ x.infl.src # m THEN {}
    ELSE LET ms == AsMsgs(x.ack[m].msgs)
             ev == [uid |-> x.infl.uid, set |-> x.infl.set]
         IN IF x.infl.kind \in {"Expunge", "Close"}
            THEN {i \in DOMAIN ms : "Deleted" \in ms[i].fl /\ (x.infl.set = <<>> \/ i \in Addressed(ev, ms))}
            ELSE IF x.infl.kind \in {"Move", "Copy", "Store", "Fetch"} THEN Addressed(ev, ms)
            ELSE IF x.infl.kind \in {"Delete", "Rename"} THEN DOMAIN ms
            ELSE {}

MayVanish(x, m) ==      \* ids the in-flight command may legitimately have removed from m
    IF x.infl.kind \in {"Expunge", "Close", "Move", "Delete", "Rename"}
    THEN {x.ack[m].msgs[i][2] : i \in InflAddr(x, m)} ELSE {}
MayAppear(x, m) ==      \* ids the in-flight command may legitimately have added to m
    (IF x.infl.kind \in {"Copy", "Move"} /\ x.infl.dst = m
     THEN {x.ack[x.infl.src].msgs[i][2] : i \in InflAddr(x, x.infl.src)} ELSE {})
    \cup (IF x.infl.kind = "Append" /\ x.infl.dst = m THEN {x.infl.msgid} ELSE {})
    \cup (IF x.infl.kind = "Rename" /\ x.infl.dst = m THEN Ids(x.ack[x.infl.src].msgs) ELSE {})
    \cup x.unnoticed[m]
MayReflag(x, m) ==      \* ids whose flags the in-flight command may have changed
    IF x.infl.kind \in {"Store", "Fetch"} THEN {x.ack[m].msgs[i][2] : i \in InflAddr(x, m)} ELSE {}

Mailboxes(x) == {m \in DOMAIN x.ack : x.ack[m].sel}
Gone(x, m) == x.infl.kind \in {"Delete", "Rename"} /\ x.infl.src = m   \* may be gone or renamed

DurBad(x) ==
    IF ~x.obs.started THEN {"C11.StartsAgain"}
    ELSE
    UNION {
        IF m \notin DOMAIN x.obs.mb THEN (IF Gone(x, m) THEN {} ELSE {"C11.MailboxStillThere"})
        ELSE LET a == x.ack[m] o == x.obs.mb[m] IN
          (IF o.status # "OK" THEN {"C11.EveryMailboxSelectable"} ELSE
             (* acknowledged messages are present *)
             (IF \E i \in Ids(a.msgs) \ MayVanish(x, m) : CountId(o.msgs, i) < CountId(a.msgs, i)
              THEN {"C11.AckedPresent"} ELSE {})
             \cup
             (* nothing that was acknowledged as expunged (or never existed) is there *)
             (IF \E i \in Ids(o.msgs) \ MayAppear(x, m) : CountId(o.msgs, i) > CountId(a.msgs, i)
              THEN {"C11.AckedExpungedStay"} ELSE {})
             \cup
             (* acknowledged flags persist *)
             (IF \E i \in Ids(a.msgs) \ (MayReflag(x, m) \cup MayVanish(x, m) \cup MayAppear(x, m)) :
                    {Visible(a.msgs[k][3]) : k \in {j \in DOMAIN a.msgs : a.msgs[j][2] = i}}
                    # {Visible(o.msgs[k][3]) : k \in {j \in DOMAIN o.msgs : o.msgs[j][2] = i}}
              THEN {"C11.AckedFlagsPersist"} ELSE {})
             \cup
             (* no (UIDVALIDITY, UID) ever revealed names another message now *)
             (IF \E r \in x.revealed : r[1] = m /\ r[2] = o.vv /\ r[4] # 0
                    /\ \E k \in DOMAIN o.msgs : o.msgs[k][1] = r[3] /\ o.msgs[k][2] # r[4]
              THEN {"C11.NoRebind"} ELSE {})
             \cup
             (IF \E r \in x.revealed : r[1] = m /\ r[2] = o.vv /\ o.next <= r[3]
              THEN {"C11.NextAboveRevealed"} ELSE {})
             \cup (IF \E k \in DOMAIN o.msgs : o.msgs[k][1] >= o.next THEN {"C11.NextAboveRevealed"} ELSE {})
             \cup (IF ~StrictlyAscending([k \in DOMAIN o.msgs |-> o.msgs[k][1]]) THEN {"C11.UidsAscending"} ELSE {})
             \cup (IF \E k \in DOMAIN o.msgs : o.msgs[k][2] = 0 THEN {"C11.MessageBehindUid"} ELSE {}))
        : m \in Mailboxes(x)}

(* sanity of the oracle *)
A0 == [vv |-> 1, next |-> 4, sel |-> TRUE, msgs |-> <<<<1, 10, {"Seen"}>>, <<2, 11, {"Deleted"}>>, <<3, 12, {}>>>>]
X0 == [ack |-> [inbox |-> A0], unnoticed |-> [inbox |-> {}],
       infl |-> [kind |-> "", src |-> "", dst |-> "", uid |-> FALSE, set |-> <<>>, flags |-> <<>>, mode |-> "", msgid |-> 0],
       revealed |-> {<<"inbox", 1, 1, 10>>, <<"inbox", 1, 3, 12>>},
       obs |-> [started |-> TRUE, mb |-> [inbox |-> [status |-> "OK", vv |-> 1, next |-> 4, msgs |-> A0.msgs]]]]
OracleSane ==
    /\ DurBad(X0) = {}
    /\ DurBad([X0 EXCEPT !.obs.started = FALSE]) = {"C11.StartsAgain"}
    /\ "C11.AckedPresent" \in DurBad([X0 EXCEPT !.obs.mb.inbox.msgs = <<<<1, 10, {"Seen"}>>, <<3, 12, {}>>>>])
    /\ DurBad([X0 EXCEPT !.obs.mb.inbox.msgs = <<<<1, 10, {"Seen"}>>, <<3, 12, {}>>>>,
                         !.infl.kind = "Expunge", !.infl.src = "inbox"]) = {}
    /\ "C11.NoRebind" \in DurBad([X0 EXCEPT !.obs.mb.inbox.msgs = <<<<1, 12, {}>>, <<2, 11, {"Deleted"}>>, <<3, 10, {"Seen"}>>>>])
    /\ DurBad([X0 EXCEPT !.obs.mb.inbox.msgs = <<<<4, 10, {"Seen"}>>, <<5, 11, {"Deleted"}>>, <<6, 12, {}>>>>,
                         !.obs.mb.inbox.next = 7]) = {}
    /\ "C11.NextAboveRevealed" \in DurBad([X0 EXCEPT !.obs.mb.inbox.next = 3])
    /\ "C11.AckedFlagsPersist" \in DurBad([X0 EXCEPT !.obs.mb.inbox.msgs = <<<<1, 10, {}>>, <<2, 11, {"Deleted"}>>, <<3, 12, {}>>>>])
=============================================================================
