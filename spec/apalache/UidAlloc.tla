------------------------------ MODULE UidAlloc ------------------------------
(***************************************************************************)
(* The UID allocation discipline of one mailbox under one UIDVALIDITY,     *)
(* abstracted from MailStore.tla (ResyncRes / DoAppend / CopyMove take     *)
(* fresh UIDs from `next` and raise it; EXPUNGE, pack and restart never    *)
(* lower it).  Checked for histories of ANY length: IndInv is an inductive *)
(* invariant (Apalache: Init => IndInv, IndInv /\ Next => IndInv').        *)
(* C02: UIDs strictly ascending, never reused, UIDNEXT above every UID     *)
(* ever assigned and never decreasing.                                     *)
(***************************************************************************)
EXTENDS Integers, Sequences, FiniteSets, Apalache

VARIABLES
    \* @type: Seq(Int);
    uids,
    \* @type: Int;
    next,
    \* @type: Set(Int);
    ever,
    \* @type: Int;
    told

\* @type: (Seq(Int)) => Set(Int);
Range(s) == {s[i] : i \in DOMAIN s}

Init == uids = <<>> /\ next = 1 /\ ever = {} /\ told = 0

(* n new messages (APPEND, COPY/MOVE into the mailbox, resync of deliveries) *)
Add(n) ==
    /\ n \in 1..3
    /\ uids' = IF n = 1 THEN Append(uids, next)
               ELSE IF n = 2 THEN Append(Append(uids, next), next + 1)
               ELSE Append(Append(Append(uids, next), next + 1), next + 2)
    /\ next' = next + n
    /\ ever' = ever \union {next + k : k \in {j \in 0..2 : j < n}}
    /\ UNCHANGED told

(* EXPUNGE / CLOSE / MOVE out / POP3 QUIT: any one message goes (repeat for more) *)
Remove(i) ==
    /\ i \in DOMAIN uids
    /\ uids' = SubSeq(uids, 1, i - 1) \o SubSeq(uids, i + 1, Len(uids))
    /\ UNCHANGED <<next, ever, told>>

(* SELECT / STATUS / APPENDUID tell a client the current UIDNEXT *)
Tell == told' = next /\ UNCHANGED <<uids, next, ever>>

(* pack renumbers files, restart reloads the table: the UID table is unchanged *)
PackOrRestart == UNCHANGED <<uids, next, ever, told>>

Next ==
    \/ \E n \in 1..3 : Add(n)
    \/ \E i \in DOMAIN uids : Remove(i)
    \/ Tell
    \/ PackOrRestart

(* ------------------------------------------------------------------------ *)
Ascending == \A i, j \in DOMAIN uids : i < j => uids[i] < uids[j]
IndInv ==
    /\ next >= 1
    /\ Ascending
    /\ \A u \in Range(uids) : u >= 1 /\ u < next
    /\ Range(uids) \subseteq ever
    /\ \A u \in ever : u >= 1 /\ u < next
    /\ told <= next

(* what C02 asks, consequences of IndInv and of one step *)
NextAboveAll == \A u \in ever : u < next
NeverReused == [][\A u \in Range(uids') \ Range(uids) : u \notin ever]_<<uids, next, ever, told>>
NextNeverDecreases == [][next' >= next]_<<uids, next, ever, told>>

(* the same two as action invariants (checked from an arbitrary IndInv state) *)
NeverReusedAct == \A u \in Range(uids') : u \in Range(uids) \/ u \notin ever
NextNeverDecreasesAct == next' >= next

(* arbitrary state satisfying the type constraints, for the inductive step *)
IndInit ==
    /\ uids = Gen(5)
    /\ next = Gen(1)
    /\ ever = Gen(8)
    /\ told = Gen(1)
    /\ IndInv
=============================================================================
