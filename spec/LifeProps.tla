----------------------------- MODULE LifeProps -----------------------------
(* Property layer of C06 (see Lifecycle.tla): the oracle on one recorded command. *)
EXTENDS Naturals, Sequences, FiniteSets, TLC

---------------------------------------------------------------------------
(* The C06 oracle on one recorded command.  rec:                            *)
(*   kind      command class name                                           *)
(*   ntag      number of tagged lines carrying the command's tag            *)
(*   status    "OK" | "NO" | "BAD" | "NONE" | "CONT" (IDLE accepted)        *)
(*   others    number of tagged lines with any other tag seen meanwhile      *)
(*   taglast   the tagged line came after all data sent for the command     *)
(*   bye       an untagged BYE was sent                                     *)
(*   closed    the connection was closed by the server afterwards           *)
(*   usable    a following NOOP was answered with a tagged OK               *)
(*   vt        virtual seconds until the tagged line (rounded up)           *)
(*   watchdog  the tagged line is the command watchdog's                    *)
(*   garbled   bytes that are no complete response were sent                *)
Bound == 60
LifeBad(r) ==
      (IF r.kind = "IDLE" /\ r.status = "CONT"
       THEN (IF r.ntag # 0 THEN {"C06.IdleTaggedOnlyAfterDone"} ELSE {})
       ELSE IF r.kind \in {"NOTAG", "EMPTY"}      \* a line without a usable tag: any reply will do
       THEN {}
       ELSE IF r.bye /\ r.ntag = 0 THEN {}                 \* told BYE instead: allowed
       ELSE (IF r.ntag = 0 THEN {"C06.Answered"} ELSE {})
            \cup (IF r.ntag > 1 THEN {"C06.ExactlyOneTagged"} ELSE {})
            \cup (IF r.ntag >= 1 /\ r.status \notin {"OK", "NO", "BAD"} THEN {"C06.TaggedStatus"} ELSE {}))
    \cup (IF r.others # 0 /\ r.kind \notin {"NOTAG", "EMPTY"} THEN {"C06.ForeignTag"} ELSE {})
    \cup (IF r.ntag >= 1 /\ ~r.taglast THEN {"C06.TaggedAfterData"} ELSE {})
    \cup (IF r.watchdog THEN {"C06.AnsweredWithoutWatchdog"} ELSE {})
    \cup (IF r.vt > Bound THEN {"C06.Prompt"} ELSE {})
    \cup (IF ~r.bye /\ r.kind # "LOGOUT" /\ (r.closed \/ ~r.usable) THEN {"C06.UsableUnlessBye"} ELSE {})
    \cup (IF r.garbled THEN {"C06.Garbled"} ELSE {})

(* sanity of the oracle itself (checked by TLC as ASSUME-like invariants) *)
Good == [kind |-> "FETCH", ntag |-> 1, status |-> "BAD", others |-> 0, taglast |-> TRUE, bye |-> FALSE,
         closed |-> FALSE, usable |-> TRUE, vt |-> 0, watchdog |-> FALSE, garbled |-> FALSE]
OracleSane ==
    /\ LifeBad(Good) = {}
    /\ LifeBad([Good EXCEPT !.ntag = 0, !.status = "NONE"]) = {"C06.Answered"}
    /\ LifeBad([Good EXCEPT !.ntag = 2]) = {"C06.ExactlyOneTagged"}
    /\ LifeBad([Good EXCEPT !.watchdog = TRUE, !.vt = 120]) = {"C06.AnsweredWithoutWatchdog", "C06.Prompt"}
    /\ LifeBad([Good EXCEPT !.closed = TRUE]) = {"C06.UsableUnlessBye"}
    /\ LifeBad([Good EXCEPT !.closed = TRUE, !.bye = TRUE, !.ntag = 0, !.status = "NONE"]) = {}
    /\ LifeBad([Good EXCEPT !.kind = "IDLE", !.status = "CONT", !.ntag = 0]) = {}
=============================================================================
