-------------------------- MODULE TraceSchedSteps --------------------------
(***************************************************************************)
(* Step-level trace validation of the admission protocol: every recorded   *)
(* linearization point of the real management task / command tasks         *)
(* (harness/schedsteps.py) must be a step that Sched.tla allows from the   *)
(* state the previous steps led to.  Unlike TraceSched (single decisions   *)
(* compared with the conflict rule, executing list taken from the code),   *)
(* the set of running passages is here the MODEL's: a passage dropped from *)
(* executing_tasks too early, a queue served out of order, a command woken *)
(* without being admitted or released, an admission next to a passage the  *)
(* rule excludes all make the next recorded step impossible.               *)
(*                                                                         *)
(* Input (env TRACE_FILE): [cmds |-> [pid |-> [m, k, peek, nums, bad]],    *)
(*                          ev |-> <<[e, p, m, how, out, hasdel, nxt]>>]   *)
(* A passage is a Sched command with one phase and a session of its own    *)
(* (the per-session order of commands is the client's business).           *)
(* Several executions are batched: a "Reset" event starts the next one     *)
(* from Init.  A step the model does not allow prints <<"DRIFT", l, tid>>   *)
(* and validation continues with the next execution (field nxt).           *)
(* Verdict level: MODEL-DRIFT (C10 is stated about outcomes; those are     *)
(* judged by LinStore).                                                    *)
(***************************************************************************)
EXTENDS Naturals, Sequences, FiniteSets, TLC, Json, IOUtils

T == JsonDeserialize(IOEnv.TRACE_FILE)
Ev == T.ev
SeqToSet(s) == {s[j] : j \in DOMAIN s}
TraceCmds == [p \in DOMAIN T.cmds |->
                 [sess |-> p, phases |-> <<[mb |-> T.cmds[p].m, k |-> T.cmds[p].k]>>,
                  bad |-> T.cmds[p].bad, peek |-> T.cmds[p].peek, set |-> SeqToSet(T.cmds[p].nums)]]
TraceMbox == {T.cmds[p].m : p \in DOMAIN T.cmds}

VARIABLES pc, ph, ready, exc, completed, queue, held, mpc, executing, deleted, result, replies, l

S == INSTANCE Sched WITH Mbox <- TraceMbox, Cmds <- TraceCmds, HasDeleted <- [m \in TraceMbox |-> FALSE]

svars == <<pc, ph, ready, exc, completed, queue, held, mpc, executing, deleted, result, replies>>
tvars == <<pc, ph, ready, exc, completed, queue, held, mpc, executing, deleted, result, replies, l>>

E == Ev[l]
Is(e) == l <= Len(Ev) /\ E.e = e
Mb(p) == T.cmds[p].m

TEnq == Is("Enq") /\ S!Enqueue(E.p) /\ pc'[E.p] = "wait"
TGet == Is("Get") /\ S!Get(Mb(E.p)) /\ held'[Mb(E.p)] = E.p
TRes == Is("Res") /\ held[Mb(E.p)] = E.p /\ S!Resolve(Mb(E.p)) /\ mpc'[Mb(E.p)] = "wait"
TReadyAdmit == Is("Ready") /\ E.how = "admit" /\ held[Mb(E.p)] = E.p /\ S!AdmitWith(Mb(E.p), E.hasdel)
TReadyExc == Is("Ready") /\ E.how = "exc" /\ held[Mb(E.p)] = E.p /\ (S!Resolve(Mb(E.p)) \/ S!ReResolveFailWith(Mb(E.p), E.hasdel)) /\ exc'[E.p]
(* shutdown released it already (the model releases queue and held command in one step) *)
TReadyRelease == Is("Ready") /\ E.how = "release" /\ ready[E.p] /\ deleted[Mb(E.p)] /\ UNCHANGED svars
RunningDelete(m) == \E c \in DOMAIN TraceCmds : Mb(c) = m /\ pc[c] = "run" /\ T.cmds[c].k = "DELETE" /\ ~completed[c]
TShutdown == /\ Is("Shutdown") /\ E.m \in TraceMbox
             /\ IF RunningDelete(E.m) THEN \E c \in DOMAIN TraceCmds : Mb(c) = E.m /\ S!ShutdownBy(c)
                ELSE S!StopMailbox(E.m)
Matches(p, out) == \/ out = "run" /\ pc'[p] = "run"
                   \/ out = "exc" /\ result'[p] = "BAD"
                   \/ out = "gone" /\ result'[p] = "NO"
TWake == /\ Is("Wake")
         /\ IF pc[E.p] = "wait" THEN S!Wake(E.p) /\ Matches(E.p, E.out)
            ELSE pc[E.p] = "replied" /\ UNCHANGED svars /\ Matches(E.p, E.out)   \* Done was logged first
TDone == /\ Is("Done")
         /\ CASE pc[E.p] = "run" -> S!Finish(E.p)
              [] pc[E.p] = "wait" -> S!Wake(E.p) /\ pc'[E.p] = "replied"      \* refused: completed in `finally`
              [] OTHER -> completed[E.p] /\ UNCHANGED svars
ResetVars ==
    /\ pc' = [c \in DOMAIN TraceCmds |-> "new"]
    /\ ph' = [c \in DOMAIN TraceCmds |-> 1]
    /\ ready' = [c \in DOMAIN TraceCmds |-> FALSE]
    /\ exc' = [c \in DOMAIN TraceCmds |-> FALSE]
    /\ completed' = [c \in DOMAIN TraceCmds |-> FALSE]
    /\ queue' = [m \in TraceMbox |-> <<>>]
    /\ held' = [m \in TraceMbox |-> S!NoCmd]
    /\ mpc' = [m \in TraceMbox |-> "get"]
    /\ executing' = [m \in TraceMbox |-> {}]
    /\ deleted' = [m \in TraceMbox |-> FALSE]
    /\ result' = [c \in DOMAIN TraceCmds |-> ""]
    /\ replies' = [c \in DOMAIN TraceCmds |-> 0]
TReset == Is("Reset") /\ ResetVars

Proper == TEnq \/ TGet \/ TRes \/ TReadyAdmit \/ TReadyExc \/ TReadyRelease \/ TShutdown \/ TWake \/ TDone \/ TReset
Step == Proper /\ l' = l + 1 /\ ((l = Len(Ev)) => PrintT(<<"DONE", l>>))
Drift ==
    /\ l <= Len(Ev) /\ ~ENABLED Proper
    /\ PrintT(<<"DRIFT", l, E.tid>>)
    /\ ResetVars /\ l' = E.nxt
    /\ ((E.nxt > Len(Ev)) => PrintT(<<"DONE", l>>))

Init == S!Init /\ l = 1
Next == Step \/ Drift
Spec == Init /\ [][Next]_tvars
=============================================================================
