----------------------------- MODULE SchedRules -----------------------------
(***************************************************************************)
(* The rules that decide which commands may run on a mailbox at the same   *)
(* time, over plain records  [k: kind, peek: BOOLEAN, set: set of message  *)
(* numbers]  so that the admission model (Sched.tla) and the validation of *)
(* recorded admissions (TraceSched.tla) share one definition.              *)
(*                                                                         *)
(*  ConflictsRec   mbox.would_conflict, transcribed: what the management   *)
(*                 task is designed to decide (conformance: MODEL-DRIFT    *)
(*                 when a recorded admission disagrees with it)            *)
(*  MustExclude    the part of it that the properties need: commands that  *)
(*                 can not be interleaved without breaking C01/C04/C05     *)
(*                 (safety: a recorded admission that breaks it is a       *)
(*                 violation of C10)                                       *)
(***************************************************************************)
EXTENDS Naturals, FiniteSets

Blocking == {"APPEND", "CHECK", "CLOSE", "DELETE", "EXPUNGE", "MOVE", "RENAME"}   \* CONFLICTING_COMMANDS
OverlapRec(c, d) == c.set \cap d.set # {}

ConflictsRec(c, live, hasdel) ==
    LET k == c.k IN
    IF live = {} THEN FALSE
    ELSE IF \E d \in live : d.k \in Blocking THEN TRUE
    ELSE IF k \in {"APPEND", "CHECK", "DELETE", "MOVE", "RENAME"} THEN TRUE
    ELSE IF k \in {"CLOSE", "EXPUNGE"} THEN hasdel
    ELSE IF k = "COPY" THEN
        \E d \in live : \/ (d.k = "STORE" /\ OverlapRec(c, d))
                        \/ (d.k = "FETCH" /\ ~d.peek /\ OverlapRec(c, d))
    ELSE IF k = "FETCH" THEN
        IF ~c.peek
        THEN \E d \in live : \/ d.k = "SEARCH"
                             \/ (d.k \in {"COPY", "FETCH", "STORE"} /\ OverlapRec(c, d))
        ELSE \E d \in live : d.k = "STORE" /\ OverlapRec(c, d)
    ELSE IF k \in {"NOOP", "SELECT", "STATUS", "EXAMINE"} THEN FALSE
    ELSE IF k = "SEARCH" THEN
        \E d \in live : (d.k = "FETCH" /\ ~d.peek) \/ d.k = "STORE"
    ELSE IF k = "STORE" THEN
        \E d \in live : \/ d.k = "SEARCH"
                        \/ (d.k \in {"STORE", "FETCH", "COPY"} /\ OverlapRec(c, d))
    ELSE TRUE

(* --- what the properties need ------------------------------------------ *)
(* commands whose meaning depends on sequence numbers or message content    *)
UsesMessages == {"FETCH", "STORE", "SEARCH", "COPY", "MOVE", "EXPUNGE", "CLOSE"}
(* removes messages (renumbers the mailbox) when it runs                     *)
Removes(c, hasdel) == c.k = "MOVE" \/ (c.k \in {"EXPUNGE", "CLOSE"} /\ hasdel)
(* replaces the folder as a whole                                            *)
Structural(c) == c.k \in {"DELETE", "RENAME"}
(* changes flags of the messages of its set                                  *)
WritesFlags(c) == c.k = "STORE" \/ (c.k = "FETCH" /\ ~c.peek)
ReadsFlagsOrContent(c) == c.k \in {"FETCH", "STORE", "COPY"}

Excl1(c, d, hasdel) ==
    \/ Structural(c)
    \/ (Removes(c, hasdel) /\ d.k \in UsesMessages)
    \/ (WritesFlags(c) /\ d.k = "SEARCH")
    \/ (WritesFlags(c) /\ ReadsFlagsOrContent(d) /\ OverlapRec(c, d))
MustExclude(c, d, hasdel) == Excl1(c, d, hasdel) \/ Excl1(d, c, hasdel)

(* the designed rule is at least as strict as what is needed (checked by TLC
   over a finite universe of records, see TraceSched.tla ASSUME) *)
RuleCoversNeed(U, hasdel) ==
    \A c \in U : \A live \in SUBSET U :
        (\E d \in live : MustExclude(c, d, hasdel)) => ConflictsRec(c, live, hasdel)
=============================================================================
