----------------------------- MODULE CmdGrammar -----------------------------
(***************************************************************************)
(* C08: the language of IMAP client commands as a GENERATIVE grammar, run   *)
(* as a state machine.  A state is a partial left-most derivation           *)
(*                                                                         *)
(*     text     the octets produced so far (the command line WITHOUT its     *)
(*              final CRLF: that is what asimap's front-end hands to the     *)
(*              parser; literals are in-line as {n}CRLF<n octets>)          *)
(*     stack    the sentential form still to be produced (top = head)       *)
(*     ast      flat pre-order encoding of what the text DENOTES by RFC     *)
(*              3501 (+ 2971 ID, 4315 UIDPLUS, 5258/5819 LIST-EXTENDED/     *)
(*              -STATUS, 6851 MOVE, 7888 LITERAL+): a sequence of STRINGS   *)
(*     verdict  "OK": the text is a sentence and denotes ast                *)
(*              "BAD": the text is certainly NOT a sentence                 *)
(*                                                                         *)
(* Each step expands the top non-terminal (choosing an alternative), emits  *)
(* the top terminal, or emits a string-valued terminal in one of its        *)
(* encodings (atom / quoted with escapes / literal / literal+).  Negative    *)
(* actions make texts whose invalidity is certain by construction:          *)
(*   StopEarly        the derivation is cut although something must follow  *)
(*   TrailingGarbage  a complete sentence followed by one more token        *)
(*   "B" terminals    a token that cannot stand where it stands (outside     *)
(*                    the FIRST set, 0 where nz-number is required, an       *)
(*                    impossible date, an empty list where 1* is required)  *)
(*   ShortLiteral     a literal announcing more octets than there are       *)
(*                                                                         *)
(* The grammar is written prefix-deterministic (the text produced so far     *)
(* determines the sentential form up to the not yet expanded top), which is  *)
(* what makes StopEarly sound: see `fresh` and Nullable.                    *)
(*                                                                         *)
(* Finished derivations are printed as <<"S", cat, verdict, text, ast>>;    *)
(* the harness feeds `text` to the real IMAPClientCommand.parse() and       *)
(* module CmdGrammarTrace judges what came back.                            *)
(***************************************************************************)
EXTENDS Naturals, Sequences, FiniteSets, TLC

CONSTANTS Wide,      \* BOOLEAN: the larger terminal alphabets
          KeyDepth,  \* nesting depth of composite search keys (1..4)
          NegKinds,  \* which negative sentences to make: subset of {"stop", "garbage", "bad", "short"}
          Start      \* "line": the whole language; "deep": only the deeply nested sentences
                     \* (for TLC -simulate: SEARCH keys nested KeyDepth deep, long FETCH lists)

VARIABLES text, stack, ast, verdict, cat, fresh, gclass, phase
vars == <<text, stack, ast, verdict, cat, fresh, gclass, phase>>

CRLF == "\r\n"

(* ------------------------------------------------------------------------ *)
(* symbols                                                                   *)
NoV == [v |-> "", atom |-> FALSE, q |-> "-"]
T(t, a)    == [k |-> "T", t |-> t, a |-> a, v |-> NoV, f |-> {}]          \* terminal
B(t, c)    == [k |-> "B", t |-> t, a |-> <<c>>, v |-> NoV, f |-> {}]      \* terminal that cannot stand here
N(n)       == [k |-> "N", t |-> n, a |-> <<>>, v |-> NoV, f |-> {}]       \* non-terminal
S(p, v, f) == [k |-> "S", t |-> p, a |-> <<>>, v |-> v, f |-> f]          \* string value, encodings f
G(c)       == [k |-> "G", t |-> c, a |-> <<>>, v |-> NoV, f |-> {}]       \* sets the garbage class

(* string values: v = the value (what is denoted), atom = may be written as an
   atom, q = its quoted form ("-" = has none: contains CR or LF) *)
V(v, atom, q) == [v |-> v, atom |-> atom, q |-> q]
Plain(v) == V(v, TRUE, "\"" \o v \o "\"")

AllForms == {"atom", "quoted", "lit", "lit+"}
StrForms == {"quoted", "lit", "lit+"}
FormsOf(v) == (IF v.atom THEN {"atom"} ELSE {}) \cup (IF v.q # "-" THEN {"quoted"} ELSE {}) \cup {"lit", "lit+"}
Enc(form, v) ==
    CASE form = "atom"   -> v.v
      [] form = "quoted" -> v.q
      [] form = "lit"    -> "{" \o ToString(Len(v.v)) \o "}" \o CRLF \o v.v
      [] form = "lit+"   -> "{" \o ToString(Len(v.v)) \o "+}" \o CRLF \o v.v
      [] form = "short"  -> "{" \o ToString(Len(v.v) + 3) \o "}" \o CRLF \o v.v

(* ------------------------------------------------------------------------ *)
(* terminal alphabets                                                        *)
Spacey  == V("Work Stuff", FALSE, "\"Work Stuff\"")
Escapes == V("q\"uo\\te", FALSE, "\"q\\\"uo\\\\te\"")     \* q"uo\te
TwoLine == V("x\r\ny", FALSE, "-")
Empty   == V("", FALSE, "\"\"")
BraceLike == V("{3}", FALSE, "\"{3}\"")
(* octets above 127: one character of `text` is one octet (latin-1); this value is
   the two octets C3 A9 after "caf" (UTF-8 for e-acute), 5 octets in all.  CHAR8
   may only travel in a literal. *)
EightBit == V("cafÃ©", FALSE, "-")

(* mailbox names; only the exact name INBOX (any case) is the inbox *)
MboxInbox == {Plain("INBOX"), Plain("inbox"), Plain("InBoX")}
MboxNear  == {Plain("inboxes"), Plain("INBOX/x"), Plain("xinbox"), Plain("inbox.old")}
MboxPlain == {Plain("a"), Plain("a/b"), Spacey, Escapes, EightBit} \cup (IF Wide THEN {TwoLine, BraceLike, Plain("Sent]")} ELSE {})
MboxAll   == MboxInbox \cup MboxNear \cup MboxPlain
MboxAlts  == {<<S("m:", v, AllForms)>> : v \in MboxAll}
(* a small choice for the commands where the mailbox is not the point *)
MboxSmall == {<<S("m:", Plain("a/b"), {"atom"})>>, <<S("m:", Spacey, {"quoted"})>>, <<S("m:", EightBit, {"lit"})>>,
              <<S("m:", Plain("INBOX"), {"atom"})>>, <<S("m:", Plain("inboxes"), {"atom"})>>,
              <<S("m:", Escapes, {"lit+"})>>}

Mbox1 == {<<S("m:", Plain("a/b"), {"atom"})>>}

(* sequence sets: text |-> elements *)
SetOK == {<<"1", <<"1">>>>, <<"*", <<"*">>>>, <<"2:4", <<"2:4">>>>, <<"4:2", <<"4:2">>>>,
          <<"1,3:*", <<"1", "3:*">>>>}
         \cup (IF Wide THEN {<<"*:2", <<"*:2">>>>, <<"7,7,9:9", <<"7", "7", "9:9">>>>, <<"4294967295", <<"4294967295">>>>}
               ELSE {})
SetBad == {<<"0", "zero">>, <<"1,0:2", "zero">>, <<"x", "badtok">>, <<"1,,2", "badtok">>, <<"2:", "badtok">>}
SetAlts == {<<T(s[1], <<"set(">> \o [j \in 1..Len(s[2]) |-> "i:" \o s[2][j]] \o <<")">>)>> : s \in SetOK} \cup {<<B(s[1], s[2])>> : s \in SetBad}
SetSmall == {<<T("2:4", <<"set(", "i:2:4", ")">>)>>, <<T("*", <<"set(", "i:*", ")">>)>>, <<B("0", "zero")>>}
Set1 == {<<T("2:4", <<"set(", "i:2:4", ")">>)>>}

(* dates: text |-> ISO *)
DateOK == {<<"1-Feb-2020", "2020-02-01">>, <<"\"29-Feb-2020\"", "2020-02-29">>}
          \cup (IF Wide THEN {<<"01-Feb-2020", "2020-02-01">>, <<"31-dec-1999", "1999-12-31">>,
                              <<"\"1-FEB-2020\"", "2020-02-01">>} ELSE {})
DateBad == {<<"31-Feb-2020", "date">>, <<"1-Foo-2020", "date">>}
           \cup (IF Wide THEN {<<"29-Feb-2021", "date">>, <<"0-Jan-2020", "date">>, <<"1-Feb-20", "date">>,
                               <<"\"1-Feb-2020", "date">>} ELSE {})
DateAlts == {<<T(d[1], <<"d:" \o d[2]>>)>> : d \in DateOK} \cup {<<B(d[1], d[2])>> : d \in DateBad}
DateSmall == {<<T("1-Feb-2020", <<"d:2020-02-01">>)>>}

(* flags *)
FlagOK == {"\\Seen", "\\Deleted", "$Fwd"} \cup (IF Wide THEN {"\\Flagged", "custom", "\\Ext"} ELSE {})
FlagAlts == {<<T(f, <<"f:" \o f>>)>> : f \in FlagOK} \cup {<<B("(", "badtok")>>, <<B("\\", "badtok")>>}
FlagSmall == {<<T("\\Deleted", <<"f:\\Deleted">>)>>, <<T("$Fwd", <<"f:$Fwd">>)>>}

(* strings searched for (case-insensitive), header field names (case-insensitive) *)
StrAll == {Plain("foo"), V("Hello World", FALSE, "\"Hello World\""), Escapes}
          \cup (IF Wide THEN {TwoLine, Empty, BraceLike, EightBit} ELSE {})
HdrNames == {Plain("Subject"), Plain("x-y")}

StatusAtt == {<<"MESSAGES", "messages">>, <<"UNSEEN", "unseen">>, <<"uidnext", "uidnext">>}
             \cup (IF Wide THEN {<<"RECENT", "recent">>, <<"UidValidity", "uidvalidity">>} ELSE {})
StatAlts == {<<T(s[1], <<s[2]>>)>> : s \in StatusAtt} \cup {<<B("x", "badtok")>>}
StatSmall == {<<T("UNSEEN", <<"unseen">>)>>, <<T("messages", <<"messages">>)>>}

(* ------------------------------------------------------------------------ *)
(* productions                                                               *)
Hdr(name, uid) == <<"cmd", name, IF uid THEN "uid" ELSE "nouid">>
Both(C, name) == {T(C \o " ", Hdr(name, FALSE)), T("UID " \o C \o " ", Hdr(name, TRUE))}

NoArg == {<<"NOOP", "noop">>, <<"CAPABILITY", "capability">>, <<"NAMESPACE", "namespace">>,
          <<"IDLE", "idle">>, <<"LOGOUT", "logout">>, <<"CHECK", "check">>, <<"CLOSE", "close">>,
          <<"UNSELECT", "unselect">>, <<"EXPUNGE", "expunge">>, <<"nOoP", "noop">>}
OneMbox == {<<"SELECT", "select">>, <<"EXAMINE", "examine">>, <<"CREATE", "create">>,
            <<"DELETE", "delete">>, <<"SUBSCRIBE", "subscribe">>, <<"UNSUBSCRIBE", "unsubscribe">>,
            <<"select", "select">>}

LineAlts == {<<T("a1 ", <<"tag:a1">>), N("cmd")>>}
            \cup (IF Wide THEN {<<T("A.b-2 ", <<"tag:A.b-2">>), N("simple")>>,
                                <<B("+x NOOP", "badtok")>>,      \* "+" cannot be in a tag
                                <<B("NOOP", "badtok")>>,         \* a tag and nothing else
                                <<B(" a1 NOOP", "badtok")>>,
                                <<B("a1  NOOP", "badtok")>>,     \* two spaces
                                <<B("(a1) NOOP", "badtok")>>} ELSE {})
SimpleAlts == {<<T(c[1], Hdr(c[2], FALSE))>> : c \in NoArg}
              \cup {<<B("UID NOOP", "badtok")>>, <<B("FROB", "badtok")>>, <<B("UID", "badtok")>>,
                    <<B("UID SELECT a", "badtok")>>}
CmdAlts ==
    {<<N("simple")>>}
    \cup {<<T(c[1] \o " ", Hdr(c[2], FALSE)), N("mailbox")>> : c \in OneMbox}
    \cup {<<T("RENAME ", Hdr("rename", FALSE)), N("mailbox"), T(" ", <<>>), N("mbox_1")>>,
          <<T("RENAME ", Hdr("rename", FALSE)), N("mbox_1"), T(" ", <<>>), N("mailbox")>>}
    \cup {<<T("LOGIN ", Hdr("login", FALSE)), N("user"), T(" ", <<>>), N("pass")>>}
    \cup {<<T("AUTHENTICATE PLAIN", Hdr("authenticate", FALSE) \o <<"mech:PLAIN">>), G("close")>>}
    \cup {<<T("UID EXPUNGE ", Hdr("expunge", TRUE)), N("set")>>}
    \cup {<<T("STATUS ", Hdr("status", FALSE)), N("mbox_s"), T(" (", <<"status(">>), N("statatt"), N("statmore")>>,
          <<T("STATUS ", Hdr("status", FALSE)), N("mbox_s"), T(" ", <<>>), B("()", "empty")>>}
    \cup {<<h, N("set_s"), T(" ", <<>>), N("mbox_s")>> : h \in Both("COPY", "copy") \cup Both("MOVE", "move")}
    \cup {<<h, N("set"), T(" ", <<>>), N("fetchatts_s")>> : h \in Both("FETCH", "fetch")}
    \cup {<<h, N("set_1"), T(" ", <<>>), N("fetchatts")>> : h \in Both("FETCH", "fetch")}
    \cup {<<h, N("set_s"), T(" ", <<>>), N("storeop"), T(" ", <<>>), N("flagsarg")>> : h \in Both("STORE", "store")}
    \cup {<<T("SEARCH ", Hdr("search", FALSE) \o <<"charset", "c:us-ascii", "and(">>), N("keytop"), N("morekeys")>>,
          <<T("UID SEARCH ", Hdr("search", TRUE) \o <<"charset", "c:us-ascii", "and(">>), N("key0"), N("morekeys")>>,
          <<T("SEARCH CHARSET UTF-8 ", Hdr("search", FALSE) \o <<"charset", "c:UTF-8", "and(">>), N("key0"), N("morekeys")>>,
          <<T("SEARCH CHARSET ", Hdr("search", FALSE)), B(")", "badtok")>>}
    \cup {<<T("LIST ", Hdr("list", FALSE)), N("selopt"), N("ref_s"), T(" ", <<>>), N("pat1"), N("optreturn_s")>>,
          <<T("LIST ", Hdr("list", FALSE) \o <<"sel(", ")">>), N("ref"), T(" ", <<>>), N("pat1"), N("optreturn_s")>>,
          <<T("LIST ", Hdr("list", FALSE) \o <<"sel(", ")">>), N("ref_s"), T(" ", <<>>), N("pats"), N("optreturn_s")>>,
          <<T("LIST ", Hdr("list", FALSE) \o <<"sel(", ")">>), N("ref_s"), T(" ", <<>>), N("pat1"), N("optreturn")>>,
          <<T("LSUB ", Hdr("lsub", FALSE) \o <<"sel(", ")">>), N("ref"), T(" ", <<>>), N("pat1"), T("", <<"ret(", ")", "retstatus(", ")">>)>>}
    \cup {<<T("ID NIL", Hdr("id", FALSE) \o <<"id(", ")">>)>>, <<T("ID ()", Hdr("id", FALSE) \o <<"id(", ")">>)>>,
          <<T("ID (", Hdr("id", FALSE) \o <<"id(">>), N("idpair"), N("idmore")>>,
          <<T("ID ", Hdr("id", FALSE)), B("x", "badtok")>>}
    \cup {<<T("APPEND ", Hdr("append", FALSE)), N("mbox_s"), T(" ", <<"flags(", ")", "nodate">>), N("msglit_s")>>,
          <<T("APPEND ", Hdr("append", FALSE)), N("mbox_1"), T(" ", <<>>), N("optflags"), N("optdate_s"), N("msglit_s")>>,
          <<T("APPEND ", Hdr("append", FALSE)), N("mbox_1"), T(" ", <<>>), N("optflags_s"), N("optdate"), N("msglit_s")>>,
          <<T("APPEND ", Hdr("append", FALSE)), N("mbox_1"), T(" ", <<"flags(", ")", "nodate">>), N("msglit")>>}

(* larger products of the same productions, for the thorough universe only *)
Big == Wide /\ KeyDepth >= 2
BigAlts == IF ~Big THEN {} ELSE
    {<<h, N("set"), T(" ", <<>>), N("fetchatts")>> : h \in Both("FETCH", "fetch")}
    \cup {<<T("LIST ", Hdr("list", FALSE)), N("selopt"), N("ref_s"), T(" ", <<>>), N("pats"), N("optreturn")>>,
          <<T("APPEND ", Hdr("append", FALSE)), N("mbox_s"), T(" ", <<>>), N("optflags"), N("optdate"), N("msglit")>>}
    \cup {<<h, N("set"), T(" ", <<>>), N("storeop"), T(" ", <<>>), N("flagsarg")>> : h \in Both("STORE", "store")}

UserAlts == {<<S("a:", v, AllForms)>> : v \in {Plain("alice"), V("al ice", FALSE, "\"al ice\"")}}
PassAlts == {<<S("a:", v, AllForms)>> : v \in {Plain("pw"), Escapes, Empty} \cup (IF Wide THEN {TwoLine, BraceLike} ELSE {})}

StatMoreAlts == {<<T(")", <<")">>)>>, <<T(" ", <<>>), N("statatt_s"), T(")", <<")">>)>>}

(* FETCH *)
Att(n) == <<"att", n>>
MacroAll  == Att("FLAGS") \o Att("INTERNALDATE") \o Att("RFC822.SIZE") \o Att("ENVELOPE")
MacroFast == Att("FLAGS") \o Att("INTERNALDATE") \o Att("RFC822.SIZE")
MacroFull == MacroAll \o <<"att", "BODY", "noext">>
AttPlain == {<<T("FLAGS", Att("FLAGS"))>>, <<T("ENVELOPE", Att("ENVELOPE"))>>, <<T("INTERNALDATE", Att("INTERNALDATE"))>>,
             <<T("UID", Att("UID"))>>, <<T("RFC822.SIZE", Att("RFC822.SIZE"))>>, <<T("rfc822.size", Att("RFC822.SIZE"))>>,
             <<T("BODYSTRUCTURE", <<"att", "BODYSTRUCTURE", "ext">>)>>,
             <<T("BODY", <<"att", "BODY", "noext">>)>>,
             <<T("RFC822", <<"att", "RFC822", "body(", "nopeek", ")", "nopartial">>)>>,
             <<T("RFC822.HEADER", <<"att", "RFC822.HEADER", "body(", "peek", "HEADER", ")", "nopartial">>)>>,
             <<T("RFC822.TEXT", <<"att", "RFC822.TEXT", "body(", "nopeek", "TEXT", ")", "nopartial">>)>>,
             <<B("1", "badtok")>>, <<B("BODYx", "badtok")>>, <<B("RFC822.PEEK", "badtok")>>}
AttBody == {<<T("BODY[", <<"att", "BODY", "body(", "nopeek">>), N("section"), N("partial_s")>>,
            <<T("BODY.PEEK[", <<"att", "BODY", "body(", "peek">>), N("section_s"), N("partial")>>,
            <<T("body.peek[", <<"att", "BODY", "body(", "peek">>), N("section_s"), N("partial_s")>>}
AttAlts == AttPlain \cup AttBody
AttSmall == {<<T("UID", Att("UID"))>>, <<T("BODY", <<"att", "BODY", "noext">>)>>,
             <<T("BODY[1.TEXT]<5.1>", <<"att", "BODY", "body(", "nopeek", "p:1", "TEXT", ")", "partial", "n:5", "n:1">>)>>}
FetchAttsSmall == {<<T("FLAGS", <<"atts(">> \o Att("FLAGS") \o <<")">>)>>,
                   <<T("(UID BODY.PEEK[])", <<"atts(">> \o Att("UID") \o <<"att", "BODY", "body(", "peek", ")", "nopartial", ")">>)>>}
FetchAttsAlts ==
    {<<T("ALL", <<"atts(">> \o MacroAll \o <<")">>)>>, <<T("FAST", <<"atts(">> \o MacroFast \o <<")">>)>>,
     <<T("full", <<"atts(">> \o MacroFull \o <<")">>)>>,
     <<T("", <<"atts(">>), N("att"), T("", <<")">>)>>,
     <<T("(", <<"atts(">>), N("att"), N("attmore")>>,
     <<B("()", "empty")>>}
AttMoreAlts == {<<T(")", <<")">>)>>, <<T(" ", <<>>), N("att_s"), T(")", <<")">>)>>}

SectionSimple == {<<"]", <<>>>>, <<"HEADER]", <<"HEADER">>>>, <<"TEXT]", <<"TEXT">>>>, <<"1]", <<"p:1">>>>,
                  <<"1.2]", <<"p:1", "p:2">>>>, <<"1.MIME]", <<"p:1", "MIME">>>>, <<"2.header]", <<"p:2", "HEADER">>>>,
                  <<"1.2.TEXT]", <<"p:1", "p:2", "TEXT">>>>}
SectionBad == {<<"MIME]", "badtok">>, <<"1.]", "badtok">>, <<"0]", "zero">>, <<"HEADER.FIELDS ()]", "empty">>,
               <<"FOO]", "badtok">>, <<"1.2", "badtok">>}
SectionAlts ==
    {<<T(s[1], s[2] \o <<")">>)>> : s \in SectionSimple} \cup {<<B(s[1], s[2])>> : s \in SectionBad}
    \cup {<<T("HEADER.FIELDS (", <<"HEADER.FIELDS(">>), N("hdr"), N("hdrmore")>>,
          <<T("HEADER.FIELDS.NOT (", <<"HEADER.FIELDS.NOT(">>), N("hdr_s"), N("hdrmore")>>,
          <<T("1.HEADER.FIELDS (", <<"p:1", "HEADER.FIELDS(">>), N("hdr_s"), T(")]", <<")", ")">>)>>}
SectionSmall == {<<T("]", <<")">>)>>, <<T("1.TEXT]", <<"p:1", "TEXT", ")">>)>>,
                 <<T("HEADER.FIELDS (", <<"HEADER.FIELDS(">>), N("hdr_s"), T(")]", <<")", ")">>)>>}
HdrAlts == {<<S("h:", v, AllForms)>> : v \in HdrNames}
HdrSmall == {<<S("h:", Plain("Subject"), {"atom"})>>, <<S("h:", Plain("x-y"), {"quoted"})>>}
HdrMoreAlts == {<<T(")]", <<")", ")">>)>>, <<T(" ", <<>>), N("hdr_s"), T(")]", <<")", ")">>)>>}
PartialAlts == {<<T("", <<"nopartial">>)>>, <<T("<0.10>", <<"partial", "n:0", "n:10">>)>>,
                <<T("<5.1>", <<"partial", "n:5", "n:1">>)>>, <<B("<0.0>", "zero")>>, <<B("<1>", "badtok")>>,
                <<B("<.5>", "badtok")>>}
PartialSmall == {<<T("", <<"nopartial">>)>>, <<T("<0.10>", <<"partial", "n:0", "n:10">>)>>}

(* STORE *)
StoreOps == {<<"FLAGS", "=", "loud">>, <<"+FLAGS", "+", "loud">>, <<"-FLAGS", "-", "loud">>,
             <<"FLAGS.SILENT", "=", "silent">>, <<"+FLAGS.SILENT", "+", "silent">>, <<"-flags.silent", "-", "silent">>}
StoreOpAlts == {<<T(o[1], <<"store", o[2], o[3]>>)>> : o \in StoreOps}
               \cup {<<B("FLAG", "badtok")>>, <<B("*FLAGS", "badtok")>>}
FlagsArgAlts == {<<T("()", <<"flags(", ")">>)>>,
                 <<T("(", <<"flags(">>), N("flag"), N("flagmore")>>,
                 <<T("", <<"flags(">>), N("flag"), N("baremore"), T("", <<")">>), G("close")>>}
(* RFC 3501: store-att-flags = ... (flag-list / (flag *(SP flag))) *)
BareMoreAlts == {<<>>, <<T(" ", <<>>), N("flag_s")>>}
FlagMoreAlts == {<<T(")", <<")">>)>>, <<T(" ", <<>>), N("flag_s"), T(")", <<")">>)>>}

(* SEARCH *)
Kw(k)  == <<"kw", "f:" \o k>>
NotKw(k) == <<"not(">> \o Kw(k) \o <<")">>
KeyFlag == {<<"ALL", <<"all">>>>, <<"ANSWERED", Kw("\\Answered")>>, <<"DELETED", Kw("\\Deleted")>>,
            <<"DRAFT", Kw("\\Draft")>>, <<"FLAGGED", Kw("\\Flagged")>>, <<"RECENT", Kw("\\Recent")>>,
            <<"SEEN", Kw("\\Seen")>>, <<"UNANSWERED", NotKw("\\Answered")>>, <<"UNDELETED", NotKw("\\Deleted")>>,
            <<"UNDRAFT", NotKw("\\Draft")>>, <<"UNFLAGGED", NotKw("\\Flagged")>>, <<"UNSEEN", NotKw("\\Seen")>>,
            <<"unseen", NotKw("\\Seen")>>,
            <<"NEW", <<"and(">> \o Kw("\\Recent") \o NotKw("\\Seen") \o <<")">>>>,
            <<"OLD", NotKw("\\Recent")>>}
HdrKeys == {<<"BCC", "bcc">>, <<"CC", "cc">>, <<"FROM", "from">>, <<"SUBJECT", "subject">>, <<"TO", "to">>}
DateKeys == {<<"BEFORE", "before">>, <<"ON", "on">>, <<"SINCE", "since">>, <<"SENTBEFORE", "sentbefore">>,
             <<"SENTON", "senton">>, <<"SENTSINCE", "sentsince">>}
KeyFull ==
    {<<T(k[1], k[2])>> : k \in KeyFlag}
    \cup {<<T(k[1] \o " ", <<"hdr", "h:" \o k[2]>>), N("sstr_s")>> : k \in HdrKeys}
    \cup {<<T("FROM ", <<"hdr", "h:from">>), N("sstr")>>, <<T("BODY ", <<"body">>), N("sstr")>>,
          <<T("TEXT ", <<"text">>), N("sstr_s")>>, <<T("text ", <<"text">>), N("sstr_s")>>}
    \cup {<<T(k[1] \o " ", <<k[2]>>), N("date_s")>> : k \in DateKeys}
    \cup {<<T("SINCE ", <<"since">>), N("date")>>, <<T("SENTON ", <<"senton">>), N("date")>>}
    \cup {<<T("HEADER ", <<"hdr">>), N("hdr"), T(" ", <<>>), N("sstr_s")>>}
    \cup {<<T("KEYWORD ", <<"kw">>), N("flag_k")>>, <<T("UNKEYWORD ", <<"not(", "kw">>), N("flag_k"), T("", <<")">>)>>}
    \cup {<<T("LARGER 100", <<"larger", "n:100">>)>>, <<T("SMALLER 0", <<"smaller", "n:0">>)>>,
          <<T("LARGER ", <<"larger">>), B("x", "badtok")>>, <<T("smaller 4294967295", <<"smaller", "n:4294967295">>)>>}
    \cup {<<T("UID ", <<"uidset">>), N("set")>>, <<T("", <<"seqset">>), N("set")>>}
    \cup {<<B("%", "badtok")>>, <<B("FROB", "badtok")>>, <<B("\"ALL\"", "badtok")>>, <<B("()", "empty")>>}
Key0 == {<<T("ALL", <<"all">>)>>, <<T("UNSEEN", NotKw("\\Seen"))>>,
         <<T("FROM foo", <<"hdr", "h:from", "s:foo">>)>>,
         <<T("2:4", <<"seqset", "set(", "i:2:4", ")">>)>>, <<T("SINCE 1-Feb-2020", <<"since", "d:2020-02-01">>)>>}
         \cup (IF Wide THEN {<<T("UID *", <<"uidset", "set(", "i:*", ")">>)>>} ELSE {})
KeyN(d) == N("key" \o ToString(d))
CompN(d) == N("comp" \o ToString(d))
(* composite keys of depth exactly d (d >= 1), sub-keys of depth d-1 (one of them) and 0 *)
CompAlts(d) ==
    LET sub == IF d = 1 THEN N("key0") ELSE CompN(d - 1) IN
    {<<T("NOT ", <<"not(">>), sub, T("", <<")">>)>>,
     <<T("OR ", <<"or(">>), sub, T(" ", <<>>), N("key0"), T("", <<")">>)>>,
     <<T("(", <<>>), sub, T(")", <<>>)>>,
     <<T("(", <<"and(">>), sub, T(" ", <<>>), N("key0"), T(")", <<")">>)>>}
    \cup (IF d > 1 THEN {<<T("OR ", <<"or(">>), N("key0"), T(" ", <<>>), sub, T("", <<")">>)>>,
                          <<T("(", <<"and(">>), N("key0"), T(" ", <<>>), sub, T(")", <<")">>)>>}
          ELSE {<<T("not ", <<"not(">>), sub, T("", <<")">>)>>})
    \cup (IF d > 1 /\ Start = "deep"
          THEN {<<T("OR ", <<"or(">>), sub, T(" ", <<>>), sub, T("", <<")">>)>>,
                <<T("(", <<"and(">>), sub, T(" ", <<>>), sub, T(" ", <<>>), N("keytop"), T(")", <<")">>)>>}
          ELSE {})
KeyTop == KeyFull \cup {<<CompN(d)>> : d \in 1..KeyDepth}
(* the deeply nested part of the language only *)
DeepAlts == {<<T("a1 SEARCH ", <<"tag:a1">> \o Hdr("search", FALSE) \o <<"charset", "c:us-ascii", "and(">>),
               CompN(KeyDepth), N("morekeys")>>,
             <<T("a1 UID SEARCH ", <<"tag:a1">> \o Hdr("search", TRUE) \o <<"charset", "c:us-ascii", "and(">>),
               CompN(KeyDepth), T(" ", <<>>), CompN(KeyDepth), T("", <<")">>)>>,
             <<T("a1 FETCH 1,3:* (", <<"tag:a1">> \o Hdr("fetch", FALSE) \o <<"set(", "i:1", "i:3:*", ")", "atts(">>),
               N("att"), T(" ", <<>>), N("att"), T(" ", <<>>), N("att"), N("attmore")>>}
MoreKeysAlts == {<<T("", <<")">>)>>, <<T(" ", <<>>), N("key0"), T("", <<")">>)>>}
SStrAlts == {<<S("s:", v, AllForms)>> : v \in StrAll}
SStrSmall == {<<S("s:", Plain("foo"), {"atom"})>>, <<S("s:", V("Hello World", FALSE, "\"Hello World\""), {"quoted"})>>,
              <<S("s:", Escapes, {"quoted"})>>, <<S("s:", TwoLine, {"lit"})>>}
FlagKAlts == {<<T("$Fwd", <<"f:$Fwd">>)>>, <<T("custom", <<"f:custom">>)>>, <<B("(", "badtok")>>}

(* LIST *)
SelOpts == {<<"", <<>>>>, <<"() ", <<>>>>, <<"(SUBSCRIBED) ", <<"subscribed">>>>, <<"(REMOTE) ", <<"remote">>>>,
            <<"(REMOTE SUBSCRIBED) ", <<"remote", "subscribed">>>>, <<"(subscribed remote) ", <<"remote", "subscribed">>>>,
            <<"(SUBSCRIBED RECURSIVEMATCH) ", <<"recursivematch", "subscribed">>>>,
            <<"(SPECIAL-USE) ", <<"special-use">>>>}
SelOptAlts == {<<T(s[1], <<"sel(">> \o s[2] \o <<")">>)>> : s \in SelOpts}
              \cup {<<B("(RECURSIVEMATCH) ", "badtok")>>, <<B("(FROB) ", "badtok")>>, <<B("(SUBSCRIBED ", "badtok")>>}
RefAlts == {<<S("r:", v, AllForms)>> : v \in {Empty, Plain("a"), Plain("a/")}}
RefSmall == {<<S("r:", Empty, {"quoted"})>>}
PatVals == {Plain("*"), Plain("%"), Plain("a/%"), Plain("INBOX"), Plain("inbox*"), Spacey}
PatAlts == {<<T("", <<"pats(">>), S("p:", v, AllForms), T("", <<")">>)>> : v \in PatVals}
           \cup {<<T("(", <<"pats(">>), S("p:", Plain("a/%"), {"atom", "quoted"}), T(" ", <<>>),
                   S("p:", Plain("InBoX"), {"atom", "lit"}), T(")", <<")">>)>>,
                 <<T("(", <<"pats(">>), S("p:", Plain("%"), {"atom"}), T(")", <<")">>)>>,
                 <<B("()", "empty")>>}
Pat1Alts == {<<T("", <<"pats(">>), S("p:", Plain("*"), {"atom"}), T("", <<")">>)>>,
             <<T("", <<"pats(">>), S("p:", Plain("a/%"), {"quoted"}), T("", <<")">>)>>}
RetOpts == {<<" RETURN ()", <<>>, <<>>>>, <<" RETURN (CHILDREN)", <<"children">>, <<>>>>,
            <<" RETURN (SUBSCRIBED CHILDREN)", <<"children", "subscribed">>, <<>>>>,
            <<" return (special-use)", <<"special-use">>, <<>>>>,
            <<" RETURN (STATUS (MESSAGES UNSEEN))", <<"status">>, <<"messages", "unseen">>>>,
            <<" RETURN (CHILDREN STATUS (UIDNEXT))", <<"children", "status">>, <<"uidnext">>>>,
            <<" RETURN (STATUS (RECENT) SUBSCRIBED)", <<"status", "subscribed">>, <<"recent">>>>}
RetBad == {<<" RETURN (STATUS ())", "empty">>, <<" RETURN (FROB)", "badtok">>, <<" RETURN", "badtok">>,
           <<" RETURN (STATUS)", "badtok">>, <<" RETURN (CHILDREN", "badtok">>}
OptReturnAlts == {<<T("", <<"ret(", ")", "retstatus(", ")">>)>>}
                 \cup {<<T(r[1], <<"ret(">> \o r[2] \o <<")", "retstatus(">> \o r[3] \o <<")">>)>> : r \in RetOpts}
                 \cup {<<B(r[1], r[2])>> : r \in RetBad}
OptReturnSmall == {<<T("", <<"ret(", ")", "retstatus(", ")">>)>>,
                   <<T(" RETURN (CHILDREN)", <<"ret(", "children", ")", "retstatus(", ")">>)>>}

(* ID *)
IdVal == {V("verif", FALSE, "\"verif\""), Escapes, Empty}
IdPairAlts == {<<S("k:", k, StrForms), T(" ", <<>>), S("v:", v, StrForms)>> : k \in {V("name", FALSE, "\"name\"")}, v \in IdVal}
              \cup {<<S("k:", V("os x", FALSE, "\"os x\""), {"quoted"}), T(" NIL", <<"nil">>)>>,
                    <<S("k:", V("name", FALSE, "\"name\""), {"quoted"}), T(" nil", <<"nil">>)>>}
IdPairSmall == {<<S("k:", V("vendor", FALSE, "\"vendor\""), {"quoted"}), T(" ", <<>>), S("v:", V("v 1", FALSE, "\"v 1\""), {"quoted", "lit"})>>}
IdMoreAlts == {<<T(")", <<")">>)>>, <<T(" ", <<>>), N("idpair_s"), T(")", <<")">>)>>}

(* APPEND *)
OptFlagsAlts == {<<T("", <<"flags(", ")">>)>>, <<T("() ", <<"flags(", ")">>)>>,
                 <<T("(\\Seen) ", <<"flags(", "f:\\Seen", ")">>)>>,
                 <<T("(\\Seen $Fwd) ", <<"flags(", "f:\\Seen", "f:$Fwd", ")">>)>>,
                 <<B("(\\Seen ", "badtok")>>}
OptFlagsSmall == {<<T("", <<"flags(", ")">>)>>, <<T("(\\Seen) ", <<"flags(", "f:\\Seen", ")">>)>>}
OptDateAlts == {<<T("", <<"nodate">>)>>,
                <<T("\" 1-Feb-2020 12:34:56 +0200\" ", <<"dt:2020-02-01T10:34:56Z">>)>>,
                <<T("\"29-Feb-2020 00:00:01 -0500\" ", <<"dt:2020-02-29T05:00:01Z">>)>>,
                <<T("\"31-dec-1999 23:59:59 +0000\" ", <<"dt:1999-12-31T23:59:59Z">>)>>,
                <<B("\"31-Feb-2020 00:00:00 +0000\" ", "date")>>,
                <<B("\"1-Feb-2020 00:00:00 +0000\" ", "date")>>,
                <<B("\"01-Feb-2020 25:00:00 +0000\" ", "date")>>,
                <<B("\"01-Feb-2020\" ", "date")>>,
                <<B("1-Feb-2020 ", "badtok")>>}
OptDateSmall == {<<T("", <<"nodate">>)>>,
                 <<T("\" 1-Feb-2020 12:34:56 +0200\" ", <<"dt:2020-02-01T10:34:56Z">>)>>}
Msg1 == V("Subject: x" \o CRLF \o CRLF \o "hi" \o CRLF, FALSE, "-")
Msg2 == V("From: a@b" \o CRLF \o "Subject: {5}" \o CRLF \o CRLF \o "a1 NOOP Ã©" \o CRLF \o "(\"x\\" \o CRLF, FALSE, "-")
Msg3 == V("", FALSE, "-")
MsgLitAlts == {<<S("lit:", m, {"lit", "lit+"})>> : m \in {Msg1, Msg2} \cup (IF Wide THEN {Msg3} ELSE {})}
              \cup {<<B("\"Subject: x\"", "badtok")>>, <<B("atom", "badtok")>>}
MsgLitSmall == {<<S("lit:", Msg1, {"lit"})>>}

Prod(nt) ==
    CASE nt = "line"      -> IF Start = "deep" THEN DeepAlts ELSE LineAlts
      [] nt = "cmd"       -> CmdAlts \cup BigAlts
      [] nt = "simple"    -> SimpleAlts
      [] nt = "mailbox"   -> MboxAlts
      [] nt = "mbox_s"    -> MboxSmall
      [] nt = "mbox_1"    -> Mbox1
      [] nt = "set_1"     -> Set1
      [] nt = "fetchatts_s" -> FetchAttsSmall
      [] nt = "partial_s" -> PartialSmall
      [] nt = "ref_s"     -> RefSmall
      [] nt = "optreturn_s" -> OptReturnSmall
      [] nt = "optflags_s" -> OptFlagsSmall
      [] nt = "optdate_s" -> OptDateSmall
      [] nt = "msglit_s"  -> MsgLitSmall
      [] nt = "user"      -> UserAlts
      [] nt = "pass"      -> PassAlts
      [] nt = "set"       -> SetAlts
      [] nt = "set_s"     -> SetSmall
      [] nt = "date"      -> DateAlts
      [] nt = "date_s"    -> DateSmall
      [] nt = "flag"      -> FlagAlts
      [] nt = "flag_s"    -> FlagSmall
      [] nt = "flag_k"    -> FlagKAlts
      [] nt = "statatt"   -> StatAlts
      [] nt = "statatt_s" -> StatSmall
      [] nt = "statmore"  -> StatMoreAlts
      [] nt = "fetchatts" -> FetchAttsAlts
      [] nt = "att"       -> AttAlts
      [] nt = "att_s"     -> AttSmall
      [] nt = "attmore"   -> AttMoreAlts
      [] nt = "section"   -> SectionAlts
      [] nt = "section_s" -> SectionSmall
      [] nt = "hdr"       -> HdrAlts
      [] nt = "hdr_s"     -> HdrSmall
      [] nt = "hdrmore"   -> HdrMoreAlts
      [] nt = "partial"   -> PartialAlts
      [] nt = "storeop"   -> StoreOpAlts
      [] nt = "flagsarg"  -> FlagsArgAlts
      [] nt = "flagmore"  -> FlagMoreAlts
      [] nt = "baremore"  -> BareMoreAlts
      [] nt = "keytop"    -> KeyTop
      [] nt = "key0"      -> Key0
      [] nt = "comp1"     -> CompAlts(1)
      [] nt = "comp2"     -> CompAlts(2)
      [] nt = "comp3"     -> CompAlts(3)
      [] nt = "comp4"     -> CompAlts(4)
      [] nt = "morekeys"  -> MoreKeysAlts
      [] nt = "sstr"      -> SStrAlts
      [] nt = "sstr_s"    -> SStrSmall
      [] nt = "selopt"    -> SelOptAlts
      [] nt = "ref"       -> RefAlts
      [] nt = "pats"      -> PatAlts
      [] nt = "pat1"      -> Pat1Alts
      [] nt = "optreturn" -> OptReturnAlts
      [] nt = "idpair"    -> IdPairAlts
      [] nt = "idpair_s"  -> IdPairSmall
      [] nt = "idmore"    -> IdMoreAlts
      [] nt = "optflags"  -> OptFlagsAlts
      [] nt = "optdate"   -> OptDateAlts
      [] nt = "msglit"    -> MsgLitAlts

(* non-terminals that can derive the empty text: cutting the derivation in
   front of them (alone) does not make the text incomplete *)
NullableNT == {"partial", "partial_s", "morekeys", "optreturn", "optreturn_s", "optflags", "optflags_s",
               "optdate", "optdate_s", "selopt", "baremore"}
Needed(sym) == \/ sym.k \in {"S", "B"}
               \/ sym.k = "T" /\ sym.t # ""
               \/ sym.k = "N" /\ sym.t \notin NullableNT
SomethingMustFollow(st) == \E i \in 1..Len(st) : Needed(st[i])

(* what may follow a complete sentence without making another sentence:
   " x" (no command takes a further atom, except a STORE with bare flags and
   AUTHENTICATE with an initial response), " 1" (except SEARCH, where it is
   one more key; used after the commands without arguments, e.g. EXPUNGE 1,
   and everywhere with Wide), and an unmatched ")" *)
Garbage == IF gclass = "close" THEN {")"}
           ELSE IF Len(ast) = 4 \/ (Wide /\ ast[3] # "search") THEN {" x", " 1", ")"}
           ELSE {" x", ")"}

(* ------------------------------------------------------------------------ *)
Init == /\ text = "" /\ stack = <<N("line")>> /\ ast = <<>> /\ verdict = "OK"
        /\ cat = "ok" /\ fresh = FALSE /\ gclass = "any" /\ phase = "gen"

Top == Head(stack)
(* once the text is certainly invalid the rest is produced in one fixed way *)
Alts(nt) == IF verdict = "BAD" THEN {CHOOSE a \in Prod(nt) : TRUE} ELSE Prod(nt)

Expand == /\ phase = "gen" /\ stack # <<>> /\ Top.k = "N"
          /\ \E alt \in Alts(Top.t) : stack' = alt \o Tail(stack)
          /\ fresh' = FALSE
          /\ UNCHANGED <<text, ast, verdict, cat, gclass, phase>>

Emit == /\ phase = "gen" /\ stack # <<>> /\ Top.k = "T"
        /\ text' = text \o Top.t /\ ast' = ast \o Top.a /\ stack' = Tail(stack)
        /\ fresh' = IF Top.t = "" THEN fresh ELSE TRUE
        /\ UNCHANGED <<verdict, cat, gclass, phase>>

EmitBad == /\ phase = "gen" /\ stack # <<>> /\ Top.k = "B" /\ "bad" \in NegKinds
           /\ text' = text \o Top.t /\ stack' = Tail(stack) /\ verdict' = "BAD"
           /\ cat' = IF verdict = "BAD" THEN cat ELSE Top.a[1]
           /\ fresh' = TRUE
           /\ UNCHANGED <<ast, gclass, phase>>

EmitStr == /\ phase = "gen" /\ stack # <<>> /\ Top.k = "S"
           /\ \E form \in (IF verdict = "BAD" THEN {CHOOSE g \in Top.f \cap FormsOf(Top.v) : TRUE}
                           ELSE Top.f \cap FormsOf(Top.v)) :
                 text' = text \o Enc(form, Top.v)
           /\ ast' = Append(ast, Top.t \o Top.v.v) /\ stack' = Tail(stack) /\ fresh' = TRUE
           /\ UNCHANGED <<verdict, cat, gclass, phase>>

SetG == /\ phase = "gen" /\ stack # <<>> /\ Top.k = "G"
        /\ gclass' = Top.t /\ stack' = Tail(stack)
        /\ UNCHANGED <<text, ast, verdict, cat, fresh, phase>>

(* a literal that announces 3 octets more than the rest of the text has *)
ShortLiteral == /\ "short" \in NegKinds /\ phase = "gen" /\ stack # <<>> /\ Top.k = "S" /\ verdict = "OK"
                /\ text' = text \o Enc("short", Top.v) /\ stack' = <<>>
                /\ verdict' = "BAD" /\ cat' = "shortlit" /\ fresh' = TRUE
                /\ UNCHANGED <<ast, gclass, phase>>

(* Cut the derivation where a token has just been produced and more must
   follow.  Soundness: choices are made by Expand only when the non-terminal
   is on top, i.e. after everything before it has been produced, and no two
   alternatives of a non-terminal produce texts of which one is a prefix of
   the other followed by a complete continuation.  So while `fresh` (no
   Expand since the last produced token) the text determines the stack, and
   the text is a sentence iff the whole stack can vanish: iff it holds only
   nullable non-terminals and empty terminals.  StopEarly requires the
   opposite.  (checks/c08.py additionally refuses to run if one text ever
   comes out both as OK and as BAD.) *)
StopEarly == /\ "stop" \in NegKinds /\ phase = "gen" /\ verdict = "OK" /\ fresh /\ SomethingMustFollow(stack)
             /\ stack' = <<>> /\ verdict' = "BAD" /\ cat' = "stop"
             /\ UNCHANGED <<text, ast, fresh, gclass, phase>>

TrailingGarbage == /\ "garbage" \in NegKinds /\ phase = "gen" /\ stack = <<>> /\ verdict = "OK"
                   /\ \E g \in Garbage : text' = text \o g
                   /\ verdict' = "BAD" /\ cat' = "garbage"
                   /\ UNCHANGED <<stack, ast, fresh, gclass, phase>>

Finish == /\ phase = "gen" /\ stack = <<>>
          /\ phase' = "done"
          /\ PrintT(ToString(<<"S", cat, verdict, text, ast>>))
          /\ UNCHANGED <<text, stack, ast, verdict, cat, fresh, gclass>>

Next == Expand \/ Emit \/ EmitBad \/ EmitStr \/ SetG \/ ShortLiteral \/ StopEarly \/ TrailingGarbage \/ Finish
Spec == Init /\ [][Next]_vars

(* ------------------------------------------------------------------------ *)
(* laws of the specification itself (checked on every state)                 *)
SymOK(s) == s.k \in {"T", "B", "N", "S", "G"}
TypeOK == /\ verdict \in {"OK", "BAD"} /\ phase \in {"gen", "done"}
          /\ \A i \in 1..Len(stack) : SymOK(stack[i])
          /\ \A i \in 1..Len(ast) : ast[i] \in STRING
          /\ cat \in {"ok", "stop", "garbage", "shortlit", "badtok", "zero", "date", "empty"}
Opens(a)  == Cardinality({i \in 1..Len(a) : a[i] \in {"set(", "atts(", "body(", "flags(", "and(", "or(", "not(", "sel(", "pats(",
                                               "ret(", "retstatus(", "id(", "status(", "HEADER.FIELDS(", "HEADER.FIELDS.NOT("}})
Closes(a) == Cardinality({i \in 1..Len(a) : a[i] = ")"})
(* a finished valid sentence has a well-bracketed denotation that starts with tag and command *)
AstWellFormed == phase = "done" /\ verdict = "OK" =>
                    /\ Opens(ast) = Closes(ast)
                    /\ Len(ast) >= 4 /\ ast[2] = "cmd" /\ ast[4] \in {"uid", "nouid"}
                    /\ cat = "ok" /\ text # ""
(* BAD is for ever, and every BAD sentence says why *)
BadHasReason == (verdict = "BAD") <=> (cat # "ok")
=============================================================================
