-------------------------------- MODULE Pop3 --------------------------------
(***************************************************************************)
(* C20: an abstract POP3 server over an INBOX that IMAP sessions and an     *)
(* external MH agent change at the same time.                               *)
(*                                                                         *)
(* State: the INBOX (sequence of [uid, id, key]: IMAP UID, identity of the  *)
(* text, MH file number), the POP3 session (snapshot, deletion marks, the   *)
(* lazily filled size cache), the history `h` and the verdict `bad` of the  *)
(* property layer (Pop3Props) on the last step, and `last`, the step as a   *)
(* client and an IMAP observer see it (an event of Pop3Props).              *)
(*                                                                         *)
(* With Dev = {} the server is the design the property describes: it looks  *)
(* messages up by UID, frames multi-line replies exactly, removes messages  *)
(* only in QUIT.  TLC checks `NoBad` for every history within the bounds.   *)
(* Each element of Dev switches on one deviation (the two that the code is  *)
(* suspected of, and the mutant-like ones); TLC must then *find* a history  *)
(* on which the oracle bites (non-vacuity), and the shortest such history   *)
(* is replayed against the real server.                                     *)
(***************************************************************************)
EXTENDS Pop3Props

CONSTANTS
    MaxId,        \* messages ever created (ids 1..MaxId)
    InitCounts,   \* possible numbers of messages in INBOX at the start
    InitGap,      \* possible numbers of messages created and expunged before the start
    BodySets,     \* id |-> set of bodies (sequences of line shapes) the message may have
    MaxPop,       \* POP3 commands per session
    MaxImap,      \* IMAP-side / external steps per history
    TopLines,     \* set of TOP line counts tried
    Dev           \* deviations switched on

VARIABLES inbox, nextUid, nextId, bod, pop, h, bad, last, np, ni
vars == <<inbox, nextUid, nextId, bod, pop, h, bad, last, np, ni>>

(* bodies offered to the configurations *)
SeqsUpTo(S, n) == UNION {[1..k -> S] : k \in 0..n}
AllBodies2 == SeqsUpTo(Shapes, 2)
AllBodies3 == SeqsUpTo(Shapes, 3)
ContentBodies2 == [i \in 1..3 |-> IF i = 1 THEN AllBodies2 ELSE {<<"x">>}]
ContentBodies3 == [i \in 1..3 |-> IF i = 1 THEN AllBodies3 ELSE {<<"x">>}]
SimBodies == <<SeqsUpTo(Shapes, 1) \cup {<<"dot", "x">>, <<"x", "dot">>, <<"dotx", "empty">>, <<"dotdot", "dot", "x">>},
               {<<"x">>, <<"dot">>, <<"empty", "dotx">>}, {<<>>, <<"dotdot">>, <<"x", "x">>},
               {<<"dotx">>, <<"x", "empty", "dot">>}, {<<"dot", "dot">>, <<"x">>}, {<<"x">>}>>
SnapshotBodies == <<{<<"dot", "x">>}, {<<"x">>}, {<<>>}, {<<"dotx", "empty">>}, {<<"dotdot">>}, {<<"x", "x">>}>>

FnlOK(b, f) == f \/ (Len(b) > 0 /\ b[Len(b)] # "empty")    \* see harness: otherwise the same file as another body

BodChoices(i) == {[shapes |-> b, fnl |-> f] : b \in BodySets[i], f \in {x \in BOOLEAN : TRUE}}
RECURSIVE BodProd(_)
BodProd(i) == IF i = 0 THEN {<<>>}
              ELSE {Append(s, c) : s \in BodProd(i - 1), c \in {x \in BodChoices(i) : FnlOK(x.shapes, x.fnl)}}

Cat == [i \in 1..MaxId |-> [hdr |-> << <<72, 48 + i>> >>, idx |-> 1, shapes |-> bod[i].shapes, raw |-> <<>>]]
SizeOf(id) == Octets(Canon(Cat[id]))
Box(b) == [i \in 1..Len(b) |-> [uid |-> b[i].uid, id |-> b[i].id]]
KMap(b) == [i \in 1..Len(b) |-> <<b[i].uid, b[i].key>>]
Keys(b) == {b[i].key : i \in 1..Len(b)}
MaxKey(b) == IF b = <<>> THEN 0 ELSE CHOOSE k \in Keys(b) : \A j \in Keys(b) : j <= k
Without(b, S) == LET keep == {i \in 1..Len(b) : i \notin S}
                     F[i \in 0..Len(b)] == IF i = 0 THEN <<>> ELSE IF i \in keep THEN F[i - 1] \o <<b[i]>> ELSE F[i - 1]
                 IN F[Len(b)]
Packed(b) == [i \in 1..Len(b) |-> [b[i] EXCEPT !.key = i]]

NoEvent == [act |-> "Init", sub |-> "", n |-> 0, k |-> 0, st |-> "none", nums |-> <<>>, lines |-> <<>>,
            term |-> FALSE, extra |-> 0, pairs |-> <<>>, closed |-> FALSE, pre |-> <<>>, post |-> <<>>,
            kmap |-> <<>>, kpost |-> <<>>]
Ev(act, n, k, st, nums, raw, pairs, pre, post) ==
    LET r == IF act \in {"List", "Uidl", "Retr", "Top"} /\ st = "ok" THEN ReadMulti(raw)
             ELSE [lines |-> <<>>, term |-> FALSE, extra |-> Octets(raw)] IN
    [act |-> act, sub |-> "", n |-> n, k |-> k, st |-> st, nums |-> nums, lines |-> r.lines, term |-> r.term,
     extra |-> r.extra, pairs |-> pairs, closed |-> FALSE, pre |-> Box(pre), post |-> Box(post),
     kmap |-> KMap(pre), kpost |-> KMap(post)]

Init ==
    /\ \E c \in InitCounts : \E g \in InitGap :
         /\ inbox = [i \in 1..c |-> [uid |-> g + i, id |-> i, key |-> g + i]]
         /\ nextUid = g + c + 1
         /\ nextId = c + 1
    /\ bod \in BodProd(MaxId)
    /\ pop = [phase |-> "pre", snap |-> <<>>, marks |-> {}, cache |-> <<>>]
    /\ h = H0 /\ bad = {} /\ last = NoEvent /\ np = 0 /\ ni = 0

(* every step is judged by the property layer *)
Emit(e) == /\ last' = e
           /\ bad' = StepBad(Cat, h, e)
           /\ h' = Advance(h, e)

---------------------------------------------------------------------------
(* the server's view                                                        *)
Ln == Len(pop.snap)
Lookup(n) ==      \* id of the message POP3 number n denotes now, 0 if there is none
    LET hit == IF "ByKey" \in Dev
               THEN {i \in 1..Len(inbox) : inbox[i].key = pop.snap[n].key}
               ELSE {i \in 1..Len(inbox) : inbox[i].uid = pop.snap[n].uid}
    IN IF hit = {} THEN 0 ELSE inbox[CHOOSE i \in hit : TRUE].id
SizeNow(n) == IF pop.cache[n] # -1 THEN pop.cache[n] ELSE IF Lookup(n) = 0 THEN 0 ELSE SizeOf(Lookup(n))
Usable(n) == n \in 1..Ln /\ n \notin pop.marks
Live == {n \in 1..Ln : n \notin pop.marks}
SortedLive == LET F[i \in 0..Ln] == IF i = 0 THEN <<>> ELSE IF i \in Live THEN F[i - 1] \o <<i>> ELSE F[i - 1] IN F[Ln]
RECURSIVE SumSizes(_)
SumSizes(S) == IF S = {} THEN 0 ELSE LET n == CHOOSE x \in S : TRUE IN SizeNow(n) + SumSizes(S \ {n})
Cached(S) == [n \in 1..Ln |-> IF n \in S THEN SizeNow(n) ELSE pop.cache[n]]
UidlOf(n) == IF "UidlIsKey" \in Dev THEN pop.snap[n].key ELSE pop.snap[n].uid
Term == << <<DOT>> >>
Err(act, n, k) == Emit(Ev(act, n, k, "err", <<>>, <<>>, <<>>, inbox, inbox))
Same == UNCHANGED <<inbox, nextUid, nextId, bod>>

Open ==
    /\ pop.phase = "pre"
    /\ pop' = [phase |-> "open", snap |-> inbox, marks |-> {}, cache |-> [n \in 1..Len(inbox) |-> -1]]
    /\ Emit([NoEvent EXCEPT !.act = "Open", !.pre = Box(inbox), !.post = Box(inbox),
                            !.kmap = KMap(inbox), !.kpost = KMap(inbox)])
    /\ Same /\ UNCHANGED <<np, ni>>

Stat == /\ pop' = [pop EXCEPT !.cache = Cached(Live)]
        /\ Emit(Ev("Stat", 0, 0, "ok", <<Cardinality(Live), SumSizes(Live)>>, <<>>, <<>>, inbox, inbox))
        /\ Same
List == /\ pop' = [pop EXCEPT !.cache = Cached(Live)]
        /\ Emit(Ev("List", 0, 0, "ok", <<Cardinality(Live), SumSizes(Live)>>,
                   [i \in 1..Len(SortedLive) |-> <<48>>] \o Term,
                   [i \in 1..Len(SortedLive) |-> <<SortedLive[i], SizeNow(SortedLive[i])>>], inbox, inbox))
        /\ Same
ListN(n) == /\ IF Usable(n)
               THEN /\ pop' = [pop EXCEPT !.cache = Cached({n})]
                    /\ Emit(Ev("ListN", n, 0, "ok", <<n, SizeNow(n)>>, <<>>, <<>>, inbox, inbox))
               ELSE UNCHANGED pop /\ Err("ListN", n, 0)
            /\ Same
Uidl == /\ UNCHANGED pop
        /\ Emit(Ev("Uidl", 0, 0, "ok", <<>>, [i \in 1..Len(SortedLive) |-> <<48>>] \o Term,
                   [i \in 1..Len(SortedLive) |-> <<SortedLive[i], UidlOf(SortedLive[i])>>], inbox, inbox))
        /\ Same
UidlN(n) == /\ UNCHANGED pop
            /\ IF Usable(n) THEN Emit(Ev("UidlN", n, 0, "ok", <<n, UidlOf(n)>>, <<>>, <<>>, inbox, inbox))
               ELSE Err("UidlN", n, 0)
            /\ Same
StuffOut(ls) == IF "NoStuff" \in Dev THEN ls ELSE StuffAll(ls)
Retr(n) == /\ UNCHANGED pop
           /\ IF Usable(n) /\ Lookup(n) # 0
              THEN LET id == Lookup(n) IN
                   Emit(Ev("Retr", n, 0, "ok", <<SizeOf(id)>>,
                           StuffOut(Canon(Cat[id])) \o (IF "ExtraCRLF" \in Dev THEN << <<>> >> ELSE <<>>) \o Term,
                           <<>>, inbox, inbox))
              ELSE Err("Retr", n, 0)
           /\ Same
Top(n, k) == /\ UNCHANGED pop
             /\ IF Usable(n) /\ Lookup(n) # 0
                THEN LET m == Cat[Lookup(n)]
                         b == Body(m)
                         kk == IF k < Len(b) THEN k ELSE Len(b) IN
                     Emit(Ev("Top", n, k, "ok", <<>>,
                             StuffOut(m.hdr \o << <<>> >> \o SubSeq(b, 1, kk)) \o Term, <<>>, inbox, inbox))
                ELSE Err("Top", n, k)
             /\ Same
Dele(n) ==
    IF Usable(n)
    THEN /\ pop' = [pop EXCEPT !.marks = @ \cup {n}]
         /\ LET gone == IF "EarlyDelete" \in Dev
                        THEN {i \in 1..Len(inbox) : inbox[i].uid = pop.snap[n].uid} ELSE {} IN
            /\ inbox' = Without(inbox, gone)
            /\ Emit(Ev("Dele", n, 0, "ok", <<n>>, <<>>, <<>>, inbox, Without(inbox, gone)))
         /\ UNCHANGED <<nextUid, nextId, bod>>
    ELSE UNCHANGED pop /\ Err("Dele", n, 0) /\ Same
Rset == /\ pop' = IF "RsetKeeps" \in Dev THEN pop ELSE [pop EXCEPT !.marks = {}]
        /\ Emit(Ev("Rset", 0, 0, "ok", <<>>, <<>>, <<>>, inbox, inbox)) /\ Same
Noop == UNCHANGED pop /\ Emit(Ev("Noop", 0, 0, "ok", <<>>, <<>>, <<>>, inbox, inbox)) /\ Same
BadCmd == UNCHANGED pop /\ Err("Bad", 0, 0) /\ Same
MarkedIdx == IF "QuitByNumber" \in Dev
             THEN {i \in 1..Len(inbox) : inbox[i].uid \in pop.marks}
             ELSE {i \in 1..Len(inbox) : inbox[i].uid \in {pop.snap[n].uid : n \in pop.marks}}
Quit == /\ pop' = [pop EXCEPT !.phase = "closed"]
        /\ inbox' = Without(inbox, MarkedIdx)
        /\ Emit([Ev("Quit", 0, 0, "ok", <<>>, <<>>, <<>>, inbox, Without(inbox, MarkedIdx)) EXCEPT !.closed = TRUE])
        /\ UNCHANGED <<nextUid, nextId, bod>>
Drop == /\ pop' = [pop EXCEPT !.phase = "closed"]
        /\ LET after == IF "ExpungeOnDrop" \in Dev THEN Without(inbox, MarkedIdx) ELSE inbox IN
           /\ inbox' = after
           /\ Emit([Ev("Drop", 0, 0, "none", <<>>, <<>>, <<>>, inbox, after) EXCEPT !.closed = TRUE])
        /\ UNCHANGED <<nextUid, nextId, bod>>

Nums == 0..(Ln + 1)
PopStep ==
    /\ pop.phase = "open" /\ np < MaxPop
    /\ np' = np + 1 /\ UNCHANGED ni
    /\ \/ Stat \/ List \/ Uidl \/ Rset \/ Noop \/ BadCmd \/ Quit \/ Drop
       \/ \E n \in Nums : ListN(n) \/ UidlN(n) \/ Retr(n) \/ Dele(n) \/ \E k \in TopLines : Top(n, k)

---------------------------------------------------------------------------
(* the rest of the world: IMAP sessions and the MH agent                    *)
ImapEv(sub, n, post) == [NoEvent EXCEPT !.act = "Imap", !.sub = sub, !.n = n, !.pre = Box(inbox), !.post = Box(post),
                                        !.kmap = KMap(inbox), !.kpost = KMap(post)]
NewMsg(sub) ==
    /\ nextId <= MaxId
    /\ LET nb == Append(inbox, [uid |-> nextUid, id |-> nextId, key |-> MaxKey(inbox) + 1]) IN
       inbox' = nb /\ Emit(ImapEv(sub, nextId, nb))
    /\ nextUid' = nextUid + 1 /\ nextId' = nextId + 1 /\ UNCHANGED bod
Expunge(i) ==
    /\ inbox' = Without(inbox, {i}) /\ Emit(ImapEv("Expunge", i, Without(inbox, {i})))
    /\ UNCHANGED <<nextUid, nextId, bod>>
Tick ==     \* time passes; a folder with gaps in its numbering is packed
    /\ inbox # Packed(inbox)
    /\ inbox' = Packed(inbox)
    /\ Emit([ImapEv("", 0, Packed(inbox)) EXCEPT !.act = "Tick"])
    /\ UNCHANGED <<nextUid, nextId, bod>>
ImapStep ==
    /\ ni < MaxImap /\ pop.phase # "closed"
    /\ ni' = ni + 1 /\ UNCHANGED <<np, pop>>
    /\ \/ NewMsg("Append") \/ NewMsg("Deliver") \/ Tick
       \/ \E i \in 1..Len(inbox) : Expunge(i)
(* after the session: nothing may disappear later *)
After ==
    /\ pop.phase = "closed" /\ last.act \in {"Quit", "Drop"}
    /\ Emit([ImapEv("", 0, inbox) EXCEPT !.act = "Tick"])
    /\ UNCHANGED <<inbox, nextUid, nextId, bod, pop, np, ni>>

Next == Open \/ PopStep \/ ImapStep \/ After
Spec == Init /\ [][Next]_vars

---------------------------------------------------------------------------
NoBad == bad = {}
TypeOK ==
    /\ pop.phase \in {"pre", "open", "closed"}
    /\ pop.marks \subseteq 1..Ln
    /\ \A i \in 1..Len(inbox) : \A j \in 1..Len(inbox) : i < j => inbox[i].uid < inbox[j].uid /\ inbox[i].key < inbox[j].key
    /\ \A i \in 1..Len(inbox) : inbox[i].uid < nextUid /\ inbox[i].id < nextId
(* the history the oracle keeps agrees with the server's own state *)
HistoryAgrees ==
    pop.phase = "open" => /\ h.phase = "open" /\ h.marks = pop.marks
                          /\ h.snap = Box(pop.snap)
                          /\ \A n \in 1..Ln : Cardinality(h.sz[n]) <= 1 /\ \A s \in h.sz[n] : pop.cache[n] \in {-1, s}
(* design-level statements of the property, directly on the state (Dev = {}) *)
SnapshotFixed == pop.phase = "open" => \A n \in 1..Ln : pop.snap[n].uid < nextUid
OnlyQuitRemoves == (last.act \in Pop3Acts \cup {"Drop", "Open"}) => last.pre = last.post
StuffLaws == \A b \in UNION {BodySets[i] : i \in 1..MaxId} :
                 StuffLawsOn([i \in 1..Len(b) |-> ShapeOct(b[i])])
ASSUME StuffLawsHold == StuffLaws
=============================================================================
