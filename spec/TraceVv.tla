------------------------------- MODULE TraceVv -------------------------------
(***************************************************************************)
(* C02, last sentence: a (mailbox name, UIDVALIDITY) pair never identifies  *)
(* two different incarnations; a name that is deleted and created again     *)
(* gets a UIDVALIDITY larger than any it had.                               *)
(* Validation of observations recorded on the real server when mailboxes    *)
(* are created CONCURRENTLY by several sessions (harness/vvrace.py) and     *)
(* names are then freed and taken again by CREATE or RENAME.                *)
(* Input (env TRACE_FILE): sequence of runs; a run is a sequence of          *)
(*   [name, vv, inc, made]   one per STATUS/SELECT of a live mailbox:       *)
(*   inc = the incarnation the harness knows the name to be in (a counter   *)
(*   advanced by every successful CREATE; a RENAME carries the incarnation  *)
(*   to the new name: renaming away and back is not a reuse),               *)
(*   made = "create" | "rename" (how the name came to denote it).           *)
(***************************************************************************)
EXTENDS Naturals, Sequences, Json, IOUtils, TLC

Runs == JsonDeserialize(IOEnv.TRACE_FILE)
VARIABLES r, i, hist
vars == <<r, i, hist>>

Init == r = 1 /\ i = 1 /\ hist = {}

PairReused(o) == \E h \in hist : h.name = o.name /\ h.vv = o.vv /\ h.inc # o.inc
NotFresh(o) == o.made = "create" /\ \E h \in hist : h.name = o.name /\ h.inc < o.inc /\ h.vv >= o.vv
Changed(o) == \E h \in hist : h.name = o.name /\ h.inc = o.inc /\ h.vv # o.vv

Next ==
    /\ r <= Len(Runs)
    /\ IF i > Len(Runs[r])
       THEN /\ PrintT(<<"DONE", r>>)
            /\ r' = r + 1 /\ i' = 1 /\ hist' = {}
       ELSE LET o == Runs[r][i] IN
            /\ PairReused(o) => PrintT(<<"VIOL", r, i, "C02.VvPairReused">>)
            /\ NotFresh(o) => PrintT(<<"VIOL", r, i, "C02.VvFresh">>)
            /\ Changed(o) => PrintT(<<"VIOL", r, i, "C02.VvStable">>)
            /\ hist' = hist \cup {o} /\ i' = i + 1 /\ r' = r
Spec == Init /\ [][Next]_vars
=============================================================================
