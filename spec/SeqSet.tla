------------------------------ MODULE SeqSet ------------------------------
(***************************************************************************)
(* C15 -- a message set denotes the same messages in every command.        *)
(*                                                                         *)
(* Reference semantics of the IMAP sequence-set language (RFC 3501         *)
(* sequence-set) and the verdict operators that compare what a piece of    *)
(* the implementation returned/touched with that reference.  Pure module   *)
(* (no variables): SeqSetLaws.tla model-checks the laws of the denotation  *)
(* over the enumerated case space and emits that space for the harness;    *)
(* SeqSetTrace.tla validates the results recorded from the implementation. *)
(*                                                                         *)
(* Shapes                                                                  *)
(*   element   <<a>> (a single number) or <<a,b>> (the range a:b);          *)
(*             a,b \in Nat \cup {Star}; 0 is in the alphabet on purpose     *)
(*   set       non-empty sequence of elements ("2,4:7,*")                   *)
(*   mailbox   strictly ascending sequence of UIDs; message sequence        *)
(*             number i is the message with UID uids[i]                     *)
(*   mode      "seq" (numbers are message sequence numbers) or              *)
(*             "uid" (numbers are UIDs)                                     *)
(***************************************************************************)
EXTENDS Naturals, Integers, Sequences, FiniteSets, FiniteSetsExt, SequencesExt, TLC

Star == -1

RangeOf(s) == {s[i] : i \in DOMAIN s}
LastOr0(uids) == IF Len(uids) = 0 THEN 0 ELSE uids[Len(uids)]
Ascending(s) == \A i \in 1..(Len(s) - 1) : s[i] < s[i + 1]

---------------------------------------------------------------------------
(* The denotation *)

Val(x, mx) == IF x = Star THEN mx ELSE x
Ends(e) == {e[1], e[Len(e)]}
ElemNums(e, mx) ==
    LET a == Val(e[1], mx)
        b == Val(e[Len(e)], mx)
    IN (IF a <= b THEN a ELSE b)..(IF a <= b THEN b ELSE a)
DenoteNums(set, mx) == UNION {ElemNums(set[i], mx) : i \in DOMAIN set}

(* message sequence numbers: "*" is N; every number must lie in 1..N *)
DenoteSeq(set, N) == DenoteNums(set, N)
ValidSeq(set, N) == DenoteSeq(set, N) \subseteq 1..N

(* UIDs: "*" is the highest UID in the mailbox; UIDs that do not exist are *)
(* skipped silently                                                        *)
DenoteUid(set, U) == U \cap DenoteNums(set, IF U = {} THEN 0 ELSE Max(U))

(* The messages (as UIDs) a set denotes in a mailbox, and whether a        *)
(* command carrying it has to be refused.                                  *)
Msgs(mode, set, uids) ==
    IF mode = "uid" THEN DenoteUid(set, RangeOf(uids))
    ELSE {uids[i] : i \in DenoteSeq(set, Len(uids)) \cap 1..Len(uids)}
Rejected(mode, set, uids) == mode = "seq" /\ ~ValidSeq(set, Len(uids))

(* positions (message sequence numbers) of a set of UIDs *)
PosOf(M, uids) == {i \in 1..Len(uids) : uids[i] \in M}

(* A SEARCH message-set key with a number outside 1..N may match nothing   *)
(* for that element instead of being refused: the elements that are valid  *)
(* on their own must still match.                                          *)
ElemValid(e, N) == ElemNums(e, N) \subseteq 1..N
SearchLower(set, uids) ==
    {uids[i] : i \in UNION {ElemNums(set[k], Len(uids)) :
                              k \in {j \in DOMAIN set : ElemValid(set[j], Len(uids))}}}

(* the number 0 is not an nz-number: a parser may refuse it in any mode *)
HasZero(set) == \E i \in DOMAIN set : 0 \in Ends(set[i])

---------------------------------------------------------------------------
(* The enumerated case space *)

Elems(A) == {<<a>> : a \in A} \cup {<<a, b>> : a \in A, b \in A}
Lists(E, k) == UNION {[1..j -> E] : j \in 1..k}

SeqAlpha(N) == 0..(N + 1) \cup {Star}
SeqBnd(N) == {0, 1, N, N + 1, Star}
UidAlpha(t) == 0..(Len(t) + 1) \cup {LastOr0(t), LastOr0(t) + 1, Star}
UidBnd(t) == {0, 1, LastOr0(t), LastOr0(t) + 1, Star}
Alpha(mode, t) == IF mode = "uid" THEN UidAlpha(t) ELSE SeqAlpha(Len(t))
Bnd(mode, t) == IF mode = "uid" THEN UidBnd(t) ELSE SeqBnd(Len(t))

(* every list of <= kf elements over the full alphabet and every list of   *)
(* <= kb elements over the boundary alphabet                               *)
Space(mode, t, kf, kb) ==
    Lists(Elems(Alpha(mode, t)), kf) \cup Lists(Elems(Bnd(mode, t)), kb)

(* UID tables of size N: dense, every second UID, shifted by two *)
Dense(N) == [i \in 1..N |-> i]
Even(N) == [i \in 1..N |-> 2 * i]
Shift(N) == [i \in 1..N |-> i + 2]

---------------------------------------------------------------------------
(* Verdicts on what the implementation did.                                *)
(*                                                                         *)
(* An observation is what one interpreter / one command produced for one   *)
(* set text in one mailbox:                                                *)
(*   st    "OK" | "BAD" | "NO" | anything else (exception, session dropped) *)
(*   got   sequence of <<name, unit, numbers>>; unit says what the numbers  *)
(*         are: "uid" UIDs of messages touched/returned, "seq" message      *)
(*         sequence numbers, "uidnum" UID-space numbers of which only the   *)
(*         existing ones count                                              *)
(* key is the mode in which the set is to be read ("seq"/"uid"); kind says *)
(* what is owed when a sequence number is outside 1..N:                    *)
(*   "gate"    a complete command, or the function whose refusal is the    *)
(*             command's: BAD, nothing touched                             *)
(*   "search"  a SEARCH key: BAD, or the bad elements match nothing        *)
(*   "inner"   an expansion behind the gate, called directly: it must not  *)
(*             touch any message (the BAD is the gate's business)          *)

AsUids(g, uids) ==
    LET v == RangeOf(g[3]) IN
    IF g[2] = "seq" THEN {uids[i] : i \in v \cap 1..Len(uids)}
    ELSE IF g[2] = "uidnum" THEN v \cap RangeOf(uids)
    ELSE v
(* numbers that name no message of the mailbox at all *)
Stray(g, uids) ==
    LET v == RangeOf(g[3]) IN
    IF g[2] = "seq" THEN v \ 1..Len(uids)
    ELSE IF g[2] = "uidnum" THEN {}
    ELSE v \ RangeOf(uids)
Nothing(got) == \A k \in DOMAIN got : Len(got[k][3]) = 0

(* names of the outputs that disagree with the reference; {} = conforms *)
Verdict(key, kind, set, uids, st, got) ==
    LET M == Msgs(key, set, uids)
        exact == {"Wrong_" \o got[k][1] : k \in {j \in DOMAIN got :
                      AsUids(got[j], uids) # M \/ Stray(got[j], uids) # {}}}
    IN
    IF Rejected(key, set, uids) THEN
        IF kind # "search" THEN
            (* the command is rejected with BAD and nothing is touched *)
            (IF st = "BAD" \/ kind = "inner" THEN {} ELSE {"OutOfRangeNotBAD"})
            \cup (IF Nothing(got) THEN {} ELSE {"OutOfRangeTouched"})
        ELSE IF st # "OK" /\ Nothing(got) THEN {}    \* refused, one way or another
        ELSE IF st = "OK" /\ \A k \in DOMAIN got :
                  /\ SearchLower(set, uids) \subseteq AsUids(got[k], uids)
                  /\ AsUids(got[k], uids) \subseteq M
                  /\ Stray(got[k], uids) = {}
             THEN {}
        ELSE {"SearchOutOfRange"}
    ELSE IF st = "BAD" /\ HasZero(set) /\ Nothing(got) THEN {}
    ELSE IF st # "OK" THEN {"ValidSetRefused"}
    ELSE exact

=============================================================================
