--------------------------- MODULE NamespaceCover ---------------------------
(***************************************************************************)
(* One implementation test per transition of the namespace model            *)
(* (spec/Namespace.tla).  The model is explored with the tree alone as the  *)
(* VIEW, so TLC visits every distinct tree once, by a shortest history; for *)
(* every tree-changing (accepted) command enabled there it prints that      *)
(* history followed by the command.  The harness replays each printed       *)
(* history on the real server; every step is judged by NsProps through      *)
(* TraceNs.  LIST/LSUB and restarts do not change the tree and are added by *)
(* the harness after the last step.                                         *)
(***************************************************************************)
EXTENDS Namespace

VARIABLE hist
cvars == <<tree, ops, last, hist>>

CInit == Init /\ hist = <<>>
Change ==
    \/ \E n \in NameSet : Create(n) \/ Delete(n)
    \/ \E o \in NameSet, n \in NameSet : Rename(o, n)
    \/ \E n \in NameSet, on \in BOOLEAN : Subscribe(n, on)
CNext == Change /\ hist' = Append(hist, [act |-> last'.act, name |-> last'.name, name2 |-> last'.name2])
CSpec == CInit /\ [][CNext]_cvars

TreeView == tree
ActView == <<tree, last.act>>
LastView == <<tree, last.act, last.name, last.name2, last.status>>
(* every accepted command of every visited tree, with the history that led there *)
Edges == [][(last'.status = "OK") => PrintT(<<"EDGE", hist'>>)]_cvars
=============================================================================
