----------------------------- MODULE Namespace -----------------------------
(***************************************************************************)
(* Protocol layer of the mailbox namespace: CREATE / DELETE / RENAME /      *)
(* SUBSCRIBE / UNSUBSCRIBE / LIST / LSUB / restart as the code implements   *)
(* them (mbox.py create/delete/rename/list, client.py handlers), over a small *)
(* alphabet of names.  TLC checks the property layer (NsProps) on every     *)
(* transition and the laws of the matcher; the behaviours it generates are  *)
(* replayed on the real server.                                             *)
(***************************************************************************)
EXTENDS NsProps

CONSTANTS NameSet, RefSet, PatSet, MaxOps

VARIABLES tree, ops, last
vars == <<tree, ops, last>>

N(n, nosel, sub) == [name |-> n, nosel |-> nosel, sub |-> sub]
Ev(act, status, n, n2) == [act |-> act, status |-> status, name |-> n, name2 |-> n2,
                           ref |-> <<>>, pat |-> <<>>, pats |-> <<>>, lsub |-> FALSE, sel |-> "", ret |-> ""]

Init ==
    /\ tree = {N(Inbox, FALSE, FALSE)}
    /\ ops = 0
    /\ last = Ev("Init", "OK", <<>>, <<>>)

Exists(n) == n \in Names(tree)
Selectable(n) == Exists(n) /\ ~Node(tree, n).nosel

Step(ev, t2) == /\ ops < MaxOps /\ ops' = ops + 1 /\ last' = ev /\ tree' = t2

Create(n) ==
    LET c == Canon(n) IN
    IF IsInbox(c) \/ Selectable(c) THEN Step(Ev("Create", "NO", n, <<>>), tree)
    ELSE Step(Ev("Create", "OK", n, <<>>),
              {t \in tree : t.name # c} \cup {N(c, FALSE, IF Exists(c) THEN Node(tree, c).sub ELSE FALSE)}
              \cup {N(a, FALSE, FALSE) : a \in {x \in Ancestors(c) : ~Exists(x)}})

Delete(n) ==
    LET c == Canon(n) IN
    IF IsInbox(c) \/ ~Exists(c) THEN Step(Ev("Delete", "NO", n, <<>>), tree)
    ELSE LET t == Node(tree, c) IN
         IF t.nosel /\ (HasChildren(tree, c) \/ t.sub) THEN Step(Ev("Delete", "NO", n, <<>>), tree)
         ELSE IF HasChildren(tree, c) \/ t.sub
              THEN Step(Ev("Delete", "OK", n, <<>>), (tree \ {t}) \cup {[t EXCEPT !.nosel = TRUE]})
              ELSE Step(Ev("Delete", "OK", n, <<>>), tree \ {t})

Rename(o, n) ==
    LET co == Canon(o) cn == Canon(n) IN
    IF ~Exists(co) \/ Exists(cn) \/ IsInbox(cn) \/ co = cn \/ IsBelow(cn, co)
    THEN Step(Ev("Rename", "NO", o, n), tree)
    ELSE IF IsInbox(co)
    THEN Step(Ev("Rename", "OK", o, n),
              tree \cup {N(cn, FALSE, FALSE)} \cup {N(a, FALSE, FALSE) : a \in {x \in Ancestors(cn) : ~Exists(x)}})
    ELSE LET moved == Subtree(tree, co) IN
         Step(Ev("Rename", "OK", o, n),
              (tree \ moved) \cup {Renamed(t, co, cn) : t \in moved}
              \cup {N(a, FALSE, FALSE) : a \in {x \in Ancestors(cn) : ~Exists(x)}})

Subscribe(n, on) ==
    LET c == Canon(n) act == IF on THEN "Subscribe" ELSE "Unsubscribe" IN
    IF ~Exists(c) THEN Step(Ev(act, "NO", n, <<>>), tree)
    ELSE Step(Ev(act, "OK", n, <<>>), (tree \ {Node(tree, c)}) \cup {[Node(tree, c) EXCEPT !.sub = on]})

List(ref, pat, lsub) ==
    Step([Ev(IF lsub THEN "Lsub" ELSE "List", "OK", <<>>, <<>>) EXCEPT !.ref = ref, !.pat = pat, !.pats = <<pat>>,
                                                                      !.lsub = lsub], tree)
(* RFC 5258: LIST ref (pat1 pat2) lists the union *)
ListMulti(ref, p1, p2) ==
    Step([Ev("List", "OK", <<>>, <<>>) EXCEPT !.ref = ref, !.pat = p1, !.pats = <<p1, p2>>], tree)

(* RFC 5258: LIST (SUBSCRIBED) ref pat  /  LIST ref pat RETURN (SUBSCRIBED) *)
ListExt(ref, pat, sel, ret) ==
    Step([Ev("List", "OK", <<>>, <<>>) EXCEPT !.ref = ref, !.pat = pat, !.pats = <<pat>>, !.sel = sel, !.ret = ret], tree)

Restart == Step(Ev("Restart", "OK", <<>>, <<>>), tree)

Next ==
    \/ \E n \in NameSet : Create(n) \/ Delete(n)
    \/ \E o \in NameSet, n \in NameSet : Rename(o, n)
    \/ \E n \in NameSet, on \in BOOLEAN : Subscribe(n, on)
    \/ \E r \in RefSet, p \in PatSet, l \in BOOLEAN : List(r, p, l)
    \/ \E r \in RefSet, p1 \in PatSet, p2 \in PatSet : p1 # p2 /\ ListMulti(r, p1, p2)
    \/ \E r \in RefSet, p \in PatSet : ListExt(r, p, "SUBSCRIBED", "") \/ ListExt(r, p, "", "SUBSCRIBED")
                                          \/ ListExt(r, p, "SUBSCRIBED RECURSIVEMATCH", "")
    \/ Restart

Spec == Init /\ [][Next]_vars

---------------------------------------------------------------------------
(* what TLC checks *)
PropertyLayer == [][NsStepBad(tree, last', tree') = {}]_vars

(* the tree is closed under superiors and INBOX is always there *)
TreeOK ==
    /\ Inbox \in Names(tree)
    /\ \A t \in tree : \A a \in Ancestors(t.name) : a \in Names(tree)

(* laws of the matcher (evaluated over the whole alphabet) *)
MatchLaws ==
    /\ \A n \in NameSet : Match(<<"*">>, n) /\ Match(n, n)
    /\ \A n \in NameSet : Match(<<"%">>, n) <=> (\A i \in DOMAIN n : n[i] # Sep)
    /\ \A p \in PatSet, n \in NameSet :
          Match([i \in DOMAIN p |-> IF p[i] = "%" THEN "*" ELSE p[i]], n) \/ ~Match(p, n)
    /\ \A n \in NameSet : Match(n \o <<"*">>, n) /\ Match(<<"*">> \o n, n)

NamesA == {<<"a">>, <<"a", "/", "b">>, <<"a", "/", "b", "/", "c">>, <<"b">>, <<"a", ".", "b">>,
           <<"a", " ", "b">>, <<"a", "b">>, <<"I", "N", "B", "O", "X">>, <<"i", "n", "b", "o", "x">>}
NamesSmall == {<<"a">>, <<"a", "/", "b">>, <<"b">>, <<"a", "b">>, <<"I", "N", "B", "O", "X">>}
Refs == {<<>>, <<"a", "/">>, <<"a">>}
Pats == {<<"*">>, <<"%">>, <<"a", "/", "%">>, <<"a", "*">>, <<"%", "/", "%">>, <<"a", ".", "b">>,
         <<"I", "N", "B", "O", "X">>, <<"i", "n", "b", "o", "x">>, <<"a", "?", "b">>, <<"*", "b">>, <<"b">>}
=============================================================================
